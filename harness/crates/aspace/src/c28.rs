// ------------------------------------------------------------------------------------------------
// C28: the reference index always matches the set of references
// ------------------------------------------------------------------------------------------------

type T3 = (usize, usize, usize); // (source, target, type) as universe indices

fn c28_node(i: usize) -> NodeId {
    match i {
        0 => NodeId::new(1, 1u32),
        1 => NodeId::new(1, 2u32),
        2 => NodeId::new(2, "s"),
        3 => NodeId::new(0, 85u32),
        4 => NodeId::new(3, ByteString::from(vec![1u8, 2, 3])),
        5 => NodeId::new(1, "s"),
        n => NodeId::new(7, n as u32),
    }
}

fn c28_type(i: usize) -> NodeId {
    match i {
        0 => rt(ReferenceTypeId::HasComponent),
        1 => rt(ReferenceTypeId::Organizes),
        _ => NodeId::new(2, "MyRef"),
    }
}

#[derive(Clone, Copy, PartialEq, Eq, Debug)]
enum Op28 {
    /// source, target, type, entry point (0 insert_reference, 1 insert/Forward, 2 insert/Inverse, 3 insert_references)
    Ins(usize, usize, usize, u8),
    Del(usize, usize, usize),
    DelNode(usize),
}

impl Op28 {
    fn kind(&self) -> &'static str {
        match self {
            Op28::Ins(..) => "ins",
            Op28::Del(..) => "del",
            Op28::DelNode(..) => "delnode",
        }
    }
    fn to_json(self) -> Value {
        match self {
            Op28::Ins(a, b, t, v) => json!(["ins", a, b, t, v]),
            Op28::Del(a, b, t) => json!(["del", a, b, t]),
            Op28::DelNode(n) => json!(["delnode", n]),
        }
    }
    fn from_json(v: &Value) -> Option<Op28> {
        let a = v.as_array()?;
        let n = |i: usize| a.get(i).and_then(|x| x.as_u64()).map(|x| x as usize);
        match a.first()?.as_str()? {
            "ins" => Some(Op28::Ins(n(1)?, n(2)?, n(3)?, n(4).unwrap_or(0) as u8)),
            "del" => Some(Op28::Del(n(1)?, n(2)?, n(3)?)),
            "delnode" => Some(Op28::DelNode(n(1)?)),
            _ => None,
        }
    }
}

struct U28 {
    nodes: Vec<NodeId>,
    types: Vec<NodeId>,
}

impl U28 {
    fn new(nn: usize, nt: usize) -> U28 {
        U28 {
            nodes: (0..nn).map(c28_node).collect(),
            types: (0..nt).map(c28_type).collect(),
        }
    }
    fn node_idx(&self, n: &NodeId) -> usize {
        self.nodes.iter().position(|x| x == n).unwrap_or(usize::MAX)
    }
    fn type_idx(&self, n: &NodeId) -> usize {
        self.types.iter().position(|x| x == n).unwrap_or(usize::MAX)
    }
}

/// One point where the real index and the model disagree
#[derive(Clone, Debug, PartialEq, Eq, PartialOrd, Ord)]
struct Dis28 {
    kind: &'static str, // missing | extra | duplicate
    triple: T3,
    view: &'static str,
}

fn c28_view(u: &U28, out: &mut Vec<Dis28>, view: &'static str, got: Vec<T3>, expect: Vec<T3>) {
    let mut seen: BTreeSet<T3> = BTreeSet::new();
    for g in &got {
        if !seen.insert(*g) {
            out.push(Dis28 { kind: "duplicate", triple: *g, view });
        }
    }
    let expect: BTreeSet<T3> = expect.into_iter().collect();
    for e in expect.difference(&seen) {
        out.push(Dis28 { kind: "missing", triple: *e, view });
    }
    for g in seen.difference(&expect) {
        out.push(Dis28 { kind: "extra", triple: *g, view });
    }
    let _ = u;
}

/// Compares every query the property names against the model
fn c28_compare(refs: &References, model: &BTreeSet<T3>, u: &U28) -> Vec<Dis28> {
    let mut out = Vec::new();
    let nn = u.nodes.len();
    let nt = u.types.len();
    for n in 0..nn {
        let id = &u.nodes[n];
        let fwd_expect: Vec<T3> = model.iter().filter(|t| t.0 == n).cloned().collect();
        let inv_expect: Vec<T3> = model.iter().filter(|t| t.1 == n).cloned().collect();
        let as_fwd = |v: Option<Vec<Reference>>| -> Vec<T3> {
            v.unwrap_or_default()
                .iter()
                .map(|r| (n, u.node_idx(&r.target_node), u.type_idx(&r.reference_type)))
                .collect()
        };
        let as_inv = |v: Option<Vec<Reference>>| -> Vec<T3> {
            v.unwrap_or_default()
                .iter()
                .map(|r| (u.node_idx(&r.target_node), n, u.type_idx(&r.reference_type)))
                .collect()
        };
        c28_view(u, &mut out, "fwd", as_fwd(refs.find_references(id, NO_FILTER)), fwd_expect.clone());
        c28_view(u, &mut out, "inv", as_inv(refs.find_inverse_references(id, NO_FILTER)), inv_expect.clone());
        for t in 0..nt {
            let f = Some((u.types[t].clone(), false));
            c28_view(
                u,
                &mut out,
                "fwd-typed",
                as_fwd(refs.find_references(id, f.clone())),
                fwd_expect.iter().filter(|x| x.2 == t).cloned().collect(),
            );
            c28_view(
                u,
                &mut out,
                "inv-typed",
                as_inv(refs.find_inverse_references(id, f)),
                inv_expect.iter().filter(|x| x.2 == t).cloned().collect(),
            );
        }
        let (both, split) = refs.find_references_by_direction(id, BrowseDirection::Both, NO_FILTER);
        let split = split.min(both.len());
        c28_view(u, &mut out, "both-fwd", as_fwd(Some(both[..split].to_vec())), fwd_expect.clone());
        c28_view(u, &mut out, "both-inv", as_inv(Some(both[split..].to_vec())), inv_expect.clone());
        for b in 0..nn {
            for t in 0..nt {
                let got = refs.has_reference(id, &u.nodes[b], u.types[t].clone());
                let want = model.contains(&(n, b, t));
                if got != want {
                    out.push(Dis28 {
                        kind: if want { "missing" } else { "extra" },
                        triple: (n, b, t),
                        view: "has",
                    });
                }
            }
        }
    }
    out
}

fn c28_apply(refs: &mut References, model: &mut BTreeSet<T3>, u: &U28, op: Op28) -> Result<(), PanicInfo> {
    match op {
        Op28::Ins(a, b, t, via) => {
            let (na, nb, ty) = (u.nodes[a].clone(), u.nodes[b].clone(), u.types[t].clone());
            let r = catch(|| match via {
                1 => refs.insert(&na, &[(&nb, &ty, ReferenceDirection::Forward)]),
                2 => refs.insert(&nb, &[(&na, &ty, ReferenceDirection::Inverse)]),
                3 => refs.insert_references(&[(&na, &nb, &ty)]),
                _ => refs.insert_reference(&na, &nb, &ty),
            });
            match r {
                Ok(()) => {
                    model.insert((a, b, t));
                    Ok(())
                }
                // the documented refusal of a self reference; the index must then be unchanged
                Err(p) if a == b && p.msg.contains("self reference is not allowed") => Ok(()),
                Err(p) => Err(p),
            }
        }
        Op28::Del(a, b, t) => {
            let (na, nb, ty) = (u.nodes[a].clone(), u.nodes[b].clone(), u.types[t].clone());
            catch(|| {
                refs.delete_reference(&na, &nb, ty);
            })?;
            model.remove(&(a, b, t));
            Ok(())
        }
        Op28::DelNode(n) => {
            let id = u.nodes[n].clone();
            catch(|| {
                refs.delete_node_references(&id);
            })?;
            model.retain(|x| x.0 != n && x.1 != n);
            Ok(())
        }
    }
}

fn c28_relation(op: Op28, tr: T3) -> &'static str {
    match op {
        Op28::Ins(a, b, t, _) | Op28::Del(a, b, t) => {
            if tr == (a, b, t) {
                "same-triple"
            } else if tr.0 == b && tr.1 == a {
                "opposite-direction-pair"
            } else if tr.0 == a && tr.1 == b {
                "same-pair-other-type"
            } else if tr.0 == a {
                "shares-source"
            } else if tr.1 == b {
                "shares-target"
            } else if tr.0 == b || tr.1 == a {
                "touches-endpoint"
            } else {
                "unrelated"
            }
        }
        Op28::DelNode(n) => {
            if tr.0 == n || tr.1 == n {
                "touches-node"
            } else {
                "unrelated"
            }
        }
    }
}

struct Fail28 {
    signature: String,
    detail: String,
    at: usize,
}

/// Runs a history against a fresh real index; stops at the first disagreement or panic
fn c28_run(ops: &[Op28], u: &U28, stats: Option<&mut [u64; 4]>) -> Option<Fail28> {
    let mut refs = References::default();
    let mut model: BTreeSet<T3> = BTreeSet::new();
    let mut dummy = [0u64; 4];
    let local: &mut [u64; 4] = match stats {
        Some(s) => s,
        None => &mut dummy,
    };
    for (i, op) in ops.iter().enumerate() {
        // shape statistics, taken from the model before the op
        if let Op28::Del(a, b, t) = *op {
            if model.contains(&(a, b, t)) {
                local[0] += 1;
                if model.iter().any(|x| x.0 == b && x.1 == a) {
                    local[1] += 1;
                }
            }
        }
        if let Op28::DelNode(n) = *op {
            if model.iter().any(|x| x.0 == n) && model.iter().any(|x| x.1 == n) {
                local[2] += 1;
            }
        }
        if let Err(p) = c28_apply(&mut refs, &mut model, u, *op) {
            return Some(Fail28 {
                signature: format!("refindex|after={}|{}", op.kind(), p.signature()),
                detail: format!("op #{} {:?} panicked: {} at {}:{}", i, op, p.msg, p.file, p.line),
                at: i,
            });
        }
        local[3] += 1;
        let mut dis = c28_compare(&refs, &model, u);
        if !dis.is_empty() {
            dis.sort();
            let first = dis[0].clone();
            let mut views: Vec<&str> = dis
                .iter()
                .filter(|d| d.triple == first.triple && d.kind == first.kind)
                .map(|d| d.view)
                .collect();
            views.dedup();
            let signature = format!(
                "refindex|after={}|{}|{}|views={}",
                op.kind(),
                first.kind,
                c28_relation(*op, first.triple),
                views.join("+")
            );
            let detail = format!(
                "after op #{} {:?}: reference (src n{}, dst n{}, type t{}) is {} in {} (model holds {:?}); {} disagreeing answers in total",
                i,
                op,
                first.triple.0,
                first.triple.1,
                first.triple.2,
                first.kind,
                views.join(","),
                model,
                dis.len()
            );
            return Some(Fail28 { signature, detail, at: i });
        }
    }
    None
}

/// Greedy one-op-at-a-time minimisation that keeps the signature
fn c28_shrink(ops: &[Op28], u: &U28, sig: &str, at: usize) -> Vec<Op28> {
    let mut cur: Vec<Op28> = ops[..=at.min(ops.len() - 1)].to_vec();
    let mut changed = true;
    while changed && cur.len() > 1 {
        changed = false;
        let mut i = 0;
        while i + 1 < cur.len() {
            let mut cand = cur.clone();
            cand.remove(i);
            match c28_run(&cand, u, None) {
                Some(f) if f.signature == sig => {
                    cur = cand[..=f.at].to_vec();
                    changed = true;
                }
                _ => i += 1,
            }
        }
    }
    cur
}

fn c28_case_json(ops: &[Op28], nn: usize, nt: usize, class: &str) -> Value {
    json!({"nodes": nn, "types": nt, "class": class,
           "ops": ops.iter().map(|o| o.to_json()).collect::<Vec<_>>()})
}

fn c28_class(ops: &[Op28], nn: usize) -> String {
    // what kind of history: length bucket, and which hostile shapes occur in it (judged on a model)
    let mut model: BTreeSet<T3> = BTreeSet::new();
    let (mut del_opp, mut del_multi, mut del_missing, mut dn_both, mut reinsert, mut selfref) = (0, 0, 0, 0, 0, 0);
    let mut ever: BTreeSet<T3> = BTreeSet::new();
    for op in ops {
        match *op {
            Op28::Ins(a, b, t, _) => {
                if a == b {
                    selfref = 1;
                    continue;
                }
                if ever.contains(&(a, b, t)) && !model.contains(&(a, b, t)) {
                    reinsert = 1;
                }
                model.insert((a, b, t));
                ever.insert((a, b, t));
            }
            Op28::Del(a, b, t) => {
                if model.contains(&(a, b, t)) {
                    if model.iter().any(|x| x.0 == b && x.1 == a) {
                        del_opp = 1;
                    }
                    if model.iter().any(|x| x.0 == a && x.1 == b && x.2 != t) {
                        del_multi = 1;
                    }
                } else {
                    del_missing = 1;
                }
                model.remove(&(a, b, t));
            }
            Op28::DelNode(n) => {
                if model.iter().any(|x| x.0 == n) && model.iter().any(|x| x.1 == n) {
                    dn_both = 1;
                }
                model.retain(|x| x.0 != n && x.1 != n);
            }
        }
    }
    let len = match ops.len() {
        0..=4 => "<=4",
        5..=16 => "<=16",
        17..=64 => "<=64",
        _ => ">64",
    };
    format!(
        "n{} len{} delOpp{} delMulti{} delMissing{} delNodeInOut{} reinsert{} self{}",
        nn, len, del_opp, del_multi, del_missing, dn_both, reinsert, selfref
    )
}

fn c28_one(rep: &mut Report, ops: &[Op28], u: &U28, stats: &mut [u64; 4], sample: bool) {
    let (nn, nt) = (u.nodes.len(), u.types.len());
    let class = c28_class(ops, nn);
    let case = c28_case_json(ops, nn, nt, &class);
    rep.begin_case(&case);
    let fail = c28_run(ops, u, Some(stats));
    rep.case(&class);
    if sample {
        rep.sample(case.clone());
    }
    if let Some(f) = fail {
        // minimise the first witnesses of each signature, the rest are only counted
        let known = rep.violations.iter().filter(|v| v.signature == f.signature).count();
        if known < 3 {
            let small = c28_shrink(ops, u, &f.signature, f.at);
            let f2 = c28_run(&small, u, None);
            let detail = f2.map(|x| x.detail).unwrap_or(f.detail);
            rep.violation(
                f.signature,
                format!("minimised to {} ops: {}", small.len(), detail),
                c28_case_json(&small, nn, nt, &class),
            );
        } else {
            rep.violation(f.signature, f.detail, case);
        }
    }
}

pub fn c28(args: &Args, rep: &mut Report) {
    let mut stats = [0u64; 4];
    if let Some(case) = load_replay(args) {
        let nn = case["nodes"].as_u64().unwrap_or(6) as usize;
        let nt = case["types"].as_u64().unwrap_or(3) as usize;
        let ops: Vec<Op28> = case["ops"]
            .as_array()
            .map(|a| a.iter().filter_map(Op28::from_json).collect())
            .unwrap_or_default();
        let u = U28::new(nn, nt);
        c28_one(rep, &ops, &u, &mut stats, true);
        return;
    }
    // 1. exhaustive: every history of length L over 3 nodes and 2 types (every shorter history is a
    //    prefix, and the comparison runs after every op)
    {
        let u = U28::new(3, 2);
        let mut alphabet: Vec<Op28> = Vec::new();
        for a in 0..3 {
            for b in 0..3 {
                if a != b {
                    for t in 0..2 {
                        alphabet.push(Op28::Ins(a, b, t, 0));
                        alphabet.push(Op28::Del(a, b, t));
                    }
                }
            }
        }
        for n in 0..3 {
            alphabet.push(Op28::DelNode(n));
        }
        let len: u32 = if args.thorough() { 4 } else { 3 };
        let total = (alphabet.len() as u64).pow(len);
        let mut idx = args.shard as u64;
        let mut ran = 0u64;
        while idx < total {
            let mut x = idx;
            let mut ops = Vec::with_capacity(len as usize);
            for _ in 0..len {
                ops.push(alphabet[(x % alphabet.len() as u64) as usize]);
                x /= alphabet.len() as u64;
            }
            c28_one(rep, &ops, &u, &mut stats, ran % 4096 == 0);
            ran += 1;
            idx += args.shards as u64;
        }
        rep.count("exhaustive_histories", ran);
        rep.count("exhaustive_history_length", if args.shard == 0 { len as u64 } else { 0 });
    }
    // 2. seeded random long histories over 6 nodes and 3 types, biased towards opposite-direction
    //    pairs, several types on one pair, and deletes of what exists
    let mut rng = Rng::new(args.seed ^ 0xC28 ^ ((args.shard as u64) << 32));
    let u = U28::new(6, 3);
    let n = args.budget(2_400, 40_000);
    let max_len = if args.thorough() { 200 } else { 60 };
    for _ in 0..n {
        let len = 4 + rng.usize(max_len - 3);
        let mut ops: Vec<Op28> = Vec::with_capacity(len);
        let mut model: BTreeSet<T3> = BTreeSet::new();
        // some histories work in a corner of the universe so that pairs collide often
        let span = if rng.chance(1, 3) { 2 + rng.usize(2) } else { 6 };
        for _ in 0..len {
            let existing: Vec<T3> = model.iter().cloned().collect();
            let roll = rng.below(100);
            let op = if roll < 45 || existing.is_empty() {
                let (a, b, t) = if !existing.is_empty() && rng.chance(2, 5) {
                    let e = *rng.pick(&existing);
                    match rng.below(3) {
                        0 => (e.1, e.0, e.2),        // the opposite direction, same type
                        1 => (e.1, e.0, rng.usize(3)), // the opposite direction, any type
                        _ => (e.0, e.1, rng.usize(3)), // same pair, maybe another type
                    }
                } else {
                    (rng.usize(span), rng.usize(span), rng.usize(3))
                };
                if a == b && !rng.chance(1, 20) {
                    Op28::Ins(a, (b + 1) % span.max(2), t, rng.below(4) as u8)
                } else {
                    Op28::Ins(a, b, t, rng.below(4) as u8)
                }
            } else if roll < 88 {
                if rng.chance(4, 5) {
                    let e = *rng.pick(&existing);
                    Op28::Del(e.0, e.1, e.2)
                } else {
                    Op28::Del(rng.usize(span), rng.usize(span), rng.usize(3))
                }
            } else {
                Op28::DelNode(rng.usize(span))
            };
            // keep the generator's own picture of what exists
            match op {
                Op28::Ins(a, b, t, _) if a != b => {
                    model.insert((a, b, t));
                }
                Op28::Del(a, b, t) => {
                    model.remove(&(a, b, t));
                }
                Op28::DelNode(x) => model.retain(|e| e.0 != x && e.1 != x),
                _ => {}
            }
            ops.push(op);
        }
        c28_one(rep, &ops, &u, &mut stats, true);
    }
    rep.count("random_histories", n);
    rep.count("deletes_of_existing_reference", stats[0]);
    rep.count("deletes_with_opposite_direction_reference_present", stats[1]);
    rep.count("node_deletes_with_in_and_out_references", stats[2]);
    rep.count("ops_followed_by_full_comparison", stats[3]);
}
