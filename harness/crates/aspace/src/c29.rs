// ------------------------------------------------------------------------------------------------
// C29: deleting a node terminates and leaves no dangling references
// ------------------------------------------------------------------------------------------------
//
// A case is a small graph placed into a real AddressSpace (standard node set included, so that the
// Aggregates subtype hierarchy is the real one), a node chosen for deletion, the
// delete-target-references flag and the entry point (AddressSpace::delete or the DeleteNodes
// service). Cases run in a child process on a thread with a small stack: unbounded recursion is
// observed as the child dying on a signal while that case was in flight.

const C29_TYPES: [ReferenceTypeId; 8] = [
    ReferenceTypeId::HasComponent,
    ReferenceTypeId::HasProperty,
    ReferenceTypeId::HasOrderedComponent,
    ReferenceTypeId::Aggregates,
    ReferenceTypeId::Organizes,
    ReferenceTypeId::HasEventSource,
    ReferenceTypeId::HasTypeDefinition,
    ReferenceTypeId::HasChild,
];
const C29_AGG: usize = 4; // the first four aggregate

fn c29_node(i: u64) -> NodeId {
    match i {
        100 => ObjectId::ObjectsFolder.into(),
        101 => ObjectTypeId::BaseObjectType.into(),
        102 => ObjectTypeId::FolderType.into(),
        103 => ObjectId::Server.into(),
        i if i >= 50 => NodeId::new(1, 5900 + i as u32), // never created ("ghost")
        i => {
            if i % 3 == 2 {
                NodeId::new(1, format!("g{}", i))
            } else {
                NodeId::new(1, 5000 + i as u32)
            }
        }
    }
}

fn c29_triples(v: &Value) -> Vec<(u64, u64, usize)> {
    v.as_array()
        .map(|a| {
            a.iter()
                .filter_map(|e| {
                    let e = e.as_array()?;
                    Some((e.first()?.as_u64()?, e.get(1)?.as_u64()?, e.get(2)?.as_u64()? as usize % C29_TYPES.len()))
                })
                .collect()
        })
        .unwrap_or_default()
}

struct C29World {
    space: Arc<RwLock<AddressSpace>>,
    server: Server,
    session: Arc<RwLock<Session>>,
    /// forward + inverse reference counts of the standard nodes the cases attach to, pristine
    baseline: Vec<(NodeId, usize, usize)>,
}

fn c29_universe(case: &Value) -> (Vec<NodeId>, Vec<NodeId>) {
    let k = case["k"].as_u64().unwrap_or(0);
    let created: Vec<NodeId> = (0..k).map(c29_node).collect();
    let mut seen: HashSet<NodeId> = created.iter().cloned().collect();
    let mut universe = created.clone();
    let mut add = |n: NodeId| {
        if seen.insert(n.clone()) {
            universe.push(n);
        }
    };
    for (s, d, _) in c29_triples(&case["edges"]) {
        add(c29_node(s));
        add(c29_node(d));
    }
    add(c29_node(case["del"].as_u64().unwrap_or(0)));
    (created, universe)
}

/// Runs one case on the calling (small-stack) thread against the world's address space, which must
/// be pristine. Panics are caught; unbounded recursion kills the process.
fn c29_run_case(world: &C29World, case: &Value) -> Value {
    let k = case["k"].as_u64().unwrap_or(0);
    let edges = c29_triples(&case["edges"]);
    let pre = c29_triples(&case["pre"]);
    let del = case["del"].as_u64().unwrap_or(0);
    let dtr = case["dtr"].as_bool().unwrap_or(true);
    let via_service = case["via"].as_str() == Some("service");
    let space_arc = world.space.clone();
    let (created, universe) = c29_universe(case);
    let target = c29_node(del);
    let outcome = catch(|| {
        // build the graph; earlier reference deletions are part of the history that built it
        {
            let mut space = space_arc.write();
            for j in 0..k {
                let id = c29_node(j);
                let name = format!("n{}", j);
                let none: Option<&[(&NodeId, &NodeId, ReferenceDirection)]> = None;
                if j % 2 == 0 {
                    space.insert(Object::new(&id, name.as_str(), name.as_str(), EventNotifier::empty()), none);
                } else {
                    space.insert(Variable::new(&id, name.as_str(), name.as_str(), 0i32), none);
                }
            }
            for (s, d, t) in &edges {
                space.insert_reference(&c29_node(*s), &c29_node(*d), C29_TYPES[*t]);
            }
            for (s, d, t) in &pre {
                space.delete_reference(&c29_node(*s), &c29_node(*d), C29_TYPES[*t]);
            }
        }
        // what the deletion is asked to remove, read from the real pre-state
        let (expected, loose, direct, cyclic, pre_edges) = {
            let space = space_arc.read();
            let agg = subtype_closure(&space, &rt(ReferenceTypeId::Aggregates));
            // must go: what the node and the nodes below it aggregate; may go: also what is only
            // reachable through ids that are not nodes
            let expected = aggregation_closure(&space, &target, &agg, false);
            let loose: Vec<(NodeId, bool)> = aggregation_closure(&space, &target, &agg, true)
                .into_iter()
                .map(|n| {
                    let e = space.node_exists(&n);
                    (n, e)
                })
                .collect();
            let cyclic = aggregation_cycle_reachable(&space, &target, &agg);
            let direct: HashSet<NodeId> = fwd_refs(&space, &target)
                .into_iter()
                .filter(|r| agg.contains(&r.reference_type))
                .map(|r| r.target_node)
                .collect();
            let n: usize = universe.iter().map(|u| fwd_refs(&space, u).len()).sum();
            (expected, loose, direct, cyclic, n)
        };
        // the deletion itself
        let status: String = if via_service {
            let request = DeleteNodesRequest {
                request_header: RequestHeader::dummy(),
                nodes_to_delete: Some(vec![DeleteNodesItem {
                    node_id: target.clone(),
                    delete_target_references: dtr,
                }]),
            };
            match hooks::delete_nodes(world.server.server_state(), world.session.clone(), space_arc.clone(), &request) {
                SupportedMessage::DeleteNodesResponse(r) => r
                    .results
                    .and_then(|r| r.first().map(|s| s.name().to_string()))
                    .unwrap_or_else(|| "no-result".into()),
                SupportedMessage::ServiceFault(f) => format!("fault:{}", f.response_header.service_result.name()),
                _ => "unexpected-response".into(),
            }
        } else {
            let mut space = space_arc.write();
            format!("{}", space.delete(&target, dtr))
        };
        // post-state
        let space = space_arc.read();
        // nodes that existed and are gone now
        let removed: HashSet<NodeId> = loose
            .iter()
            .filter(|(n, existed)| *existed && !space.node_exists(n))
            .map(|(n, _)| n.clone())
            .collect();
        let may_go: HashSet<NodeId> = loose.iter().map(|(n, _)| n.clone()).collect();
        let mut survivors = Vec::new();
        for (i, n) in expected.iter().enumerate() {
            if space.node_exists(n) {
                let role = if i == 0 {
                    "target"
                } else if direct.contains(n) {
                    "direct-aggregate"
                } else {
                    "transitive-aggregate"
                };
                survivors.push(json!([n.to_string(), role]));
            }
        }
        let mut dangling = Vec::new();
        let mut look: Vec<NodeId> = universe.clone();
        for (e, _) in &loose {
            if !look.contains(e) {
                look.push(e.clone());
            }
        }
        for u in &look {
            for r in fwd_refs(&space, u) {
                if removed.contains(u) || removed.contains(&r.target_node) {
                    let side = if removed.contains(u) { "from-removed" } else { "to-removed" };
                    dangling.push(json!([u.to_string(), r.target_node.to_string(), r.reference_type.to_string(), side, "forward-listing"]));
                }
            }
            for r in inv_refs(&space, u) {
                if removed.contains(u) || removed.contains(&r.target_node) {
                    let side = if removed.contains(&r.target_node) { "from-removed" } else { "to-removed" };
                    dangling.push(json!([r.target_node.to_string(), u.to_string(), r.reference_type.to_string(), side, "inverse-listing"]));
                }
            }
        }
        let collateral: Vec<String> = created
            .iter()
            .filter(|n| !may_go.contains(n) && !space.node_exists(n))
            .map(|n| n.to_string())
            .collect();
        json!({"status": status, "expected_removed": expected.len(), "cyclic": cyclic,
               "pre_edges": pre_edges, "survivors": survivors, "dangling": dangling,
               "collateral": collateral})
    });
    match outcome {
        Ok(v) => v,
        Err(p) => json!({"panic": {"signature": p.signature(), "msg": p.msg, "file": p.file, "line": p.line}}),
    }
}

/// Takes the case's nodes and references out again, reference by reference so that nothing can
/// recurse, and checks that the address space answers as it did before the case. False = rebuild.
fn c29_restore(world: &C29World, case: &Value) -> bool {
    let (created, universe) = c29_universe(case);
    let ok = catch(|| {
        let mut space = world.space.write();
        for (s, d, t) in c29_triples(&case["edges"]) {
            space.delete_reference(&c29_node(s), &c29_node(d), C29_TYPES[t]);
        }
        for u in &universe {
            if c29_is_standard(u) {
                continue;
            }
            // anything a misbehaving deletion left behind
            for r in fwd_refs(&space, u) {
                space.delete_reference(u, &r.target_node, r.reference_type.clone());
            }
            for r in inv_refs(&space, u) {
                space.delete_reference(&r.target_node, u, r.reference_type.clone());
            }
        }
        for n in &created {
            space.delete(n, true);
        }
        for u in &universe {
            if c29_is_standard(u) {
                continue;
            }
            if space.node_exists(u) || !fwd_refs(&space, u).is_empty() || !inv_refs(&space, u).is_empty() {
                return false;
            }
        }
        for (n, f, i) in &world.baseline {
            if !space.node_exists(n) || fwd_refs(&space, n).len() != *f || inv_refs(&space, n).len() != *i {
                return false;
            }
        }
        true
    });
    ok.unwrap_or(false)
}

fn c29_is_standard(n: &NodeId) -> bool {
    (100..104).any(|i| c29_node(i) == *n)
}

fn c29_child(rest: &[String]) -> i32 {
    let stack_kb: usize = rest.first().and_then(|s| s.parse().ok()).unwrap_or(256);
    let mut always_fork = rest.get(1).map(|s| s == "fork").unwrap_or(false);
    let crash_budget: u64 = rest.get(2).and_then(|s| s.parse().ok()).unwrap_or(48);
    let input = read_stdin();
    let cases: Vec<Value> = String::from_utf8_lossy(&input)
        .lines()
        .filter_map(|l| serde_json::from_str(l).ok())
        .collect();
    let server = new_server("c29", true);
    let session = Arc::new(RwLock::new(Session::new(server.server_state())));
    let space = server.address_space();
    let baseline: Vec<(NodeId, usize, usize)> = {
        let sp = space.read();
        (100..104)
            .map(|i| {
                let n = c29_node(i);
                let (f, v) = (fwd_refs(&sp, &n).len(), inv_refs(&sp, &n).len());
                (n, f, v)
            })
            .collect()
    };
    let mut world = C29World { space, server, session, baseline };
    // Everything below runs on one small-stack thread: a deletion that recurses without bound
    // exhausts it at once. Cases in which the generated graph holds an aggregation cycle reachable
    // from the node to delete run in a fork of this process, so that the expected crash takes only
    // that case with it; any other crash kills this runner and the parent restarts it in fork-all mode.
    let worker = std::thread::Builder::new()
        .name("c29-delete".into())
        .stack_size(stack_kb * 1024)
        .spawn(move || {
            let say = |s: String| {
                let out = std::io::stdout();
                let mut o = out.lock();
                let _ = writeln!(o, "{}", s);
                let _ = o.flush();
            };
            let mut crashes = 0u64;
            let mut calm_streak = 0u32;
            for case in &cases {
                let i = case["i"].as_u64().unwrap_or(0);
                let risky = case["risky"].as_bool().unwrap_or(false);
                let fork_it = always_fork || (risky && calm_streak < 3);
                if fork_it && risky && crashes >= crash_budget {
                    say(format!("S {}", i));
                    continue;
                }
                say(format!("B {}", i));
                if fork_it {
                    let pid = unsafe { libc::fork() };
                    if pid == 0 {
                        unsafe {
                            libc::alarm(120);
                        }
                        let mut r = c29_run_case(&world, case);
                        r["i"] = json!(i);
                        r["forked"] = json!(true);
                        say(format!("R {}", r));
                        unsafe { libc::_exit(0) };
                    } else if pid < 0 {
                        say(format!("F {}", i));
                        continue;
                    }
                    let mut status: libc::c_int = 0;
                    unsafe {
                        libc::waitpid(pid, &mut status, 0);
                    }
                    if libc::WIFSIGNALED(status) {
                        crashes += 1;
                        calm_streak = 0;
                        say(format!("X {} {}", i, libc::WTERMSIG(status)));
                    } else if !libc::WIFEXITED(status) || libc::WEXITSTATUS(status) != 0 {
                        say(format!("X {} exit{}", i, libc::WEXITSTATUS(status)));
                    } else if risky {
                        calm_streak += 1;
                    }
                } else {
                    let mut r = c29_run_case(&world, case);
                    r["i"] = json!(i);
                    say(format!("R {}", r));
                    if !c29_restore(&world, case) {
                        *world.space.write() = AddressSpace::new();
                        say(format!("N {}", i));
                        // a rebuild that is not pristine either would poison every later case
                        let sp = world.space.read();
                        for (n, f, v) in world.baseline.iter_mut() {
                            *f = fwd_refs(&sp, n).len();
                            *v = inv_refs(&sp, n).len();
                        }
                    }
                }
            }
            always_fork = false;
            let _ = always_fork;
        })
        .expect("spawn small-stack thread");
    let ok = worker.join().is_ok();
    cleanup_scratch("c29");
    if ok {
        0
    } else {
        3
    }
}

// ---- parent side ---------------------------------------------------------------------------------

/// Shape analysis on the generated graph alone (no library code): is an aggregation cycle reachable
/// from the node to delete, is a child shared, ...
fn c29_shape(case: &Value) -> (bool, String) {
    let edges = c29_triples(&case["edges"]);
    let pre: HashSet<(u64, u64, usize)> = c29_triples(&case["pre"]).into_iter().collect();
    let del = case["del"].as_u64().unwrap_or(0);
    let agg_edges: Vec<(u64, u64)> = edges
        .iter()
        .filter(|e| e.2 < C29_AGG && !pre.contains(e))
        .map(|e| (e.0, e.1))
        .collect();
    // reachable set and cycle test by colouring
    let succ = |n: u64| -> Vec<u64> { agg_edges.iter().filter(|e| e.0 == n).map(|e| e.1).collect() };
    let mut colour: HashMap<u64, u8> = HashMap::new();
    let mut cyclic = false;
    let mut stack: Vec<(u64, Vec<u64>, usize)> = vec![(del, succ(del), 0)];
    colour.insert(del, 1);
    while let Some(top) = stack.last_mut() {
        if top.2 < top.1.len() {
            let nx = top.1[top.2];
            top.2 += 1;
            match colour.get(&nx) {
                Some(1) => cyclic = true,
                Some(_) => {}
                None => {
                    colour.insert(nx, 1);
                    stack.push((nx, succ(nx), 0));
                }
            }
        } else {
            colour.insert(top.0, 2);
            stack.pop();
        }
    }
    let reach: HashSet<u64> = colour.keys().cloned().collect();
    let shared = reach
        .iter()
        .any(|n| agg_edges.iter().filter(|e| e.1 == *n).map(|e| e.0).collect::<HashSet<_>>().len() > 1);
    let inbound_foreign = edges.iter().any(|e| reach.contains(&e.1) && !reach.contains(&e.0));
    let ghost = reach.iter().any(|n| *n >= 50 && *n < 100) || del >= case["k"].as_u64().unwrap_or(0);
    let on_cycle = cyclic && {
        // is the deleted node itself on a cycle?
        let mut seen = HashSet::new();
        let mut q: Vec<u64> = succ(del);
        let mut hit = false;
        while let Some(n) = q.pop() {
            if n == del {
                hit = true;
                break;
            }
            if seen.insert(n) {
                q.extend(succ(n));
            }
        }
        hit
    };
    let class = format!(
        "reach{} cyc{} self-on-cycle{} shared{} inbound{} ghost{} pre{} dtr{} via-{}",
        reach.len().min(6),
        cyclic as u8,
        on_cycle as u8,
        shared as u8,
        inbound_foreign as u8,
        ghost as u8,
        (!pre.is_empty()) as u8,
        case["dtr"].as_bool().unwrap_or(true) as u8,
        case["via"].as_str().unwrap_or("api")
    );
    (cyclic, class)
}

fn c29_case(k: u64, edges: &[(u64, u64, usize)], pre: &[(u64, u64, usize)], del: u64, dtr: bool, service: bool) -> Value {
    let e: Vec<Value> = edges.iter().map(|x| json!([x.0, x.1, x.2])).collect();
    let p: Vec<Value> = pre.iter().map(|x| json!([x.0, x.1, x.2])).collect();
    let mut case = json!({"k": k, "edges": e, "pre": p, "del": del, "dtr": dtr,
                          "via": if service { "service" } else { "api" }});
    let (_, class) = c29_shape(&case);
    case["class"] = json!(class);
    case
}

fn c29_systematic() -> Vec<Value> {
    let mut out = Vec::new();
    let variants = [(true, false), (false, false), (true, true), (false, true)];
    for &(dtr, svc) in &variants {
        for t in 0..C29_AGG {
            // cycles of length 2..4, each node as the one deleted
            for len in 2..=4u64 {
                let edges: Vec<(u64, u64, usize)> = (0..len).map(|i| (i, (i + 1) % len, t)).collect();
                for del in 0..len {
                    out.push(c29_case(len, &edges, &[], del, dtr, svc));
                }
            }
            // a tail leading into a 2-cycle, deleting the tail
            out.push(c29_case(3, &[(0, 1, t), (1, 2, t), (2, 1, t)], &[], 0, dtr, svc));
            // tree, diamond, shared child with a surviving second parent, chain
            out.push(c29_case(4, &[(0, 1, t), (0, 2, t), (1, 3, t)], &[], 0, dtr, svc));
            out.push(c29_case(4, &[(0, 1, t), (0, 2, t), (1, 3, t), (2, 3, t)], &[], 0, dtr, svc));
            out.push(c29_case(3, &[(0, 2, t), (1, 2, t)], &[], 0, dtr, svc));
            out.push(c29_case(5, &[(0, 1, t), (1, 2, t), (2, 3, t), (3, 4, t)], &[], 1, dtr, svc));
            // references in both directions between parent and child of different kinds
            out.push(c29_case(2, &[(0, 1, t), (1, 0, 4)], &[], 0, dtr, svc));
            out.push(c29_case(2, &[(0, 1, t), (1, 0, 4)], &[], 1, dtr, svc));
            // attached to the standard node set
            out.push(c29_case(2, &[(100, 0, 4), (0, 101, 6), (0, 1, t), (1, 101, 6)], &[], 0, dtr, svc));
            // a cycle that was broken by an earlier reference deletion
            out.push(c29_case(2, &[(0, 1, t), (1, 0, t)], &[(1, 0, t)], 0, dtr, svc));
            // aggregated id that is not a node
            out.push(c29_case(1, &[(0, 50, t), (50, 0, 4)], &[], 0, dtr, svc));
        }
        // a cycle of non-aggregating references must not matter
        out.push(c29_case(2, &[(0, 1, 4), (1, 0, 4)], &[], 0, dtr, svc));
        out.push(c29_case(3, &[(0, 1, 5), (1, 2, 7), (2, 0, 4)], &[], 0, dtr, svc));
        // deleting an id that is not a node
        out.push(c29_case(2, &[(0, 1, 0)], &[], 51, dtr, svc));
    }
    out
}

fn c29_random(rng: &mut Rng) -> Value {
    let k = 2 + rng.below(6);
    let mut edges: Vec<(u64, u64, usize)> = Vec::new();
    let ne = 1 + rng.below(2 * k);
    let agg_bias = rng.below(4); // 0: mostly aggregating .. 3: mixed
    for _ in 0..ne {
        let s = rng.below(k);
        let mut d = rng.below(k);
        if d == s {
            d = (d + 1) % k;
        }
        let t = if rng.below(4) >= agg_bias { rng.usize(C29_AGG) } else { rng.usize(C29_TYPES.len()) };
        if !edges.contains(&(s, d, t)) {
            edges.push((s, d, t));
        }
    }
    // attachments to the standard node set (never aggregating towards it) and to ghost ids
    for j in 0..k {
        if rng.chance(1, 3) {
            edges.push((100, j, 4));
        }
        if rng.chance(1, 3) {
            edges.push((j, 101 + rng.below(2), 6));
        }
        if rng.chance(1, 10) {
            edges.push((103, j, 5));
        }
        if rng.chance(1, 12) {
            edges.push((j, 50 + rng.below(2), rng.usize(C29_TYPES.len())));
        }
        if rng.chance(1, 12) {
            edges.push((50 + rng.below(2), j, rng.usize(C29_TYPES.len())));
        }
    }
    let mut pre = Vec::new();
    if rng.chance(1, 4) {
        for _ in 0..1 + rng.below(2) {
            let e = *rng.pick(&edges);
            if e.0 < 100 {
                pre.push(e);
            }
        }
    }
    let del = if rng.chance(1, 15) { 50 + rng.below(2) } else { rng.below(k) };
    c29_case(k, &edges, &pre, del, !rng.chance(1, 4), rng.chance(1, 3))
}

fn c29_judge(rep: &mut Report, case: &Value, r: &Value, counters: &mut [u64; 6]) {
    let dtr = case["dtr"].as_bool().unwrap_or(true);
    if let Some(p) = r.get("panic") {
        rep.violation(
            format!("delete|{}", p["signature"].as_str().unwrap_or("panic")),
            format!("deleting n{} panicked: {} at {}:{}", case["del"], p["msg"], p["file"], p["line"]),
            case.clone(),
        );
        return;
    }
    counters[0] += 1;
    counters[1] += r["expected_removed"].as_u64().unwrap_or(0);
    counters[2] += r["pre_edges"].as_u64().unwrap_or(0);
    if r["cyclic"].as_bool() == Some(true) {
        counters[3] += 1;
    }
    if !dtr {
        // without the flag the property only promises termination
        counters[4] += 1;
        return;
    }
    if let Some(first) = r["survivors"].as_array().and_then(|a| a.first()) {
        rep.violation(
            format!("delete|node-survives|{}", first[1].as_str().unwrap_or("?")),
            format!("after delete (status {}) node {} still exists; all survivors: {}", r["status"], first[0], r["survivors"]),
            case.clone(),
        );
    }
    if let Some(first) = r["dangling"].as_array().and_then(|a| a.first()) {
        rep.violation(
            format!("delete|dangling-reference|{}|{}", first[3].as_str().unwrap_or("?"), first[4].as_str().unwrap_or("?")),
            format!("after delete (status {}) reference {} -> {} ({}) is still reported; all: {}", r["status"], first[0], first[1], first[2], r["dangling"]),
            case.clone(),
        );
    }
    if let Some(first) = r["collateral"].as_array().and_then(|a| a.first()) {
        rep.violation(
            "delete|unrelated-node-removed",
            format!("node {} is neither the deleted node nor aggregated by it, and is gone; all: {}", first, r["collateral"]),
            case.clone(),
        );
    }
}

fn c29_crashed(rep: &mut Report, case: &Value, how: &str, stack_kb: usize, stderr_tail: &str, overflows: &mut u64) {
    let (cyclic, class) = c29_shape(case);
    rep.case(&class);
    let fatal = [libc::SIGABRT, libc::SIGSEGV, libc::SIGBUS].iter().any(|s| s.to_string() == how);
    if fatal {
        *overflows += 1;
        rep.violation(
            format!(
                "delete|stack-overflow|{}",
                if cyclic { "aggregation-cycle-reachable" } else { "no-aggregation-cycle" }
            ),
            format!(
                "the process running this one deletion on a {} kB stack died on signal {} (the runtime reports: {})",
                stack_kb,
                how,
                stderr_tail.lines().rev().find(|l| l.contains("overflowed")).unwrap_or("no message")
            ),
            case.clone(),
        );
    } else {
        rep.inconclusive(format!("case ended abnormally ({}): {}", how, case));
    }
}

pub fn c29(args: &Args, rep: &mut Report) {
    let mut cases: Vec<Value> = Vec::new();
    if let Some(case) = load_replay(args) {
        cases.push(case);
    } else {
        if args.shard == 0 {
            cases.extend(c29_systematic());
        }
        let mut rng = Rng::new(args.seed ^ 0xC29 ^ ((args.shard as u64) << 32));
        for _ in 0..args.budget(1_200, 24_000) {
            cases.push(c29_random(&mut rng));
        }
    }
    for (i, c) in cases.iter_mut().enumerate() {
        c["i"] = json!(i);
    }
    let stack_kb = 256;
    for c in cases.iter_mut() {
        let (cyclic, _) = c29_shape(c);
        c["risky"] = json!(cyclic);
    }
    let crash_budget: u64 = if args.thorough() { 24 } else { 12 };
    let mut counters = [0u64; 6];
    let mut overflows = 0u64;
    let mut skipped = 0u64;
    let mut rebuilds = 0u64;
    let mut forked = 0u64;
    let mut children = 0u64;
    let mut answered: HashSet<usize> = HashSet::new();
    let mut start = 0usize;
    let mut fork_all = false;
    while start < cases.len() {
        let mut input = String::new();
        for c in &cases[start..] {
            input.push_str(&c.to_string());
            input.push('\n');
        }
        rep.begin_case(&json!({"class": "c29-batch", "first": start, "cases": cases.len()}));
        let sub = vec![
            "aspace-del".to_string(),
            stack_kb.to_string(),
            if fork_all { "fork".into() } else { "adaptive".into() },
            crash_budget.to_string(),
        ];
        let res = run_child(&sub, input.as_bytes(), 1_500_000, 0);
        children += 1;
        let mut in_flight: Option<usize> = None;
        let mut last_seen = start;
        for line in res.stdout.lines() {
            let (tag, rest) = line.split_at(line.len().min(2));
            match tag {
                "B " => {
                    in_flight = rest.trim().parse().ok();
                    if let Some(i) = in_flight {
                        last_seen = last_seen.max(i + 1);
                    }
                }
                "S " => {
                    if let Ok(i) = rest.trim().parse::<usize>() {
                        if i < cases.len() && answered.insert(i) {
                            skipped += 1;
                            last_seen = last_seen.max(i + 1);
                        }
                    }
                }
                "N " => rebuilds += 1,
                "F " => rep.inconclusive(format!("fork failed for case {}", rest)),
                "R " => {
                    if let Ok(r) = serde_json::from_str::<Value>(rest) {
                        let i = r["i"].as_u64().unwrap_or(u64::MAX) as usize;
                        if i < cases.len() && answered.insert(i) {
                            let case = cases[i].clone();
                            rep.case(case["class"].as_str().unwrap_or("?"));
                            rep.sample(case.clone());
                            if r["forked"].as_bool() == Some(true) {
                                forked += 1;
                            }
                            c29_judge(rep, &case, &r, &mut counters);
                        }
                        if in_flight == Some(i) {
                            in_flight = None;
                        }
                    }
                }
                "X " => {
                    let mut parts = rest.split_whitespace();
                    let i: usize = parts.next().and_then(|s| s.parse().ok()).unwrap_or(usize::MAX);
                    let how = parts.next().unwrap_or("?").to_string();
                    if in_flight == Some(i) {
                        in_flight = None;
                    }
                    if i < cases.len() && answered.insert(i) {
                        forked += 1;
                        c29_crashed(rep, &cases[i], &how, stack_kb, &res.stderr_tail, &mut overflows);
                    }
                }
                _ => {}
            }
        }
        if res.timed_out {
            rep.inconclusive("deletion runner exceeded its watchdog");
            break;
        }
        if res.exit_code == Some(0) {
            break;
        }
        // the runner itself died: the case in flight did it
        match in_flight {
            Some(i) if i < cases.len() => {
                if answered.insert(i) {
                    let how = res.signal.map(|s| s.to_string()).unwrap_or_else(|| format!("exit{:?}", res.exit_code));
                    c29_crashed(rep, &cases[i], &how, stack_kb, &res.stderr_tail, &mut overflows);
                }
                start = i + 1;
                fork_all = true;
            }
            _ => {
                rep.inconclusive(format!(
                    "deletion runner ended with exit {:?} signal {:?} and no case in flight: {}",
                    res.exit_code,
                    res.signal,
                    res.stderr_tail.lines().last().unwrap_or("")
                ));
                break;
            }
        }
    }
    if answered.len() != cases.len() && rep.inconclusive.is_empty() {
        rep.inconclusive(format!("{} of {} cases were not answered", cases.len() - answered.len(), cases.len()));
    }
    sweep_scratch("c29");
    rep.count("cases_run_in_a_forked_process", forked);
    rep.count("cyclic_cases_skipped_after_crash_budget", skipped);
    rep.count("address_space_rebuilds", rebuilds);
    rep.count("child_processes", children);
    rep.count("deletions_returned", counters[0]);
    rep.count("deletions_killed_by_stack_overflow", overflows);
    rep.count("nodes_expected_removed_total", counters[1]);
    rep.count("references_in_pre_state_total", counters[2]);
    rep.count("returned_deletions_with_reachable_aggregation_cycle", counters[3]);
    rep.count("deletions_without_target_references_flag", counters[4]);
}
