// ------------------------------------------------------------------------------------------------
// C31: browse path translation finds exactly the matching nodes
// ------------------------------------------------------------------------------------------------
//
// A world is a real Server address space (standard node set) plus a generated sub-graph with
// ambiguous browse names, custom reference types and references into the standard nodes. Paths
// are produced by random walks over the real references (so multi-element hits are common) with
// perturbed types, flags and names. The reference answer is a level-by-level breadth-first search
// over unfiltered find_references / find_inverse_references with the harness's own subtype closure.

struct W31 {
    server: Server,
    space: Arc<RwLock<AddressSpace>>,
    nodes: Vec<NodeId>,
    type_pool: Vec<NodeId>,
    edge_types: Vec<NodeId>,
    starts: Vec<NodeId>,
    closures: HashMap<NodeId, HashSet<NodeId>>,
}

const C31_NAMES: [(u16, &str); 10] = [
    (0, "a"),
    (0, "b"),
    (0, "c"),
    (1, "a"),
    (1, "b"),
    (2, "a"),
    (0, "x y"),
    (0, "\u{e4}"),
    (0, "a.b"),
    (0, "Objects"),
];

fn c31_custom_types() -> [NodeId; 3] {
    [NodeId::new(1, "RefA"), NodeId::new(1, "RefB"), NodeId::new(1, "RefNH")]
}

fn c31_build(rng: &mut Rng) -> W31 {
    let server = new_server("c31", false);
    let space = server.address_space();
    let [ra, rb, rnh] = c31_custom_types();
    let m = 6 + rng.usize(11);
    let nodes: Vec<NodeId> = (0..m).map(|j| NodeId::new(1, 7000 + j as u32)).collect();
    let std_nodes: Vec<NodeId> = vec![
        ObjectId::ObjectsFolder.into(),
        ObjectId::Server.into(),
        ObjectId::TypesFolder.into(),
        ObjectId::RootFolder.into(),
    ];
    let edge_types: Vec<NodeId> = vec![
        rt(ReferenceTypeId::Organizes),
        rt(ReferenceTypeId::HasComponent),
        rt(ReferenceTypeId::HasProperty),
        rt(ReferenceTypeId::HasOrderedComponent),
        rt(ReferenceTypeId::HasEventSource),
        rt(ReferenceTypeId::HasNotifier),
        rt(ReferenceTypeId::HasTypeDefinition),
        rt(ReferenceTypeId::HasChild),
        ra.clone(),
        rb.clone(),
        rnh.clone(),
    ];
    let mut type_pool = edge_types.clone();
    type_pool.extend(vec![
        NodeId::null(),
        rt(ReferenceTypeId::References),
        rt(ReferenceTypeId::HierarchicalReferences),
        rt(ReferenceTypeId::NonHierarchicalReferences),
        rt(ReferenceTypeId::Aggregates),
        rt(ReferenceTypeId::HasSubtype),
        NodeId::new(1, "NoSuchType"),
        ObjectId::ObjectsFolder.into(), // a node that is not a reference type
        NodeId::new(0, 9_999_999u32),
    ]);
    {
        let mut sp = space.write();
        let none: Option<&[(&NodeId, &NodeId, ReferenceDirection)]> = None;
        for (id, name, parent) in [
            (&ra, "RefA", rt(ReferenceTypeId::HasComponent)),
            (&rb, "RefB", ra.clone()),
            (&rnh, "RefNH", rt(ReferenceTypeId::NonHierarchicalReferences)),
        ] {
            sp.insert(ReferenceType::new(id, name, name, None, false, false), none);
            sp.insert_reference(&parent, id, ReferenceTypeId::HasSubtype);
        }
        for (j, id) in nodes.iter().enumerate() {
            let (ns, name) = *rng.pick(&C31_NAMES);
            let bn = QualifiedName::new(ns, name);
            if j % 3 == 1 {
                sp.insert(Variable::new(id, bn, name, j as i32), none);
            } else {
                sp.insert(Object::new(id, bn, name, EventNotifier::empty()), none);
            }
        }
        let ne = m + rng.usize(2 * m);
        for _ in 0..ne {
            let s = if rng.chance(1, 6) { rng.pick(&std_nodes).clone() } else { rng.pick(&nodes).clone() };
            let d = match rng.below(12) {
                0 => rng.pick(&std_nodes).clone(),
                1 => NodeId::new(1, 7900u32), // not a node
                _ => rng.pick(&nodes).clone(),
            };
            if s == d {
                continue;
            }
            let t = rng.pick(&edge_types).clone();
            sp.insert_reference(&s, &d, t);
        }
        // make sure the sub-graph hangs off the Objects folder
        sp.insert_reference(&std_nodes[0], &nodes[0], ReferenceTypeId::Organizes);
    }
    let mut starts = nodes.clone();
    starts.extend(std_nodes);
    starts.push(ObjectTypeId::BaseObjectType.into());
    starts.push(VariableId::Server_ServerStatus.into());
    starts.push(rt(ReferenceTypeId::HasComponent));
    W31 { server, space, nodes, type_pool, edge_types, starts, closures: HashMap::new() }
}

fn c31_browse_name(space: &AddressSpace, n: &NodeId) -> Option<QualifiedName> {
    space.find_node(n).map(|node| node.as_node().browse_name())
}

#[derive(Clone)]
struct El31 {
    ty: NodeId,
    inverse: bool,
    subtypes: bool,
    name: QualifiedName,
}

fn c31_random_name(rng: &mut Rng) -> QualifiedName {
    match rng.below(10) {
        0 => QualifiedName::null(),
        1 => QualifiedName::new(0, "nosuch"),
        2 => QualifiedName::new(0, "Server"),
        _ => {
            let (ns, name) = *rng.pick(&C31_NAMES);
            QualifiedName::new(ns, name)
        }
    }
}

fn c31_gen_path(rng: &mut Rng, w: &W31, space: &AddressSpace) -> (NodeId, Option<Vec<El31>>) {
    let start = match rng.below(20) {
        0 => NodeId::new(1, 7901u32), // not a node
        1 => NodeId::null(),
        _ => rng.pick(&w.starts).clone(),
    };
    if rng.chance(1, 60) {
        return (start, if rng.bool() { None } else { Some(vec![]) });
    }
    let max_len = if rng.chance(1, 4) { 5 } else { 3 };
    let len = 1 + rng.usize(max_len);
    let has_subtype = rt(ReferenceTypeId::HasSubtype);
    let mut cur = start.clone();
    let mut els = Vec::new();
    for _ in 0..len {
        let mut cands: Vec<(Reference, bool)> = fwd_refs(space, &cur).into_iter().map(|r| (r, false)).collect();
        // the inverse listing comes out of a randomly seeded hash set: fix the order
        let mut inv: Vec<Reference> = inv_refs(space, &cur);
        inv.sort_by_cached_key(stable_hash);
        cands.extend(inv.into_iter().map(|r| (r, true)));
        if cands.is_empty() || rng.chance(1, 7) {
            els.push(El31 {
                ty: rng.pick(&w.type_pool).clone(),
                inverse: rng.chance(1, 4),
                subtypes: rng.bool(),
                name: c31_random_name(rng),
            });
            continue;
        }
        let (r, inv) = rng.pick(&cands).clone();
        let mut name = c31_browse_name(space, &r.target_node).unwrap_or_else(|| c31_random_name(rng));
        match rng.below(20) {
            0 => name.namespace_index = name.namespace_index.wrapping_add(1),
            1 => name = c31_random_name(rng),
            _ => {}
        }
        let (ty, subtypes) = match rng.below(10) {
            0..=2 => (r.reference_type.clone(), rng.bool()),
            3..=6 => {
                // a supertype, found by walking HasSubtype upwards a few steps
                let mut t = r.reference_type.clone();
                for _ in 0..1 + rng.below(4) {
                    let mut up: Vec<NodeId> = inv_refs(space, &t)
                        .into_iter()
                        .filter(|x| x.reference_type == has_subtype)
                        .map(|x| x.target_node)
                        .collect();
                    up.sort_by_cached_key(stable_hash);
                    if up.is_empty() {
                        break;
                    }
                    t = rng.pick(&up).clone();
                }
                (t, !rng.chance(1, 5))
            }
            7 => (NodeId::null(), rng.bool()),
            _ => (rng.pick(&w.type_pool).clone(), rng.bool()),
        };
        let inverse = if rng.chance(1, 12) { !inv } else { inv };
        els.push(El31 { ty, inverse, subtypes, name });
        cur = r.target_node;
    }
    (start, Some(els))
}

fn c31_type_class(space: &AddressSpace, ty: &NodeId) -> (&'static str, &'static str) {
    if ty.is_null() {
        ("null", "null")
    } else if ty.as_reference_type_id().is_ok() {
        ("builtin", "builtin")
    } else {
        match space.find_node(ty) {
            Some(NodeType::ReferenceType(_)) => ("not-builtin", "custom reference type that exists"),
            Some(_) => ("not-builtin", "id of a node that is not a reference type"),
            None => ("not-builtin", "id that is not a node"),
        }
    }
}

/// Level sets of the reference search: out[j] = nodes reached after j+1 elements
fn c31_oracle(w: &mut W31, space: &AddressSpace, start: &NodeId, els: &[El31]) -> Vec<HashSet<NodeId>> {
    let mut cur: HashSet<NodeId> = HashSet::new();
    cur.insert(start.clone());
    let mut out = Vec::new();
    for e in els {
        // a null reference type means "any reference" (Part 4, RelativePathElement)
        let allowed: Option<HashSet<NodeId>> = if e.ty.is_null() {
            None
        } else if e.subtypes {
            Some(
                w.closures
                    .entry(e.ty.clone())
                    .or_insert_with(|| subtype_closure(space, &e.ty))
                    .clone(),
            )
        } else {
            Some([e.ty.clone()].into_iter().collect())
        };
        let mut next = HashSet::new();
        for n in &cur {
            let refs = if e.inverse { inv_refs(space, n) } else { fwd_refs(space, n) };
            for r in refs {
                if let Some(a) = &allowed {
                    if !a.contains(&r.reference_type) {
                        continue;
                    }
                }
                if c31_browse_name(space, &r.target_node).as_ref() == Some(&e.name) {
                    next.insert(r.target_node);
                }
            }
        }
        out.push(next.clone());
        cur = next;
    }
    out
}

fn c31_browse_path(start: &NodeId, els: &Option<Vec<El31>>) -> BrowsePath {
    BrowsePath {
        starting_node: start.clone(),
        relative_path: RelativePath {
            elements: els.as_ref().map(|v| {
                v.iter()
                    .map(|e| RelativePathElement {
                        reference_type_id: e.ty.clone(),
                        is_inverse: e.inverse,
                        include_subtypes: e.subtypes,
                        target_name: e.name.clone(),
                    })
                    .collect()
            }),
        },
    }
}

fn c31_translate(w: &W31, paths: Vec<BrowsePath>) -> Result<Vec<BrowsePathResult>, String> {
    let request = TranslateBrowsePathsToNodeIdsRequest {
        request_header: RequestHeader::dummy(),
        browse_paths: Some(paths),
    };
    match hooks::translate_browse_paths_to_node_ids(w.server.server_state(), w.space.clone(), &request) {
        SupportedMessage::TranslateBrowsePathsToNodeIdsResponse(r) => Ok(r.results.unwrap_or_default()),
        SupportedMessage::ServiceFault(f) => Err(f.response_header.service_result.name().to_string()),
        _ => Err("unexpected response".into()),
    }
}

fn c31_result_set(r: &BrowsePathResult) -> (HashSet<NodeId>, usize) {
    let mut s = HashSet::new();
    let mut dups = 0;
    if r.status_code.is_good() {
        for t in r.targets.clone().unwrap_or_default() {
            if !s.insert(t.target_id.node_id) {
                dups += 1;
            }
        }
    }
    (s, dups)
}

fn c31_path_json(start: &NodeId, els: &Option<Vec<El31>>) -> Value {
    json!({"start": start.to_string(),
           "elements": els.as_ref().map(|v| v.iter().map(|e| json!({
               "type": e.ty.to_string(), "inverse": e.inverse, "subtypes": e.subtypes,
               "name": format!("{}:{}", e.name.namespace_index, e.name.name)})).collect::<Vec<_>>())})
}

/// One world: build, then `n` paths in requests of 1..4, with small edits of the graph now and
/// then. With `only` set nothing but that path index is judged (replay).
fn c31_world(rep: &mut Report, world_seed: u64, n: usize, only: Option<usize>, obs: &mut [u64; 8]) {
    let mut rng = Rng::new(world_seed);
    let mut w = c31_build(&mut rng);
    let space_arc = w.space.clone();
    let mut idx = 0usize;
    while idx < n {
        // an edit of the generated sub-graph between batches
        if idx > 0 && rng.chance(1, 12) {
            let mut sp = space_arc.write();
            let s = rng.pick(&w.nodes).clone();
            let d = rng.pick(&w.nodes).clone();
            if s != d {
                let t = rng.pick(&w.edge_types).clone();
                if rng.bool() {
                    sp.insert_reference(&s, &d, t);
                } else {
                    sp.delete_reference(&s, &d, t);
                }
            }
        }
        let batch = 1 + rng.usize(4).min(n - idx - 1);
        let mut gen: Vec<(NodeId, Option<Vec<El31>>)> = Vec::new();
        {
            let sp = space_arc.read();
            for _ in 0..batch {
                gen.push(c31_gen_path(&mut rng, &w, &sp));
            }
        }
        let first = idx;
        idx += batch;
        if let Some(o) = only {
            if o < first || o >= first + batch {
                continue;
            }
        }
        let case = json!({"world_seed": world_seed.to_string(), "paths": n, "index": first,
                          "class": "translate-batch",
                          "batch": gen.iter().map(|(s, e)| c31_path_json(s, e)).collect::<Vec<_>>()});
        rep.begin_case(&case);
        let paths: Vec<BrowsePath> = gen.iter().map(|(s, e)| c31_browse_path(s, e)).collect();
        let got = catch(|| c31_translate(&w, paths));
        let results = match got {
            Err(p) => {
                rep.case("panic");
                rep.violation(
                    format!("translate|{}", p.signature()),
                    format!("TranslateBrowsePathsToNodeIds panicked: {} at {}:{}", p.msg, p.file, p.line),
                    case,
                );
                continue;
            }
            Ok(Err(fault)) => {
                rep.inconclusive(format!("translate answered a service fault {} for {}", fault, case));
                continue;
            }
            Ok(Ok(r)) => r,
        };
        obs[0] += 1;
        if results.len() != gen.len() {
            rep.case("result-count");
            rep.violation(
                "translate|result-count-differs-from-request",
                format!("{} browse paths, {} results", gen.len(), results.len()),
                case,
            );
            continue;
        }
        for (k, ((start, els), res)) in gen.iter().zip(results.iter()).enumerate() {
            if let Some(o) = only {
                if o != first + k {
                    continue;
                }
            }
            let sp = space_arc.read();
            let mut one = json!({"world_seed": world_seed.to_string(), "paths": n, "index": first + k,
                                 "path": c31_path_json(start, els)});
            let start_kind = if !sp.node_exists(start) {
                "missing"
            } else if w.nodes.contains(start) {
                "generated"
            } else {
                "standard"
            };
            let degenerate = match els {
                None => Some("no-elements"),
                Some(v) if v.is_empty() => Some("empty-elements"),
                Some(v) if v.iter().any(|e| e.name.is_null()) => Some("null-target-name"),
                _ if start_kind == "missing" => Some("start-not-a-node"),
                _ => None,
            };
            if let Some(d) = degenerate {
                // outside what the property speaks about: only "answers without panic" is observed
                obs[1] += 1;
                rep.case(&format!("degenerate {} {}", d, if res.status_code.is_good() { "good" } else { "bad" }));
                continue;
            }
            let els = els.as_ref().unwrap();
            let levels = c31_oracle(&mut w, &sp, start, els);
            let expect = levels.last().cloned().unwrap_or_default();
            let (got_set, dups) = c31_result_set(res);
            obs[2] += 1;
            obs[3] += dups as u64;
            obs[4] += expect.len() as u64;
            if !expect.is_empty() {
                obs[5] += 1;
                if els.len() > 1 {
                    obs[6] += 1;
                }
            }
            let mut tclasses: Vec<&str> = els.iter().map(|e| c31_type_class(&sp, &e.ty).0).collect();
            tclasses.sort();
            tclasses.dedup();
            let class = format!(
                "start-{} len{} types[{}] inv{} sub{} hits{}",
                start_kind,
                els.len(),
                tclasses.join(","),
                els.iter().any(|e| e.inverse) as u8,
                els.iter().any(|e| e.subtypes) as u8,
                match expect.len() {
                    0 => "0",
                    1 => "1",
                    _ => "many",
                }
            );
            one["class"] = json!(class);
            rep.case(&class);
            rep.sample(one.clone());
            if got_set == expect {
                continue;
            }
            // find the element at which the real answer leaves the reference answer
            let mut culprit = els.len() - 1;
            drop(sp);
            for j in 0..els.len() {
                let prefix = Some(els[..=j].to_vec());
                if let Ok(Ok(r)) = catch(|| c31_translate(&w, vec![c31_browse_path(start, &prefix)])) {
                    if let Some(r0) = r.first() {
                        if c31_result_set(r0).0 != levels[j] {
                            culprit = j;
                            break;
                        }
                    }
                }
            }
            let sp = space_arc.read();
            let e = &els[culprit];
            let (tclass, tdetail) = c31_type_class(&sp, &e.ty);
            let missing: Vec<String> = expect.difference(&got_set).map(|n| n.to_string()).collect();
            let extra: Vec<String> = got_set.difference(&expect).map(|n| n.to_string()).collect();
            let kind = match (missing.is_empty(), extra.is_empty()) {
                (false, true) => "missing",
                (true, false) => "extra",
                _ => "missing+extra",
            };
            rep.violation(
                // the flags only discriminate for types the built-in hierarchy knows
                if tclass == "not-builtin" {
                    format!("translate|{}|reftype={}", kind, tclass)
                } else {
                    format!(
                        "translate|{}|reftype={}|subtypes={}|inverse={}",
                        kind, tclass, e.subtypes as u8, e.inverse as u8
                    )
                },
                format!(
                    "status {} targets {:?}; reference search finds {:?}; missing {:?} extra {:?}; first differing element #{} of {}: type {} ({}), subtypes {}, inverse {}, name {}:{}",
                    res.status_code.name(),
                    got_set.iter().map(|n| n.to_string()).collect::<Vec<_>>(),
                    expect.iter().map(|n| n.to_string()).collect::<Vec<_>>(),
                    missing,
                    extra,
                    culprit,
                    els.len(),
                    e.ty,
                    tdetail,
                    e.subtypes,
                    e.inverse,
                    e.name.namespace_index,
                    e.name.name
                ),
                one,
            );
        }
        // the closure cache is only valid while no HasSubtype edge changes; none ever does after build
    }
    cleanup_scratch("c31");
}

pub fn c31(args: &Args, rep: &mut Report) {
    let mut obs = [0u64; 8];
    if let Some(case) = load_replay(args) {
        let seed: u64 = case["world_seed"].as_str().and_then(|s| s.parse().ok()).unwrap_or(1);
        let n = case["paths"].as_u64().unwrap_or(1) as usize;
        let index = case["index"].as_u64().unwrap_or(0) as usize;
        c31_world(rep, seed, n, Some(index), &mut obs);
        return;
    }
    let mut rng = Rng::new(args.seed ^ 0xC31 ^ ((args.shard as u64) << 32));
    let worlds = args.budget(24, 320);
    let per_world = if args.thorough() { 1500 } else { 700 };
    for _ in 0..worlds {
        let world_seed = rng.next_u64();
        c31_world(rep, world_seed, per_world, None, &mut obs);
    }
    rep.count("worlds", worlds);
    rep.count("translate_requests", obs[0]);
    rep.count("degenerate_paths_observed_for_panics_only", obs[1]);
    rep.count("paths_compared_with_reference_search", obs[2]);
    rep.count("duplicate_targets_in_answers", obs[3]);
    rep.count("reference_search_targets_total", obs[4]);
    rep.count("paths_with_non_empty_expected_set", obs[5]);
    rep.count("multi_element_paths_with_non_empty_expected_set", obs[6]);
}
