// ------------------------------------------------------------------------------------------------
// C34: node management results describe what actually happened
// ------------------------------------------------------------------------------------------------
//
// Histories of AddNodes / AddReferences / DeleteNodes / DeleteReferences requests run through the
// real services (cfg hooks) against a real server. Before and after every request the whole
// address space the harness can name (standard node set closure + every id the history uses + a
// window of ids ahead of the global numeric-id counter) is snapshotted through the public read
// API. Operations are JSON values, so a recorded history replays as it is.

// ---- ids ---------------------------------------------------------------------------------------

/// "null" | "n:<ns>:<u32>" | "s:<ns>:<text>" | "rel:<d>" (ns=1;i=<counter at history start>+d)
fn id34(v: &Value, c0: u32) -> NodeId {
    let s = v.as_str().unwrap_or("null");
    let mut parts = s.splitn(3, ':');
    match parts.next() {
        Some("n") => {
            let ns: u16 = parts.next().and_then(|x| x.parse().ok()).unwrap_or(0);
            let i: u32 = parts.next().and_then(|x| x.parse().ok()).unwrap_or(0);
            NodeId::new(ns, i)
        }
        Some("s") => {
            let ns: u16 = parts.next().and_then(|x| x.parse().ok()).unwrap_or(0);
            NodeId::new(ns, parts.next().unwrap_or("").to_string())
        }
        Some("rel") => {
            let d: i64 = parts.next().and_then(|x| x.parse().ok()).unwrap_or(0);
            NodeId::new(1, (c0 as i64 + d).max(0) as u32)
        }
        _ => NodeId::null(),
    }
}

fn xid34(v: &Value, si: &Value, c0: u32) -> ExpandedNodeId {
    let mut e = ExpandedNodeId::new(id34(v, c0));
    e.server_index = si.as_u64().unwrap_or(0) as u32;
    e
}

fn class34(v: &Value) -> NodeClass {
    match v.as_i64().unwrap_or(0) {
        1 => NodeClass::Object,
        2 => NodeClass::Variable,
        4 => NodeClass::Method,
        8 => NodeClass::ObjectType,
        16 => NodeClass::VariableType,
        32 => NodeClass::ReferenceType,
        64 => NodeClass::DataType,
        128 => NodeClass::View,
        _ => NodeClass::Unspecified,
    }
}

fn attrs34(kind: &str) -> ExtensionObject {
    let dn = LocalizedText::new("", "x");
    let desc = LocalizedText::null();
    match kind {
        "object" => ExtensionObject::from_encodable(
            ObjectId::ObjectAttributes_Encoding_DefaultBinary,
            &ObjectAttributes {
                specified_attributes: (AttributesMask::DISPLAY_NAME | AttributesMask::EVENT_NOTIFIER).bits(),
                display_name: dn,
                description: desc,
                write_mask: 0,
                user_write_mask: 0,
                event_notifier: 0,
            },
        ),
        "variable" => ExtensionObject::from_encodable(
            ObjectId::VariableAttributes_Encoding_DefaultBinary,
            &VariableAttributes {
                specified_attributes: (AttributesMask::DISPLAY_NAME
                    | AttributesMask::ACCESS_LEVEL
                    | AttributesMask::USER_ACCESS_LEVEL
                    | AttributesMask::DATA_TYPE
                    | AttributesMask::HISTORIZING
                    | AttributesMask::VALUE
                    | AttributesMask::VALUE_RANK)
                    .bits(),
                display_name: dn,
                description: desc,
                write_mask: 0,
                user_write_mask: 0,
                value: Variant::from(true),
                data_type: DataTypeId::Boolean.into(),
                value_rank: -1,
                array_dimensions: None,
                access_level: 1,
                user_access_level: 1,
                minimum_sampling_interval: 0.0,
                historizing: false,
            },
        ),
        "method" => ExtensionObject::from_encodable(
            ObjectId::MethodAttributes_Encoding_DefaultBinary,
            &MethodAttributes {
                specified_attributes: (AttributesMask::DISPLAY_NAME | AttributesMask::EXECUTABLE | AttributesMask::USER_EXECUTABLE).bits(),
                display_name: dn,
                description: desc,
                write_mask: 0,
                user_write_mask: 0,
                executable: true,
                user_executable: true,
            },
        ),
        "objecttype" => ExtensionObject::from_encodable(
            ObjectId::ObjectTypeAttributes_Encoding_DefaultBinary,
            &ObjectTypeAttributes {
                specified_attributes: (AttributesMask::DISPLAY_NAME | AttributesMask::IS_ABSTRACT).bits(),
                display_name: dn,
                description: desc,
                write_mask: 0,
                user_write_mask: 0,
                is_abstract: false,
            },
        ),
        "vartype" => ExtensionObject::from_encodable(
            ObjectId::VariableTypeAttributes_Encoding_DefaultBinary,
            &VariableTypeAttributes {
                specified_attributes: (AttributesMask::DISPLAY_NAME
                    | AttributesMask::IS_ABSTRACT
                    | AttributesMask::DATA_TYPE
                    | AttributesMask::VALUE_RANK)
                    .bits(),
                display_name: dn,
                description: desc,
                write_mask: 0,
                user_write_mask: 0,
                value: Variant::Empty,
                data_type: DataTypeId::Boolean.into(),
                value_rank: -1,
                array_dimensions: None,
                is_abstract: false,
            },
        ),
        "reftype" => ExtensionObject::from_encodable(
            ObjectId::ReferenceTypeAttributes_Encoding_DefaultBinary,
            &ReferenceTypeAttributes {
                specified_attributes: (AttributesMask::DISPLAY_NAME | AttributesMask::IS_ABSTRACT | AttributesMask::SYMMETRIC).bits(),
                display_name: dn,
                description: desc,
                write_mask: 0,
                user_write_mask: 0,
                is_abstract: false,
                symmetric: false,
                inverse_name: LocalizedText::null(),
            },
        ),
        "datatype" => ExtensionObject::from_encodable(
            ObjectId::DataTypeAttributes_Encoding_DefaultBinary,
            &DataTypeAttributes {
                specified_attributes: (AttributesMask::DISPLAY_NAME | AttributesMask::IS_ABSTRACT).bits(),
                display_name: dn,
                description: desc,
                write_mask: 0,
                user_write_mask: 0,
                is_abstract: false,
            },
        ),
        "view" => ExtensionObject::from_encodable(
            ObjectId::ViewAttributes_Encoding_DefaultBinary,
            &ViewAttributes {
                specified_attributes: (AttributesMask::DISPLAY_NAME | AttributesMask::EVENT_NOTIFIER | AttributesMask::CONTAINS_NO_LOOPS).bits(),
                display_name: dn,
                description: desc,
                write_mask: 0,
                user_write_mask: 0,
                contains_no_loops: true,
                event_notifier: 0,
            },
        ),
        "nomask" => ExtensionObject::from_encodable(
            ObjectId::ObjectAttributes_Encoding_DefaultBinary,
            &ObjectAttributes {
                specified_attributes: 0,
                display_name: dn,
                description: desc,
                write_mask: 0,
                user_write_mask: 0,
                event_notifier: 0,
            },
        ),
        "garbage" => ExtensionObject {
            node_id: ObjectId::ObjectAttributes_Encoding_DefaultBinary.into(),
            body: ExtensionObjectEncoding::ByteString(ByteString::from(vec![1u8, 2, 3])),
        },
        "wrongid" => ExtensionObject::from_encodable(
            ObjectId::ReadRequest_Encoding_DefaultBinary,
            &ObjectTypeAttributes {
                specified_attributes: 0,
                display_name: dn,
                description: desc,
                write_mask: 0,
                user_write_mask: 0,
                is_abstract: false,
            },
        ),
        _ => ExtensionObject::null(),
    }
}

// ---- snapshots ----------------------------------------------------------------------------------

#[derive(Clone, PartialEq)]
struct Snap34 {
    exists: bool,
    class: i32,
    name: QualifiedName,
    refs: Vec<Reference>,
}

struct W34 {
    server: Server,
    space: Arc<RwLock<AddressSpace>>,
    sess_rw: Arc<RwLock<Session>>,
    sess_ro: Arc<RwLock<Session>>,
    universe: Vec<NodeId>,
    known: HashSet<NodeId>,
    standard_len: usize,
    pristine: Vec<Snap34>,
}

fn snap_one(space: &AddressSpace, n: &NodeId) -> Snap34 {
    let (exists, class, name) = match space.find_node(n) {
        Some(node) => (true, node.node_class() as i32, node.as_node().browse_name()),
        None => (false, 0, QualifiedName::null()),
    };
    Snap34 { exists, class, name, refs: fwd_refs(space, n) }
}

fn snapshot34(w: &W34) -> Vec<Snap34> {
    let space = w.space.read();
    w.universe.iter().map(|n| snap_one(&space, n)).collect()
}

fn refs_equal(a: &[Reference], b: &[Reference]) -> bool {
    if a == b {
        return true;
    }
    if a.len() != b.len() {
        return false;
    }
    let sa: HashSet<&Reference> = a.iter().collect();
    b.iter().all(|r| sa.contains(r)) && sa.len() == b.iter().collect::<HashSet<_>>().len()
}

/// First difference between two snapshots as (kind, human text); None = identical
fn diff34(w: &W34, before: &[Snap34], after: &[Snap34]) -> Option<(&'static str, String)> {
    let absent = Snap34 { exists: false, class: 0, name: QualifiedName::null(), refs: vec![] };
    for (i, n) in w.universe.iter().enumerate() {
        let b = before.get(i).unwrap_or(&absent);
        let a = after.get(i).unwrap_or(&absent);
        if b.exists != a.exists {
            return Some(if a.exists {
                ("node-added", format!("node {} exists now and did not before", n))
            } else {
                ("node-removed", format!("node {} existed before and is gone", n))
            });
        }
        if b.class != a.class || b.name != a.name {
            return Some(("node-replaced", format!("node {} changed class or browse name", n)));
        }
        if !refs_equal(&b.refs, &a.refs) {
            let bs: HashSet<&Reference> = b.refs.iter().collect();
            let as_: HashSet<&Reference> = a.refs.iter().collect();
            if let Some(r) = as_.difference(&bs).next() {
                return Some((
                    "reference-added",
                    format!("reference {} -> {} ({}) exists now and did not before", n, r.target_node, r.reference_type),
                ));
            }
            if let Some(r) = bs.difference(&as_).next() {
                return Some((
                    "reference-removed",
                    format!("reference {} -> {} ({}) existed before and is gone", n, r.target_node, r.reference_type),
                ));
            }
            return Some(("reference-duplicated", format!("references of {} changed multiplicity", n)));
        }
    }
    None
}

fn w34_add_known(w: &mut W34, n: NodeId) {
    if !n.is_null() && w.known.insert(n.clone()) {
        w.universe.push(n);
    }
}

fn w34_new() -> W34 {
    let server = new_server("c34", true);
    let space = server.address_space();
    let sess_rw = Arc::new(RwLock::new(Session::new(server.server_state())));
    let sess_ro = Arc::new(RwLock::new(Session::new(server.server_state())));
    hooks::session_set_can_modify_address_space(&mut sess_ro.write(), false);
    // every node the standard address space can name: closure from the root over both directions
    let mut universe: Vec<NodeId> = Vec::new();
    let mut known: HashSet<NodeId> = HashSet::new();
    {
        let sp = space.read();
        let mut queue: VecDeque<NodeId> = VecDeque::new();
        for start in [NodeId::root_folder_id(), ObjectId::Server.into(), rt(ReferenceTypeId::References)] {
            if known.insert(start.clone()) {
                universe.push(start.clone());
                queue.push_back(start);
            }
        }
        while let Some(cur) = queue.pop_front() {
            let mut next: Vec<NodeId> = fwd_refs(&sp, &cur).into_iter().map(|r| r.target_node).collect();
            let mut inv: Vec<NodeId> = inv_refs(&sp, &cur).into_iter().map(|r| r.target_node).collect();
            inv.sort_by_cached_key(stable_hash);
            next.extend(inv);
            for n in next {
                if known.insert(n.clone()) {
                    universe.push(n.clone());
                    queue.push_back(n);
                }
            }
        }
    }
    let standard_len = universe.len();
    let mut w = W34 { server, space, sess_rw, sess_ro, universe, known, standard_len, pristine: vec![] };
    w.pristine = snapshot34(&w);
    w
}

/// Takes everything a history added out again, reference by reference (nothing can recurse), and
/// checks the result against the pristine snapshot. False = the caller must build a new server.
fn w34_restore(w: &mut W34) -> bool {
    let extra: Vec<NodeId> = w.universe[w.standard_len..].to_vec();
    let ok = catch(|| {
        let mut sp = w.space.write();
        for u in &extra {
            for r in fwd_refs(&sp, u) {
                sp.delete_reference(u, &r.target_node, r.reference_type.clone());
            }
            for r in inv_refs(&sp, u) {
                sp.delete_reference(&r.target_node, u, r.reference_type.clone());
            }
        }
        for u in &extra {
            sp.delete(u, true);
        }
    })
    .is_ok();
    if !ok {
        return false;
    }
    let mut now = snapshot34(w);
    if diff34(w, &w.pristine, &now).is_some() {
        // references between standard nodes that the history added or removed: put them right
        let repaired = catch(|| {
            let mut sp = w.space.write();
            for i in 0..w.standard_len {
                let (want, have) = (&w.pristine[i], &now[i]);
                if want.exists != have.exists {
                    return false; // a standard node is gone: only a new server helps
                }
                if refs_equal(&want.refs, &have.refs) {
                    continue;
                }
                let n = &w.universe[i];
                for r in &have.refs {
                    if !want.refs.contains(r) {
                        sp.delete_reference(n, &r.target_node, r.reference_type.clone());
                    }
                }
                // delete_reference may strip more than it was asked to: re-read before re-adding
                let left = fwd_refs(&sp, n);
                for r in &want.refs {
                    if !left.contains(r) {
                        sp.insert_reference(n, &r.target_node, r.reference_type.clone());
                    }
                }
            }
            true
        })
        .unwrap_or(false);
        if !repaired {
            return false;
        }
        // a second pass: repairing one node may have disturbed an opposite-direction reference
        now = snapshot34(w);
        if diff34(w, &w.pristine, &now).is_some() {
            return false;
        }
    }
    w.universe.truncate(w.standard_len);
    w.known = w.universe.iter().cloned().collect();
    true
}

// ---- running one history ------------------------------------------------------------------------

fn add_item34(it: &Value, c0: u32) -> AddNodesItem {
    let bn = &it["bn"];
    let name = match bn[1].as_str() {
        Some(s) => UAString::from(s),
        None => UAString::null(),
    };
    AddNodesItem {
        parent_node_id: xid34(&it["parent"], &it["psi"], c0),
        reference_type_id: id34(&it["rt"], c0),
        requested_new_node_id: xid34(&it["req"], &it["rsi"], c0),
        browse_name: QualifiedName { namespace_index: bn[0].as_u64().unwrap_or(0) as u16, name },
        node_class: class34(&it["cls"]),
        node_attributes: attrs34(it["attr"].as_str().unwrap_or("null")),
        type_definition: ExpandedNodeId::new(id34(&it["td"], c0)),
    }
}

/// Names the input class that explains a panic: chosen from the panic site, then confirmed on the
/// items of the request (the first item of that class is the one that was being processed).
fn panic_class34(svc: &str, items: &[Value], c0: u32, p: &PanicInfo) -> &'static str {
    let any = |f: &dyn Fn(&Value) -> bool| items.iter().any(|it| f(it));
    if p.msg.contains("self reference is not allowed") {
        if svc == "addref" && any(&|it| id34(&it["src"], c0) == id34(&it["tgt"], c0)) {
            return "source-equals-target";
        }
        if svc == "add" {
            return "new-node-id-equals-parent-or-type";
        }
    } else if p.msg.contains("Namespace index") {
        if svc == "add" && any(&|it| id34(&it["req"], c0).namespace >= 2) {
            return "requested-id-in-unregistered-namespace";
        }
    } else if p.file.ends_with("node_management.rs") && p.msg.contains("unwrap()") {
        if any(&|it| it["bn"][0].as_u64().unwrap_or(0) != 0) {
            return "browse-name-in-namespace-other-than-0";
        }
        if any(&|it| {
            let name = it["bn"][1].as_str().unwrap_or("");
            name.chars().any(|c| "<>/.&:#!+".contains(c)) || name.chars().count() > 255
        }) {
            return "browse-name-with-path-syntax-or-too-long";
        }
    }
    "other-input"
}

fn panic_sig34(p: &PanicInfo) -> String {
    if p.msg.contains("self reference is not allowed") {
        // the message carries the node id; keep the part that names the defect
        let mut q = p.clone();
        q.msg = "self reference is not allowed".into();
        return q.signature();
    }
    p.signature()
}

struct Obs34 {
    requests: u64,
    items: u64,
    good_adds: u64,
    assigned_ids: u64,
    bad_items: u64,
    panics: u64,
    skipped_cyclic_deletes: u64,
    rebuilds: u64,
    statuses: BTreeSet<String>,
}

/// Runs a history (array of op values) on a pristine world. Returns per-history shape notes.
fn run_history34(rep: &mut Report, w: &mut W34, ops: &[Value], case: &Value, obs: &mut Obs34) {
    // where the global numeric-id counter stands (this consumes one id)
    let c0 = match NodeId::next_numeric(1).identifier {
        Identifier::Numeric(i) => i,
        _ => 0,
    };
    // everything the history names, and a window ahead of the counter
    let mut named: Vec<NodeId> = Vec::new();
    for op in ops {
        for it in op["items"].as_array().cloned().unwrap_or_default() {
            for k in ["parent", "rt", "req", "td", "src", "tgt", "node"] {
                if it.get(k).is_some() {
                    named.push(id34(&it[k], c0));
                }
            }
        }
    }
    for n in named {
        w34_add_known(w, n);
    }
    let mut window_top = c0;
    let extend_window = |w: &mut W34, from: u32, to: u32| {
        for i in from..=to {
            w34_add_known(w, NodeId::new(1, i));
        }
    };
    extend_window(w, c0, c0 + 32);
    window_top += 32;
    let mut consumed_bound = c0 + 1; // the counter is at most this
    let state = w.server.server_state();
    let mut before = snapshot34(w);
    for (step, op) in ops.iter().enumerate() {
        let svc = op["svc"].as_str().unwrap_or("");
        let items: Option<Vec<Value>> = op["items"].as_array().cloned();
        let session = if op["sess"].as_u64() == Some(1) { w.sess_ro.clone() } else { w.sess_rw.clone() };
        let hdr = RequestHeader::dummy();
        let n_items = items.as_ref().map(|v| v.len()).unwrap_or(0);
        // keep the id window ahead of anything the counter can reach in this request
        consumed_bound += n_items as u32;
        if consumed_bound + 8 > window_top {
            extend_window(w, window_top + 1, consumed_bound + 32);
            window_top = consumed_bound + 32;
            before = snapshot34(w);
        }
        // C29 owns unbounded recursion: a delete that would walk an aggregation cycle is not sent
        if svc == "delnode" {
            let sp = w.space.read();
            let agg = subtype_closure(&sp, &rt(ReferenceTypeId::Aggregates));
            let cyclic = items
                .iter()
                .flatten()
                .any(|it| aggregation_cycle_reachable(&sp, &id34(&it["node"], c0), &agg));
            if cyclic {
                obs.skipped_cyclic_deletes += 1;
                continue;
            }
        }
        let (space, st) = (w.space.clone(), state.clone());
        let outcome: Result<SupportedMessage, PanicInfo> = catch(|| match svc {
            "add" => hooks::add_nodes(
                st,
                session,
                space,
                &AddNodesRequest {
                    request_header: hdr,
                    nodes_to_add: items.as_ref().map(|v| v.iter().map(|it| add_item34(it, c0)).collect()),
                },
            ),
            "addref" => hooks::add_references(
                st,
                session,
                space,
                &AddReferencesRequest {
                    request_header: hdr,
                    references_to_add: items.as_ref().map(|v| {
                        v.iter()
                            .map(|it| AddReferencesItem {
                                source_node_id: id34(&it["src"], c0),
                                reference_type_id: id34(&it["rt"], c0),
                                is_forward: it["fwd"].as_bool().unwrap_or(true),
                                target_server_uri: it["uri"].as_str().map(UAString::from).unwrap_or_else(UAString::null),
                                target_node_id: xid34(&it["tgt"], &it["tsi"], c0),
                                target_node_class: class34(&it["cls"]),
                            })
                            .collect()
                    }),
                },
            ),
            "delnode" => hooks::delete_nodes(
                st,
                session,
                space,
                &DeleteNodesRequest {
                    request_header: hdr,
                    nodes_to_delete: items.as_ref().map(|v| {
                        v.iter()
                            .map(|it| DeleteNodesItem {
                                node_id: id34(&it["node"], c0),
                                delete_target_references: it["dtr"].as_bool().unwrap_or(true),
                            })
                            .collect()
                    }),
                },
            ),
            _ => hooks::delete_references(
                st,
                session,
                space,
                &DeleteReferencesRequest {
                    request_header: hdr,
                    references_to_delete: items.as_ref().map(|v| {
                        v.iter()
                            .map(|it| DeleteReferencesItem {
                                source_node_id: id34(&it["src"], c0),
                                reference_type_id: id34(&it["rt"], c0),
                                is_forward: it["fwd"].as_bool().unwrap_or(true),
                                target_node_id: xid34(&it["tgt"], &it["tsi"], c0),
                                delete_bidirectional: it["bidir"].as_bool().unwrap_or(false),
                            })
                            .collect()
                    }),
                },
            ),
        });
        obs.requests += 1;
        obs.items += n_items as u64;
        let witness = || {
            let mut c = case.clone();
            c["ops"] = json!(ops[..=step].to_vec());
            c["failing_step"] = json!(step);
            c
        };
        let response = match outcome {
            Err(p) => {
                obs.panics += 1;
                let all = items.clone().unwrap_or_default();
                rep.violation(
                    format!("{}|{}|{}", svc, panic_class34(svc, &all, c0, &p), panic_sig34(&p)),
                    format!("request #{} {} panicked instead of answering: {} at {}:{}", step, op, p.msg, p.file, p.line),
                    witness(),
                );
                before = snapshot34(w);
                continue;
            }
            Ok(r) => r,
        };
        // per-item statuses (a service fault covers every item)
        let mut statuses: Vec<StatusCode> = Vec::new();
        let mut added: Vec<NodeId> = Vec::new();
        match response {
            SupportedMessage::AddNodesResponse(r) => {
                for x in r.results.unwrap_or_default() {
                    statuses.push(x.status_code);
                    added.push(x.added_node_id);
                }
            }
            SupportedMessage::AddReferencesResponse(r) => statuses = r.results.unwrap_or_default(),
            SupportedMessage::DeleteNodesResponse(r) => statuses = r.results.unwrap_or_default(),
            SupportedMessage::DeleteReferencesResponse(r) => statuses = r.results.unwrap_or_default(),
            SupportedMessage::ServiceFault(f) => {
                statuses = vec![f.response_header.service_result; n_items.max(1)];
            }
            _ => {
                rep.inconclusive(format!("unexpected response type to {}", op));
                return;
            }
        }
        for s in &statuses {
            obs.statuses.insert(format!("{}:{}", svc, s.name()));
        }
        if std::env::var("VH_TRACE").is_ok() {
            eprintln!(
                "#{} {} -> {:?} {:?}",
                step,
                op,
                statuses.iter().map(|s| s.name()).collect::<Vec<_>>(),
                added.iter().map(|a| a.to_string()).collect::<Vec<_>>()
            );
        }
        if !added.is_empty() {
            for a in &added {
                if !a.is_null() && !w.known.contains(a) {
                    // cannot judge what was there before: the id was outside everything snapshotted
                    rep.inconclusive(format!("AddNodes returned id {} outside the snapshotted id window", a));
                    w34_add_known(w, a.clone());
                }
            }
        }
        let after = snapshot34(w);
        let idx_of = |w: &W34, n: &NodeId| w.universe.iter().position(|x| x == n);
        // 1. a Good AddNodes item: new node, referenced from the parent with the given type
        if svc == "add" {
            let sp = w.space.read();
            let mut created_here: HashSet<NodeId> = HashSet::new();
            for (k, st) in statuses.iter().enumerate() {
                if !st.is_good() || k >= added.len() {
                    continue;
                }
                obs.good_adds += 1;
                let it = &items.as_ref().unwrap()[k];
                let item = add_item34(it, c0);
                let id = &added[k];
                let assigned = item.requested_new_node_id.node_id.is_null();
                if assigned {
                    obs.assigned_ids += 1;
                }
                // before the request, or created by an earlier item of this same request
                let existed_before = idx_of(w, id).and_then(|i| before.get(i)).map(|s| s.exists).unwrap_or(false)
                    || !created_here.insert(id.clone());
                if existed_before {
                    rep.violation(
                        if assigned {
                            "add|good|server-assigned-id-collides-with-existing-node"
                        } else {
                            "add|good|requested-id-already-existed"
                        },
                        format!(
                            "request #{} item {}: AddNodes answered Good with id {}, but a node with that id existed before the request ({}); no new node was created",
                            step,
                            k,
                            id,
                            idx_of(w, id)
                                .and_then(|i| before.get(i))
                                .filter(|b| b.exists)
                                .map(|b| format!("browse name {}:{}", b.name.namespace_index, b.name.name))
                                .unwrap_or_else(|| "created by an earlier item of the same request".into())
                        ),
                        witness(),
                    );
                    continue;
                }
                if !sp.node_exists(id) {
                    rep.violation(
                        "add|good|returned-id-does-not-exist",
                        format!("request #{} item {}: AddNodes answered Good with id {}, which is not a node afterwards", step, k, id),
                        witness(),
                    );
                    continue;
                }
                let parent = &item.parent_node_id.node_id;
                if !sp.has_reference(parent, id, item.reference_type_id.clone()) {
                    let reversed = sp.has_reference(id, parent, item.reference_type_id.clone());
                    rep.violation(
                        format!(
                            "add|good|not-referenced-from-parent|{}",
                            if reversed { "reference-points-from-new-node-to-parent" } else { "no-reference-either-way" }
                        ),
                        format!(
                            "request #{} item {}: AddNodes answered Good for {} under parent {} with reference type {}; has_reference(parent, new, type) is false, has_reference(new, parent, type) is {}",
                            step, k, id, parent, item.reference_type_id, reversed
                        ),
                        witness(),
                    );
                }
            }
        }
        // 2. Bad items change nothing. Exact for single-item requests and for requests in which
        //    every item is Bad; a mixed request is not attributable item by item.
        let bad = statuses.iter().filter(|s| !s.is_good()).count();
        obs.bad_items += bad as u64;
        if bad > 0 && bad == statuses.len() {
            if let Some((kind, text)) = diff34(w, &before, &after) {
                // with several items of different Bad statuses the culprit item is not known
                let mut names: Vec<&str> = statuses.iter().map(|s| s.name()).collect();
                names.sort();
                names.dedup();
                let st = if names.len() == 1 { names[0] } else { "several-different-bad-statuses" };
                rep.violation(
                    format!("{}|bad-status-but-changed|{}|{}", svc, st, kind),
                    format!("request #{} {} answered only Bad statuses ({}), yet {}", step, op, names.join(", "), text),
                    witness(),
                );
            }
        }
        before = after;
    }
}

fn c34_class(ops: &[Value]) -> String {
    let mut svcs: BTreeSet<&str> = BTreeSet::new();
    let (mut assigned, mut rel, mut multi, mut ro, mut reuse) = (0, 0, 0, 0, 0);
    let mut deleted: HashSet<String> = HashSet::new();
    for op in ops {
        svcs.insert(op["svc"].as_str().unwrap_or("?"));
        let items = op["items"].as_array().cloned().unwrap_or_default();
        if items.len() > 1 {
            multi = 1;
        }
        if op["sess"].as_u64() == Some(1) {
            ro = 1;
        }
        for it in items {
            if op["svc"] == "add" {
                let r = it["req"].as_str().unwrap_or("");
                if r == "null" {
                    assigned = 1;
                } else if r.starts_with("rel:") {
                    rel = 1;
                }
                if deleted.contains(r) {
                    reuse = 1;
                }
            }
            if op["svc"] == "delnode" {
                deleted.insert(it["node"].as_str().unwrap_or("").to_string());
            }
        }
    }
    let len = match ops.len() {
        0..=8 => "<=8",
        9..=20 => "<=20",
        _ => ">20",
    };
    format!(
        "len{} svcs[{}] assigned{} near-counter{} multi{} readonly{} id-reuse{}",
        len,
        svcs.into_iter().collect::<Vec<_>>().join(","),
        assigned,
        rel,
        multi,
        ro,
        reuse
    )
}

include!("c34_gen.rs");
