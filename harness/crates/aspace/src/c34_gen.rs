// ---- C34 history generator and entry point ---------------------------------------------------------

const C34_PARENTS: [&str; 3] = ["n:0:85", "n:0:2253", "n:0:84"]; // Objects, Server, Root

struct Gen34 {
    /// ids the generator believes to be nodes now (a bias for choices, never used by the oracle)
    live: Vec<String>,
    dead: Vec<String>,
    refs: Vec<(String, String, String)>,
    next_rel: i64,
}

fn c34_pool_id(rng: &mut Rng, g: &mut Gen34) -> String {
    match rng.below(10) {
        // just ahead of the global counter: the ids the server will hand out next
        0..=4 => format!("rel:{}", 1 + rng.below(10)),
        5..=7 => format!("s:1:n{}", rng.below(4)),
        8 => format!("n:0:{}", 60000 + rng.below(3)),
        _ => {
            g.next_rel += 1;
            format!("rel:{}", 10 + g.next_rel)
        }
    }
}

fn c34_some_node(rng: &mut Rng, g: &Gen34) -> String {
    match rng.below(10) {
        0..=5 if !g.live.is_empty() => rng.pick(&g.live).clone(),
        6 if !g.dead.is_empty() => rng.pick(&g.dead).clone(),
        7 => "s:1:never".to_string(),
        8 => "null".to_string(),
        _ => rng.pick(&C34_PARENTS).to_string(),
    }
}

fn c34_ref_type(rng: &mut Rng, for_add_nodes: bool) -> String {
    match rng.below(20) {
        0..=5 => "n:0:35".into(),  // Organizes
        6..=10 => "n:0:47".into(), // HasComponent
        11..=13 => "n:0:46".into(), // HasProperty
        14 => "n:0:49".into(),     // HasOrderedComponent
        15 => "n:0:33".into(),     // HierarchicalReferences
        16 => "n:0:40".into(),     // HasTypeDefinition
        17 => "null".into(),
        18 => "s:1:NoSuchReferenceType".into(),
        _ => {
            if for_add_nodes {
                "n:0:45".into() // HasSubtype (never offered to AddReferences: no type-hierarchy cycles)
            } else {
                "n:0:36".into() // HasEventSource
            }
        }
    }
}

fn c34_browse_name(rng: &mut Rng) -> Value {
    match rng.below(40) {
        0 | 1 => json!([1, "a"]),
        2 => json!([2, "b"]),
        3 => json!([0, "<x"]),
        4 => json!([0, "a/b"]),
        5 => json!([0, "a.b"]),
        6 => json!([0, "+:x"]),
        7 => json!([0, "x&"]),
        8 => json!([0, "1:x"]),
        9 => json!([0, "x".repeat(300)]),
        10 => json!([0, ""]),
        11 => json!([0, Value::Null]),
        12 => json!([0, "#x"]),
        13 => json!([0, "\u{e4} \u{4e2d}"]),
        _ => {
            let n = ["a", "b", "c", "d", "e", "f"][rng.usize(6)];
            json!([0, n])
        }
    }
}

fn c34_add_item(rng: &mut Rng, g: &mut Gen34) -> Value {
    let parent = match rng.below(20) {
        0..=10 => rng.pick(&C34_PARENTS).to_string(),
        11..=16 => c34_some_node(rng, g),
        17 => "s:1:never".into(),
        18 => "n:0:47".into(), // a reference type as parent (for new reference types)
        _ => "null".into(),
    };
    let req = match rng.below(20) {
        0..=6 => "null".to_string(),
        7..=16 => c34_pool_id(rng, g),
        17 => "n:2:1".to_string(),  // a namespace nobody registered
        18 => "n:0:85".to_string(), // exists already
        _ => "s:9:far".to_string(),
    };
    let (cls, attr, td): (i64, &str, &str) = match rng.below(40) {
        0..=13 => (1, "object", if rng.bool() { "n:0:58" } else { "n:0:61" }),
        14..=21 => (2, "variable", if rng.bool() { "n:0:63" } else { "n:0:68" }),
        22 | 23 => (4, "method", "null"),
        24 | 25 => (8, "objecttype", "null"),
        26 | 27 => (16, "vartype", "null"),
        28 | 29 => (32, "reftype", "null"),
        30 => (64, "datatype", "null"),
        31 => (128, "view", "null"),
        32 => (1, "variable", "n:0:58"),  // attributes of another class
        33 => (1, "object", "null"),      // object without type definition
        34 => (4, "method", "n:0:58"),    // type definition where none is allowed
        35 => (0, "object", "n:0:58"),    // unspecified class
        36 => (1, "garbage", "n:0:58"),
        37 => (1, "nomask", "n:0:58"),
        38 => (2, "variable", "n:0:58"),  // variable typed by an object type
        _ => (1, ["null", "wrongid"][rng.usize(2)], "n:0:58"),
    };
    let psi = if rng.chance(1, 30) { [1u32, u32::MAX][rng.usize(2)] } else { 0 };
    let it = json!({
        "parent": parent,
        "psi": psi,
        "rt": c34_ref_type(rng, true),
        "req": req,
        "rsi": if rng.chance(1, 40) { 1 } else { 0 },
        "bn": c34_browse_name(rng),
        "cls": cls,
        "attr": attr,
        "td": td,
    });
    // what the generator expects to exist afterwards (only a bias)
    let r = it["req"].as_str().unwrap_or("null").to_string();
    if r != "null" && !g.live.contains(&r) && attr != "garbage" {
        g.live.push(r.clone());
        g.dead.retain(|x| *x != r);
        g.refs.push((it["parent"].as_str().unwrap_or("").into(), r, it["rt"].as_str().unwrap_or("").into()));
    }
    it
}

fn c34_addref_item(rng: &mut Rng, g: &mut Gen34) -> Value {
    let src = c34_some_node(rng, g);
    let tgt = if rng.chance(1, 25) { src.clone() } else { c34_some_node(rng, g) };
    let rtype = c34_ref_type(rng, false);
    let fwd = !rng.chance(1, 5);
    g.refs.push(if fwd {
        (src.clone(), tgt.clone(), rtype.clone())
    } else {
        (tgt.clone(), src.clone(), rtype.clone())
    });
    let cls = [1, 1, 1, 1, 2, 2, 0, 8, 32][rng.usize(9)];
    json!({
        "src": src,
        "rt": rtype,
        "fwd": fwd,
        "uri": if rng.chance(1, 25) { json!("urn:other") } else { Value::Null },
        "tgt": tgt,
        "tsi": if rng.chance(1, 25) { 1 } else { 0 },
        "cls": cls,
    })
}

fn c34_delnode_item(rng: &mut Rng, g: &mut Gen34) -> Value {
    let node = match rng.below(10) {
        0..=6 if !g.live.is_empty() => rng.pick(&g.live).clone(),
        7 if !g.dead.is_empty() => rng.pick(&g.dead).clone(),
        8 => "s:1:never".to_string(),
        _ => "null".to_string(),
    };
    if g.live.contains(&node) {
        g.live.retain(|x| *x != node);
        g.dead.push(node.clone());
    }
    json!({"node": node, "dtr": !rng.chance(2, 5)})
}

fn c34_delref_item(rng: &mut Rng, g: &mut Gen34) -> Value {
    let (src, tgt, rtype) = if !g.refs.is_empty() && rng.chance(3, 5) {
        let r = rng.pick(&g.refs).clone();
        if rng.chance(1, 4) {
            (r.1, r.0, r.2)
        } else {
            r
        }
    } else {
        (c34_some_node(rng, g), c34_some_node(rng, g), c34_ref_type(rng, false))
    };
    json!({
        "src": src,
        "rt": rtype,
        "fwd": !rng.chance(1, 4),
        "tgt": tgt,
        "tsi": if rng.chance(1, 25) { 1 } else { 0 },
        "bidir": rng.chance(1, 3),
    })
}

fn c34_history(rng: &mut Rng, max_len: usize) -> Vec<Value> {
    let mut g = Gen34 { live: vec![], dead: vec![], refs: vec![], next_rel: 0 };
    let len = 6 + rng.usize(max_len - 5);
    let mut ops = Vec::with_capacity(len);
    for _ in 0..len {
        let n_items = match rng.below(16) {
            0 => 0,
            1 | 2 => 2 + rng.usize(2),
            _ => 1,
        };
        let svc = match rng.below(20) {
            0..=8 => "add",
            9..=12 => "addref",
            13..=15 => "delnode",
            _ => "delref",
        };
        let mut items = Vec::new();
        for _ in 0..n_items {
            items.push(match svc {
                "add" => c34_add_item(rng, &mut g),
                "addref" => c34_addref_item(rng, &mut g),
                "delnode" => c34_delnode_item(rng, &mut g),
                _ => c34_delref_item(rng, &mut g),
            });
        }
        let items = if n_items == 0 && rng.bool() { Value::Null } else { json!(items) };
        ops.push(json!({"svc": svc, "sess": if rng.chance(1, 18) { 1 } else { 0 }, "items": items}));
    }
    ops
}

/// Hand-written histories for the shapes a random history reaches rarely
fn c34_directed() -> Vec<Vec<Value>> {
    let add = |req: &str, parent: &str, rt: &str, bn: &str| {
        json!({"svc": "add", "sess": 0, "items": [{"parent": parent, "psi": 0, "rt": rt, "req": req, "rsi": 0,
               "bn": [0, bn], "cls": 1, "attr": "object", "td": "n:0:58"}]})
    };
    let addref = |src: &str, tgt: &str, rt: &str| {
        json!({"svc": "addref", "sess": 0, "items": [{"src": src, "rt": rt, "fwd": true, "uri": null, "tgt": tgt, "tsi": 0, "cls": 1}]})
    };
    let delnode = |n: &str, dtr: bool| json!({"svc": "delnode", "sess": 0, "items": [{"node": n, "dtr": dtr}]});
    vec![
        // a requested id two ahead of the counter, then server-assigned ids run into it
        vec![
            add("rel:2", "n:0:85", "n:0:35", "a"),
            add("null", "n:0:85", "n:0:35", "b"),
            add("null", "n:0:85", "n:0:35", "c"),
            add("null", "n:0:85", "n:0:35", "d"),
        ],
        // same browse name twice under one parent
        vec![add("s:1:n0", "n:0:85", "n:0:35", "a"), add("s:1:n1", "n:0:85", "n:0:35", "a")],
        // an id that is no longer a node but still the source of an aggregating reference
        vec![
            add("s:1:n0", "n:0:85", "n:0:35", "a"),
            add("s:1:n1", "n:0:85", "n:0:35", "b"),
            addref("s:1:n0", "s:1:n1", "n:0:47"),
            delnode("s:1:n0", false),
            add("s:1:n1", "n:0:85", "n:0:35", "b"),
            delnode("s:1:n0", false),
        ],
        // child of a child, delete the middle
        vec![
            add("s:1:n0", "n:0:85", "n:0:35", "a"),
            add("s:1:n1", "s:1:n0", "n:0:47", "b"),
            add("s:1:n2", "s:1:n1", "n:0:47", "c"),
            addref("s:1:n0", "s:1:n1", "n:0:47"),
            addref("s:1:n1", "s:1:n2", "n:0:47"),
            delnode("s:1:n1", true),
            delnode("s:1:n1", true),
        ],
    ]
}

pub fn c34(args: &Args, rep: &mut Report) {
    let mut obs = Obs34 {
        requests: 0,
        items: 0,
        good_adds: 0,
        assigned_ids: 0,
        bad_items: 0,
        panics: 0,
        skipped_cyclic_deletes: 0,
        rebuilds: 0,
        statuses: BTreeSet::new(),
    };
    let mut histories: Vec<Vec<Value>> = Vec::new();
    if let Some(case) = load_replay(args) {
        histories.push(case["ops"].as_array().cloned().unwrap_or_default());
    } else {
        if args.shard == 0 {
            histories.extend(c34_directed());
        }
        let mut rng = Rng::new(args.seed ^ 0xC34 ^ ((args.shard as u64) << 32));
        let max_len = if args.thorough() { 60 } else { 36 };
        for _ in 0..args.budget(640, 6_400) {
            histories.push(c34_history(&mut rng, max_len));
        }
    }
    let mut world = w34_new();
    rep.count("snapshot_universe_nodes", if args.shard == 0 { world.universe.len() as u64 } else { 0 });
    for ops in &histories {
        let class = c34_class(ops);
        let case = json!({"class": class, "ops": ops});
        rep.begin_case(&case);
        run_history34(rep, &mut world, ops, &case, &mut obs);
        rep.case(&class);
        rep.sample(json!({"class": class, "ops": ops.len(), "first": ops.first()}));
        if !w34_restore(&mut world) {
            obs.rebuilds += 1;
            cleanup_scratch("c34");
            world = w34_new();
        }
    }
    cleanup_scratch("c34");
    rep.count("histories", histories.len() as u64);
    rep.count("requests", obs.requests);
    rep.count("items", obs.items);
    rep.count("good_addnodes_items_checked", obs.good_adds);
    rep.count("server_assigned_ids_checked", obs.assigned_ids);
    rep.count("bad_items", obs.bad_items);
    rep.count("requests_that_panicked", obs.panics);
    rep.count("deletes_not_sent_because_of_aggregation_cycle", obs.skipped_cyclic_deletes);
    rep.count("server_rebuilds_after_unrestorable_history", obs.rebuilds);
    rep.note(format!("statuses seen: {}", obs.statuses.iter().cloned().collect::<Vec<_>>().join(" ")));
}
