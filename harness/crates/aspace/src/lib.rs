//! Address-space workloads: C28 reference index, C29 node deletion, C31 browse-path translation,
//! C34 node-management truthfulness.
#[allow(unused_imports)]
pub(crate) use vh_common::{common, gen, pki};
pub mod p_aspace;
pub use p_aspace::{child, dispatch};
