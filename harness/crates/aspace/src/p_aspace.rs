//! Address-space workloads.
//!  C28  reference index vs a set-of-triples model (References is public)
//!  C29  node deletion terminates and leaves nothing dangling (isolated child, small stack)
//!  C31  TranslateBrowsePathsToNodeIds vs a breadth-first reference search in the harness
//!  C34  truthfulness of AddNodes / AddReferences / DeleteNodes / DeleteReferences results
#![allow(dead_code)]
#![allow(clippy::too_many_arguments)]

use crate::common::*;
use crate::pki;
use opcua::server::address_space::references::{Reference, References};
use opcua::server::prelude::*;
use opcua::server::session::Session;
use opcua::sync::RwLock;
use opcua::verif::server as hooks;
use serde_json::{json, Value};
use std::collections::{BTreeSet, HashMap, HashSet, VecDeque};
use std::io::Write;
use std::sync::Arc;

pub fn dispatch(args: &Args, rep: &mut Report) -> bool {
    match args.prop.as_str() {
        "C28" => c28(args, rep),
        "C29" => c29(args, rep),
        "C31" => c31(args, rep),
        "C34" => c34(args, rep),
        _ => return false,
    }
    true
}

pub fn child(name: &str, rest: &[String]) -> Option<i32> {
    match name {
        "aspace-del" => Some(c29_child(rest)),
        _ => None,
    }
}

fn load_replay(args: &Args) -> Option<Value> {
    let path = args.replay.as_ref()?;
    let v: Value = serde_json::from_slice(&std::fs::read(path).ok()?).ok()?;
    Some(v.get("case").cloned().unwrap_or(v))
}

fn rt(id: ReferenceTypeId) -> NodeId {
    id.into()
}

const NO_FILTER: Option<(NodeId, bool)> = None;

// ------------------------------------------------------------------------------------------------
// Shared observers over a real AddressSpace (used by C29, C31, C34). They only read through the
// public find_references / find_inverse_references / find_node calls; closures are computed here.
// ------------------------------------------------------------------------------------------------

fn fwd_refs(space: &AddressSpace, n: &NodeId) -> Vec<Reference> {
    space.find_references(n, NO_FILTER).unwrap_or_default()
}

fn inv_refs(space: &AddressSpace, n: &NodeId) -> Vec<Reference> {
    space.find_inverse_references(n, NO_FILTER).unwrap_or_default()
}

/// `root` and every type reachable from it over forward HasSubtype references (visited set, so a
/// cyclic type hierarchy cannot hang the harness)
fn subtype_closure(space: &AddressSpace, root: &NodeId) -> HashSet<NodeId> {
    let has_subtype = rt(ReferenceTypeId::HasSubtype);
    let mut seen: HashSet<NodeId> = HashSet::new();
    let mut queue = VecDeque::new();
    seen.insert(root.clone());
    queue.push_back(root.clone());
    while let Some(cur) = queue.pop_front() {
        for r in fwd_refs(space, &cur) {
            if r.reference_type == has_subtype && seen.insert(r.target_node.clone()) {
                queue.push_back(r.target_node);
            }
        }
    }
    seen
}

/// True when a HasSubtype cycle is reachable from any of `roots`: the library's own subtype search
/// has no visited set, so the harness must never ask it to walk such a hierarchy.
fn subtype_cycle_reachable(space: &AddressSpace, roots: &[NodeId]) -> bool {
    let has_subtype = rt(ReferenceTypeId::HasSubtype);
    edge_cycle_reachable(roots, &|n: &NodeId| {
        fwd_refs(space, n)
            .into_iter()
            .filter(|r| r.reference_type == has_subtype)
            .map(|r| r.target_node)
            .collect()
    })
}

/// Iterative three-colour depth-first search for a cycle reachable from `roots`
fn edge_cycle_reachable(roots: &[NodeId], succ: &dyn Fn(&NodeId) -> Vec<NodeId>) -> bool {
    let mut colour: HashMap<NodeId, u8> = HashMap::new(); // 1 = on stack, 2 = done
    for root in roots {
        if colour.contains_key(root) {
            continue;
        }
        let mut stack: Vec<(NodeId, Vec<NodeId>, usize)> = Vec::new();
        colour.insert(root.clone(), 1);
        stack.push((root.clone(), succ(root), 0));
        while let Some(top) = stack.last_mut() {
            if top.2 < top.1.len() {
                let next = top.1[top.2].clone();
                top.2 += 1;
                match colour.get(&next) {
                    Some(1) => return true,
                    Some(_) => {}
                    None => {
                        colour.insert(next.clone(), 1);
                        let s = succ(&next);
                        stack.push((next, s, 0));
                    }
                }
            } else {
                colour.insert(top.0.clone(), 2);
                stack.pop();
            }
        }
    }
    false
}

/// What `AddressSpace::delete(start)` is asked to remove: start plus all nodes reachable over
/// forward references whose type is Aggregates or one of its subtypes. With `through_missing` the
/// search also continues through ids that are not nodes (the loose reading), without it it stops
/// there (the strict reading: only what existing nodes aggregate).
fn aggregation_closure(space: &AddressSpace, start: &NodeId, agg: &HashSet<NodeId>, through_missing: bool) -> Vec<NodeId> {
    let mut seen: HashSet<NodeId> = HashSet::new();
    let mut order = vec![start.clone()];
    let mut queue = VecDeque::new();
    seen.insert(start.clone());
    queue.push_back(start.clone());
    while let Some(cur) = queue.pop_front() {
        if !through_missing && !space.node_exists(&cur) {
            continue;
        }
        for r in fwd_refs(space, &cur) {
            if agg.contains(&r.reference_type) && seen.insert(r.target_node.clone()) {
                order.push(r.target_node.clone());
                queue.push_back(r.target_node);
            }
        }
    }
    order
}

fn aggregation_cycle_reachable(space: &AddressSpace, start: &NodeId, agg: &HashSet<NodeId>) -> bool {
    edge_cycle_reachable(&[start.clone()], &|n: &NodeId| {
        fwd_refs(space, n)
            .into_iter()
            .filter(|r| agg.contains(&r.reference_type))
            .map(|r| r.target_node)
            .collect()
    })
}

/// A hash that is the same in every process (SipHash with fixed keys), for ordering things that
/// come out of randomly seeded hash sets
fn stable_hash<T: std::hash::Hash>(v: &T) -> u64 {
    use std::hash::Hasher;
    #[allow(deprecated)]
    let mut h = std::hash::SipHasher::new();
    v.hash(&mut h);
    h.finish()
}

fn new_server(tag: &str, can_modify: bool) -> Server {
    let dir = pki::scratch_dir(tag);
    let mut b = ServerBuilder::new_anonymous("verif-aspace")
        .application_uri("urn:verif:aspace")
        .product_uri("urn:verif:aspace")
        .create_sample_keypair(false)
        .pki_dir(dir)
        .host_and_port("127.0.0.1", 4855);
    if can_modify {
        b = b.clients_can_modify_address_space();
    }
    b.server().expect("server configuration must be valid")
}

fn cleanup_scratch(tag: &str) {
    let d = pki::work_dir().join("scratch").join(format!("{}_{}", tag, std::process::id()));
    let _ = std::fs::remove_dir_all(d);
}

/// Removes scratch directories of this tag whose owning process is gone (a runner that was killed
/// by the case it was running cannot clean up after itself)
fn sweep_scratch(tag: &str) {
    let dir = pki::work_dir().join("scratch");
    if let Ok(rd) = std::fs::read_dir(&dir) {
        for e in rd.flatten() {
            let name = e.file_name().to_string_lossy().to_string();
            if let Some(pid) = name.strip_prefix(&format!("{}_", tag)) {
                if pid.parse::<u32>().is_ok() && !std::path::Path::new(&format!("/proc/{}", pid)).exists() {
                    let _ = std::fs::remove_dir_all(e.path());
                }
            }
        }
    }
}

include!("c28.rs");
include!("c29.rs");
include!("c31.rs");
include!("c34.rs");
