//! C07: any message survives chunking and channel security unchanged.
//!
//! Two real SecureChannels (client role, server role) opened through the real OPN exchange. Each case sends one
//! message: Chunker::encode + apply_security on the sender, verify_and_remove_security + validate_chunks +
//! Chunker::decode on the receiver. The monitor looks at what was emitted (sizes on the wire, and - through its
//! own header parser - sequence numbers, request ids, final flags of the chunks the receiver ends up with) and at
//! what came out (the decoded message must equal the one sent).
use crate::common::*;
use crate::p_chan::*;
use opcua::core::comms::message_chunk::{MessageChunk, MessageChunkType};
use opcua::core::supported_message::SupportedMessage;
use opcua::crypto::SecurityPolicy;
use opcua::types::service_types::{
    CallMethodRequest, CallRequest, ReadResponse, WriteRequest, WriteValue,
};
use opcua::types::{
    BinaryEncoder, ByteString, DataValue, MessageSecurityMode, NodeId, UAString, Variant,
};
use serde_json::{json, Value};
use std::collections::HashMap;

const KINDS: [&str; 3] = ["write", "read-resp", "call"];

fn make_message(kind: &str, n: usize, salt: u8) -> SupportedMessage {
    let bytes = ByteString::from(payload(n, salt));
    match kind {
        "read-resp" => ReadResponse {
            response_header: response_header(1000 + salt as u32),
            results: Some(vec![
                DataValue {
                    value: Some(Variant::Int32(-7)),
                    status: None,
                    source_timestamp: None,
                    source_picoseconds: None,
                    server_timestamp: Some(fixed_time()),
                    server_picoseconds: None,
                },
                DataValue {
                    value: Some(Variant::ByteString(bytes)),
                    status: None,
                    source_timestamp: Some(fixed_time()),
                    source_picoseconds: None,
                    server_timestamp: None,
                    server_picoseconds: None,
                },
            ]),
            diagnostic_infos: None,
        }
        .into(),
        "call" => CallRequest {
            request_header: request_header(2000 + salt as u32),
            methods_to_call: Some(vec![CallMethodRequest {
                object_id: NodeId::new(2, "object"),
                method_id: NodeId::new(2, 4711u32),
                input_arguments: Some(vec![
                    Variant::String(UAString::from("first argument")),
                    Variant::ByteString(bytes),
                    Variant::from(vec![1i32, 2, 3, -4]),
                ]),
            }]),
        }
        .into(),
        _ => WriteRequest {
            request_header: request_header(3000 + salt as u32),
            nodes_to_write: Some(vec![WriteValue {
                node_id: NodeId::new(1, "the variable"),
                attribute_id: 13,
                index_range: UAString::null(),
                value: DataValue {
                    value: Some(Variant::ByteString(bytes)),
                    status: None,
                    source_timestamp: None,
                    source_picoseconds: None,
                    server_timestamp: None,
                    server_picoseconds: None,
                },
            }]),
        }
        .into(),
    }
}

/// bytes Chunker::encode will spread over chunk bodies: the type's node id plus the message
fn encoded_len(m: &SupportedMessage) -> usize {
    m.byte_len() + m.node_id().byte_len()
}

fn encoded(m: &SupportedMessage) -> Vec<u8> {
    let mut v = Vec::new();
    let _ = m.node_id().encode(&mut v);
    let _ = m.encode(&mut v);
    v
}

/// the message of `kind` whose encoding has exactly `total` bytes (or the smallest one if that is larger)
fn message_of_len(kind: &str, total: usize, salt: u8) -> (SupportedMessage, usize) {
    let base = encoded_len(&make_message(kind, 0, salt));
    let n = total.saturating_sub(base);
    let m = make_message(kind, n, salt);
    (m, n)
}

struct Obs {
    chunks: u64,
    secured_bytes: u64,
    multi: u64,
    max_chunks: u64,
    opn: u64,
    at_limit: u64,
    pairs: u64,
}

fn cs_class(cs: usize) -> &'static str {
    match cs {
        0 => "unlimited",
        8196 => "min",
        65535 => "64k",
        x if x % 16 == 4 => "other=4mod16",
        x if x % 2 == 1 => "odd",
        _ => "even",
    }
}

/// One message through the pair. Returns false if the harness could not run the case.
#[allow(clippy::too_many_arguments)]
fn one_message(
    rep: &mut Report,
    obs: &mut Obs,
    pair: &mut Pair,
    to_server: bool,
    chunk_size: usize,
    msg: &SupportedMessage,
    mtype: &str,
    class: &str,
    case: &Value,
) {
    let mode = mname(pair.mode);
    let (seq, req) = if to_server { (pair.c2s_seq, pair.next_req) } else { (pair.s2c_seq, pair.next_req) };
    pair.next_req = pair.next_req.wrapping_add(1);
    let original = encoded(msg);
    let outcome = catch(|| {
        let (sender, receiver) = if to_server {
            (&pair.client, &mut pair.server)
        } else {
            (&pair.server, &mut pair.client)
        };
        let wire = send_message(sender, seq, req, chunk_size, msg)?;
        let rx = receive_message(receiver, seq, &wire.secured);
        Ok::<_, Fail>((wire, rx))
    });
    rep.case(class);
    rep.sample(case.clone());
    let (wire, rx) = match outcome {
        Err(p) => {
            rep.violation(
                panic_sig("roundtrip-panic", &p),
                format!("sending / receiving a valid message panicked: {} at {}:{}", p.msg, p.file, p.line),
                case.clone(),
            );
            return;
        }
        Ok(Err(f)) => {
            rep.violation(
                format!("send-failed|{}|{}|{}", f.stage, mtype, mode),
                format!("sender could not produce the chunks: {} returned {} (chunk {})", f.stage, f.status, f.chunk),
                case.clone(),
            );
            return;
        }
        Ok(Ok(x)) => x,
    };
    let n = wire.secured.len();
    let multi = if n > 1 { "multi-chunk" } else { "single-chunk" };
    if to_server {
        pair.c2s_seq = pair.c2s_seq.wrapping_add(n as u32);
    } else {
        pair.s2c_seq = pair.s2c_seq.wrapping_add(n as u32);
    }
    obs.chunks += n as u64;
    obs.max_chunks = obs.max_chunks.max(n as u64);
    if n > 1 {
        obs.multi += 1;
    }
    if mtype == "OPN" {
        obs.opn += n as u64;
    }
    // ---- what went on the wire
    for (i, s) in wire.secured.iter().enumerate() {
        obs.secured_bytes += s.len() as u64;
        if chunk_size > 0 && s.len() == chunk_size {
            obs.at_limit += 1;
        }
        if chunk_size > 0 && s.len() > chunk_size {
            rep.violation(
                format!("secured-chunk-exceeds-negotiated-size|{}|{}", mtype, mode),
                format!(
                    "chunk {} of {} is {} bytes on the wire, the negotiated chunk size is {} (plain chunk {} bytes, policy {})",
                    i + 1,
                    n,
                    s.len(),
                    chunk_size,
                    wire.plain[i].data.len(),
                    pname(pair.policy)
                ),
                case.clone(),
            );
        }
        match parse_hdr(s) {
            Some(h) if h.size as usize == s.len() => {}
            Some(h) => rep.violation(
                format!("wire-header|message-size-field-wrong|{}|{}", mtype, mode),
                format!("chunk {} says message_size {} but is {} bytes", i + 1, h.size, s.len()),
                case.clone(),
            ),
            None => rep.violation(
                format!("wire-header|unparsable|{}|{}", mtype, mode),
                format!("chunk {} of {} bytes has no parsable header", i + 1, s.len()),
                case.clone(),
            ),
        }
    }
    // ---- the sender's plain chunks: sequence numbers, request id, final flag
    let channel_id = if to_server { pair.client.secure_channel_id() } else { pair.server.secure_channel_id() };
    let check_headers = |rep: &mut Report, chunks: &[MessageChunk], side: &str| {
        for (i, c) in chunks.iter().enumerate() {
            let Some((h, s, r, _)) = parse_plain(&c.data) else {
                rep.violation(
                    format!("chunk-header|unparsable|{}|{}|{}", side, mtype, mode),
                    format!("{} chunk {} of {} cannot be parsed", side, i + 1, chunks.len()),
                    case.clone(),
                );
                continue;
            };
            let want_final = if i + 1 == chunks.len() { b'F' } else { b'C' };
            let mut bad: Vec<String> = Vec::new();
            if s != seq.wrapping_add(i as u32) {
                bad.push(format!("sequence-number {} expected {}", s, seq.wrapping_add(i as u32)));
            }
            if r != req {
                bad.push(format!("request-id {} expected {}", r, req));
            }
            if h.fin != want_final {
                bad.push(format!("final-flag {:?} expected {:?}", h.fin as char, want_final as char));
            }
            if &h.mtype != mtype.as_bytes() {
                bad.push(format!("message-type {:?}", String::from_utf8_lossy(&h.mtype)));
            }
            if h.channel_id != channel_id {
                bad.push(format!("channel-id {} expected {}", h.channel_id, channel_id));
            }
            for b in bad {
                let what = b.split(' ').next().unwrap_or("?").to_string();
                rep.violation(
                    format!("chunk-header|{}|{}|{}|{}", what, side, mtype, mode),
                    format!("{} chunk {} of {}: {}", side, i + 1, chunks.len(), b),
                    case.clone(),
                );
            }
        }
    };
    check_headers(rep, &wire.plain, "sent");
    // ---- the receiver
    match rx {
        Err(f) => {
            // where does the receiver's view differ from the sender's? (diagnosis only)
            let what = if f.stage == "decode" { "not-reassembled".to_string() } else { format!("{}-failed", f.stage) };
            rep.violation(
                format!("roundtrip|{}|{}|{}|{}", what, mtype, multi, mode),
                format!(
                    "receiver: {} returned {} (chunk {} of {}); policy {}, chunk size {}, {} bytes of message",
                    f.stage,
                    f.status,
                    f.chunk + 1,
                    n,
                    pname(pair.policy),
                    chunk_size,
                    original.len()
                ),
                case.clone(),
            );
        }
        Ok((rxc, last, m)) => {
            check_headers(rep, &rxc, "received");
            if last != seq.wrapping_add(n as u32 - 1) {
                rep.violation(
                    format!("roundtrip|last-sequence-number-wrong|{}|{}|{}", mtype, multi, mode),
                    format!("validate_chunks returned {} for chunks {}..{}", last, seq, seq.wrapping_add(n as u32 - 1)),
                    case.clone(),
                );
            }
            let back = encoded(&m);
            if back != original || m != *msg {
                let at = back.iter().zip(original.iter()).position(|(a, b)| a != b).unwrap_or(back.len().min(original.len()));
                // diagnosis: do the receiver's chunk bodies carry more than the sender put in?
                let extra: Vec<String> = rxc
                    .iter()
                    .zip(wire.plain.iter())
                    .map(|(r, s)| format!("{}", r.data.len() as i64 - s.data.len() as i64))
                    .collect();
                rep.violation(
                    format!("roundtrip|not-reassembled|{}|{}|{}", mtype, multi, mode),
                    format!(
                        "decoded message differs from the one sent: {} bytes re-encoded vs {} sent, first difference at byte {}; \
                         receiver chunk length minus sender chunk length per chunk: [{}]; policy {}, chunk size {}",
                        back.len(),
                        original.len(),
                        at,
                        extra.join(","),
                        pname(pair.policy),
                        chunk_size
                    ),
                    case.clone(),
                );
            }
        }
    }
}

fn pair_for<'a>(
    cache: &'a mut HashMap<String, Pair>,
    ids: &Idents,
    rep: &mut Report,
    obs: &mut Obs,
    policy: SecurityPolicy,
    mode: MessageSecurityMode,
    cb: u32,
    sb: u32,
    nonce_seed: u64,
) -> Option<&'a mut Pair> {
    let key = format!("{}|{}|{}|{}|{}", pname(policy), mname(mode), cb, sb, nonce_seed);
    if !cache.contains_key(&key) {
        match catch(|| open_pair(ids, policy, mode, cb, sb, nonce_seed, 8196, big_options())) {
            Ok(Ok(p)) => {
                obs.pairs += 1;
                cache.insert(key.clone(), p);
            }
            Ok(Err(e)) => {
                // an OPN exchange that fails on valid input is itself a refutation; the OPN cases report it with
                // detail, here it only stops the MSG cases of this combination
                rep.note(format!("channel {} could not be opened: {}", key, e));
                return None;
            }
            Err(p) => {
                rep.note(format!("channel {} could not be opened: panic {} at {}:{}", key, p.msg, p.file, p.line));
                return None;
            }
        }
    }
    cache.get_mut(&key)
}

fn run_msg_case(cache: &mut HashMap<String, Pair>, ids: &Idents, rep: &mut Report, obs: &mut Obs, case: &Value) {
    let policy = pfrom(jstr(case, "policy"));
    let mode = mfrom(jstr(case, "mode"));
    let cb = ju64(case, "cbits") as u32;
    let sb = ju64(case, "sbits") as u32;
    let cs = ju64(case, "chunk_size") as usize;
    let total = ju64(case, "encoded_len") as usize;
    let kind = jstr(case, "kind").to_string();
    let to_server = jstr(case, "dir") == "c2s";
    rep.begin_case(case);
    let Some(pair) = pair_for(cache, ids, rep, obs, policy, mode, cb, sb, ju64(case, "nonce_seed")) else {
        rep.inconclusive(format!("C07: no channel for {}", case));
        return;
    };
    let (msg, _) = message_of_len(&kind, total, ju64(case, "salt") as u8);
    let class = format!(
        "MSG|{}|{}|cs:{}|k{}|d{}|{}|{}",
        pname(policy),
        mname(mode),
        cs_class(cs),
        jstr(case, "k"),
        jstr(case, "d"),
        jstr(case, "dir"),
        kind
    );
    one_message(rep, obs, pair, to_server, cs, &msg, "MSG", &class, case);
}

/// OPN cases: `what` = "handshake" (fresh pair: Issue request to a fresh server channel and its response), or
/// "sweep" (on an open channel: Renew requests / responses whose nonce field has the given length, which moves the
/// plain text across the RSA block boundaries and the padding through all its values)
fn run_opn_case(cache: &mut HashMap<String, Pair>, ids: &Idents, rep: &mut Report, obs: &mut Obs, case: &Value) {
    let policy = pfrom(jstr(case, "policy"));
    let mode = mfrom(jstr(case, "mode"));
    let cb = ju64(case, "cbits") as u32;
    let sb = ju64(case, "sbits") as u32;
    let cs = ju64(case, "chunk_size") as usize;
    rep.begin_case(case);
    if jstr(case, "what") == "handshake" {
        let class = format!("OPN|handshake|{}|{}|c{}|s{}|cs:{}", pname(policy), mname(mode), cb, sb, cs_class(cs));
        let r = catch(|| open_pair(ids, policy, mode, cb, sb, ju64(case, "nonce_seed"), cs, big_options()));
        rep.case(&class);
        rep.sample(case.clone());
        match r {
            Err(p) => rep.violation(
                panic_sig("roundtrip-panic", &p),
                format!("opening a channel panicked: {} at {}:{}", p.msg, p.file, p.line),
                case.clone(),
            ),
            Ok(Err(e)) => rep.violation(
                format!("roundtrip|open-failed|OPN|single-chunk|{}", mname(mode)),
                format!("policy {} client key {} server key {}: {}", pname(policy), cb, sb, e),
                case.clone(),
            ),
            Ok(Ok(pair)) => {
                obs.pairs += 1;
                for (wire, sent, got, dir) in [
                    (&pair.opn_req, &pair.opn_req_msg, &pair.opn_req_decoded, "request"),
                    (&pair.opn_resp, &pair.opn_resp_msg, &pair.opn_resp_decoded, "response"),
                ] {
                    obs.chunks += wire.secured.len() as u64;
                    obs.opn += wire.secured.len() as u64;
                    for s in &wire.secured {
                        obs.secured_bytes += s.len() as u64;
                        if cs > 0 && s.len() > cs {
                            rep.violation(
                                format!("secured-chunk-exceeds-negotiated-size|OPN|{}", mname(mode)),
                                format!("OPN {} is {} bytes on the wire, chunk size {}", dir, s.len(), cs),
                                case.clone(),
                            );
                        }
                    }
                    if sent != got || encoded(sent) != encoded(got) {
                        rep.violation(
                            format!("roundtrip|not-reassembled|OPN|single-chunk|{}", mname(mode)),
                            format!("OPN {} decoded differently from what was sent (policy {})", dir, pname(policy)),
                            case.clone(),
                        );
                    }
                    if policy != SecurityPolicy::None {
                        // secured OPN: the sender certificate travels in the header, the thumbprint names the receiver
                        let h = parse_hdr(&wire.secured[0]);
                        let ok = h.as_ref().map(|h| h.cert.is_some() && h.thumb.as_ref().map(|t| t.len()) == Some(20)).unwrap_or(false);
                        if !ok {
                            rep.violation(
                                format!("wire-header|opn-security-header-incomplete|{}", mname(mode)),
                                format!("OPN {} under {} without sender certificate / 20 byte thumbprint", dir, pname(policy)),
                                case.clone(),
                            );
                        }
                    }
                }
            }
        }
        return;
    }
    let nl = ju64(case, "field_len") as usize;
    let to_server = jstr(case, "dir") == "c2s";
    let Some(pair) = pair_for(cache, ids, rep, obs, policy, mode, cb, sb, ju64(case, "nonce_seed")) else {
        rep.inconclusive(format!("C07: no channel for {}", case));
        return;
    };
    let filler = payload(nl, nl as u8);
    let msg = if to_server {
        opn_request(mode, true, &filler, false)
    } else {
        opn_response(pair.server.secure_channel_id(), pair.server.token_id(), &filler, false)
    };
    // class: where the plain text ends relative to the RSA block of the receiver's key
    let recv_bits = if to_server { sb } else { cb };
    let send_bits = if to_server { cb } else { sb };
    let pb = if policy == SecurityPolicy::None { 1 } else { rsa_plain_block(policy, (recv_bits / 8) as usize) };
    let plain_len = 8 + encoded_len(&msg) + (send_bits / 8) as usize + if recv_bits > 2048 { 2 } else { 1 };
    let class = format!(
        "OPN|sweep|{}|{}|c{}|s{}|{}|blocks{}|rem{}",
        pname(policy),
        mname(mode),
        cb,
        sb,
        jstr(case, "dir"),
        (plain_len + pb - 1) / pb,
        match plain_len % pb {
            0 => "0".to_string(),
            1 => "1".to_string(),
            x if x == pb - 1 => "-1".to_string(),
            x if x < pb / 2 => "low".to_string(),
            _ => "high".to_string(),
        }
    );
    one_message(rep, obs, pair, to_server, cs, &msg, "OPN", &class, case);
}

fn run_case(cache: &mut HashMap<String, Pair>, ids: &Idents, rep: &mut Report, obs: &mut Obs, case: &Value) {
    if jstr(case, "type") == "OPN" {
        run_opn_case(cache, ids, rep, obs, case)
    } else {
        run_msg_case(cache, ids, rep, obs, case)
    }
}

pub fn c07(args: &Args, rep: &mut Report) {
    let ids = Idents::new();
    let mut cache: HashMap<String, Pair> = HashMap::new();
    let mut obs = Obs {
        chunks: 0,
        secured_bytes: 0,
        multi: 0,
        max_chunks: 0,
        opn: 0,
        at_limit: 0,
        pairs: 0,
    };
    if let Some(path) = &args.replay {
        match read_replay(path) {
            Some(case) => run_case(&mut cache, &ids, rep, &mut obs, &case),
            None => rep.inconclusive("cannot read replay file"),
        }
        return;
    }
    let thorough = args.thorough();
    let mut rng = Rng::new(args.seed ^ 0xC07);
    let mut cases: Vec<Value> = Vec::new();

    // ---- combinations
    let mut combos: Vec<(SecurityPolicy, MessageSecurityMode)> = vec![(SecurityPolicy::None, MessageSecurityMode::None)];
    for p in POLICIES {
        for m in [MessageSecurityMode::Sign, MessageSecurityMode::SignAndEncrypt] {
            combos.push((p, m));
        }
    }
    // ---- MSG cases
    let mut chunk_sizes: Vec<usize> = vec![0, 8196, 8197, 8199, 8211, 9001, 16384, 65535];
    let extra_sizes = if thorough { 10 } else { 2 };
    for _ in 0..extra_sizes {
        chunk_sizes.push(8196 + rng.usize(65535 - 8196));
    }
    let deltas: Vec<i64> = if thorough { vec![-2, -1, 0, 1, 2] } else { vec![-1, 0, 1] };
    for (ci, (policy, mode)) in combos.iter().enumerate() {
        let bits = policy_bits(*policy);
        let (cb, sb) = if *policy == SecurityPolicy::None {
            (0, 0)
        } else {
            (bits[(ci + args.seed as usize) % 2], bits[(ci / 2 + args.seed as usize) % 2])
        };
        let nonce_seed = args.seed.wrapping_mul(131) + ci as u64;
        // the real function is asked how much body fits, only to aim the generator at the boundaries
        let probe = match catch(|| open_pair(&ids, *policy, *mode, cb, sb, nonce_seed, 8196, big_options())) {
            Ok(Ok(p)) => p,
            Ok(Err(e)) => {
                rep.inconclusive(format!("C07: cannot open {} {}: {}", pname(*policy), mname(*mode), e));
                continue;
            }
            Err(p) => {
                rep.inconclusive(format!("C07: cannot open {} {}: panic {}", pname(*policy), mname(*mode), p.msg));
                continue;
            }
        };
        for &cs in &chunk_sizes {
            let mut targets: Vec<(usize, String, String)> = Vec::new();
            if cs == 0 {
                for (t, name) in [(0usize, "min"), (1000, "1k"), (8196, "8k"), (70_000, "70k"), (250_000, "250k")] {
                    targets.push((t, "1".into(), name.into()));
                }
            } else {
                let body = match MessageChunk::body_size_from_message_size(MessageChunkType::Message, &probe.client, cs) {
                    Ok(b) => b,
                    Err(_) => {
                        rep.inconclusive(format!("body_size_from_message_size refused chunk size {}", cs));
                        continue;
                    }
                };
                targets.push((0, "1".into(), "min".into()));
                targets.push((body / 2, "1".into(), "half".into()));
                for k in [1usize, 2, 3, 5] {
                    if k == 5 && cs > 16384 && !thorough {
                        continue;
                    }
                    for d in &deltas {
                        let t = (k * body) as i64 + d;
                        targets.push((t as usize, format!("{}", k), format!("{:+}", d)));
                    }
                }
                if thorough {
                    for _ in 0..4 {
                        let t = rng.usize(5 * body);
                        targets.push((t, format!("{}", t / body + 1), "rnd".into()));
                    }
                }
            }
            for (ti, (t, k, d)) in targets.iter().enumerate() {
                for dir in ["c2s", "s2c"] {
                    let kind = KINDS[(ti + ci + if dir == "c2s" { 0 } else { 1 }) % KINDS.len()];
                    cases.push(json!({"type": "MSG", "policy": pname(*policy), "mode": mname(*mode), "cbits": cb, "sbits": sb,
                        "chunk_size": cs, "encoded_len": t, "k": k, "d": d, "dir": dir, "kind": kind,
                        "salt": rng.below(256), "nonce_seed": nonce_seed}));
                }
            }
        }
    }
    // ---- OPN cases
    for (ci, (policy, mode)) in combos.iter().enumerate() {
        if *policy == SecurityPolicy::None {
            for cs in [0usize, 8196] {
                cases.push(json!({"type": "OPN", "what": "handshake", "policy": "None", "mode": "None", "cbits": 0, "sbits": 0,
                    "chunk_size": cs, "nonce_seed": args.seed}));
            }
            cases.push(json!({"type": "OPN", "what": "handshake", "policy": "None", "mode": "None", "cbits": 2048, "sbits": 2048,
                "chunk_size": 8196, "nonce_seed": args.seed}));
            continue;
        }
        let bits = policy_bits(*policy);
        let mut key_pairs: Vec<(u32, u32)> = Vec::new();
        for c in bits {
            for s in bits {
                key_pairs.push((c, s));
            }
        }
        for (ki, (cb, sb)) in key_pairs.iter().enumerate() {
            let nonce_seed = args.seed.wrapping_mul(977) + (ci * 4 + ki) as u64;
            for cs in [0usize, 8196, 65535] {
                if !thorough && cs == 65535 && ki % 2 == 1 {
                    continue;
                }
                cases.push(json!({"type": "OPN", "what": "handshake", "policy": pname(*policy), "mode": mname(*mode),
                    "cbits": cb, "sbits": sb, "chunk_size": cs, "nonce_seed": nonce_seed + cs as u64}));
            }
            // sweep of the plain text length over RSA block boundaries
            for dir in ["c2s", "s2c"] {
                let recv = if dir == "c2s" { *sb } else { *cb };
                let pb = rsa_plain_block(*policy, (recv / 8) as usize);
                let mut lens: Vec<usize> = Vec::new();
                if thorough {
                    lens.extend(0..=(pb + 20));
                    for _ in 0..20 {
                        lens.push(pb + 20 + rng.usize(2 * pb));
                    }
                } else {
                    // quick: 4096-bit receivers cost ~10 ms per RSA block; fewer random points there, but the
                    // lengths that put the padding at its extremes and around the one-byte / two-byte border are
                    // aimed at directly (the formula only aims the generator, it judges nothing)
                    let pts = if recv >= 4096 { 8 } else { 20 };
                    lens.extend([0usize, 1, 32]);
                    for _ in 0..pts {
                        lens.push(rng.usize(2 * pb + 20));
                    }
                    let send = if dir == "c2s" { *cb } else { *sb };
                    let min_pad = if recv > 2048 { 2 } else { 1 };
                    let base_msg = if dir == "c2s" { opn_request(*mode, true, &[], false) } else { opn_response(1, 1, &[], false) };
                    let base = 8 + encoded_len(&base_msg) + (send / 8) as usize + min_pad;
                    let pad_of = |nl: usize| -> usize {
                        let e = base + nl;
                        min_pad + if e % pb != 0 { pb - e % pb } else { 0 }
                    };
                    let wanted: Vec<usize> = vec![min_pad, min_pad + 1, 254, 255, 256, 257, 258, 259, 260, pb + min_pad - 2, pb + min_pad - 1];
                    for w in wanted {
                        if let Some(nl) = (0..2 * pb).find(|nl| pad_of(*nl) == w) {
                            lens.push(nl);
                        }
                    }
                }
                for nl in lens {
                    cases.push(json!({"type": "OPN", "what": "sweep", "policy": pname(*policy), "mode": mname(*mode),
                        "cbits": cb, "sbits": sb, "chunk_size": if nl % 2 == 0 { 8196 } else { 0 }, "field_len": nl, "dir": dir,
                        "nonce_seed": nonce_seed}));
                }
            }
        }
    }
    // ---- run this shard's share; cases of one channel stay together so that the channel carries a long history
    let mut by_channel: Vec<(String, Value)> = cases
        .into_iter()
        .map(|c| {
            (
                format!("{}|{}|{}|{}|{}", jstr(&c, "policy"), jstr(&c, "mode"), ju64(&c, "cbits"), ju64(&c, "sbits"), ju64(&c, "nonce_seed")),
                c,
            )
        })
        .collect();
    by_channel.sort_by(|a, b| a.0.cmp(&b.0));
    // every shard takes every shards-th case of every channel
    let mut mine: Vec<Value> = Vec::new();
    let mut i = 0;
    while i < by_channel.len() {
        let mut j = i;
        while j < by_channel.len() && by_channel[j].0 == by_channel[i].0 {
            j += 1;
        }
        for (k, c) in by_channel[i..j].iter().enumerate() {
            if k % args.shards == args.shard {
                mine.push(c.1.clone());
            }
        }
        i = j;
    }
    for case in &mine {
        run_case(&mut cache, &ids, rep, &mut obs, case);
        // keep memory bounded: one open channel at a time is enough because cases are grouped by channel
        if cache.len() > 2 {
            cache.clear();
        }
    }
    rep.count("chunks_sent_and_received", obs.chunks);
    rep.count("opn_chunks", obs.opn);
    rep.count("secured_bytes_on_the_wire", obs.secured_bytes);
    rep.count("multi_chunk_messages", obs.multi);
    rep.count("chunks_exactly_at_the_negotiated_size", obs.at_limit);
    rep.count("channels_opened_through_real_opn_exchange", obs.pairs);
}
