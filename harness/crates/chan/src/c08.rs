//! C08: modified or foreign secured chunks are never accepted.
//!
//! Victims are valid secured chunks produced by real channel pairs (Chunker::encode + apply_security). Every case
//! hands a modified victim, or the same plain text secured under other keys / another identity, to the real receive
//! path of the peer (verify_and_remove_security, validate_chunks, Chunker::decode). The oracle is the property
//! itself: no message may come out. A panic is counted as "not delivered" here and reported by C09.
use crate::common::*;
use crate::p_chan::*;
use opcua::core::comms::secure_channel::{Role, SecureChannel};
use opcua::core::supported_message::SupportedMessage;
use opcua::crypto::{SecurityPolicy, X509};
use opcua::types::service_types::{CloseSecureChannelRequest, ReadRequest, ReadValueId, TimestampsToReturn, WriteRequest, WriteValue};
use opcua::types::{BinaryEncoder, ByteString, DataValue, MessageSecurityMode, NodeId, UAString, Variant};
use serde_json::{json, Value};

#[derive(Clone, Copy, PartialEq, Debug)]
enum Recv {
    /// the open pair's server / client channel
    PairServer,
    PairClient,
    /// a server channel that has seen nothing yet (first OPN of a connection)
    FreshServer,
    /// a client channel configured for the endpoint, waiting for the OPN response
    PreOpenClient,
}

struct Victim {
    name: &'static str,
    mtype: &'static str,
    /// all secured chunks of the message; `target` is the one that gets modified
    secured: Vec<Vec<u8>>,
    target: usize,
    recv: Recv,
    seq: u32,
}

struct Group<'a> {
    policy: SecurityPolicy,
    mode: MessageSecurityMode,
    cb: u32,
    sb: u32,
    nonce_seed: u64,
    ids: &'a Idents,
}

enum Outcome {
    Delivered(SupportedMessage),
    Rejected(&'static str, String),
    Panicked(PanicInfo),
}

pub fn small_read(n: usize) -> SupportedMessage {
    ReadRequest {
        request_header: request_header(42),
        max_age: 0.0,
        timestamps_to_return: TimestampsToReturn::Both,
        nodes_to_read: Some(
            (0..n)
                .map(|i| ReadValueId {
                    node_id: NodeId::new(1, i as u32),
                    attribute_id: 13,
                    index_range: UAString::null(),
                    data_encoding: Default::default(),
                })
                .collect(),
        ),
    }
    .into()
}

pub fn write_msg(n: usize) -> SupportedMessage {
    WriteRequest {
        request_header: request_header(43),
        nodes_to_write: Some(vec![WriteValue {
            node_id: NodeId::new(1, "v"),
            attribute_id: 13,
            index_range: UAString::null(),
            value: DataValue {
                value: Some(Variant::ByteString(ByteString::from(payload(n, 9)))),
                status: None,
                source_timestamp: None,
                source_picoseconds: None,
                server_timestamp: None,
                server_picoseconds: None,
            },
        }]),
    }
    .into()
}

fn fresh_receiver(g: &Group, recv: Recv) -> Result<SecureChannel, String> {
    match recv {
        Recv::FreshServer => {
            let s = g.ids.get(SERVER_ID, g.sb)?;
            Ok(new_channel(Role::Server, Some(&s), big_options()))
        }
        Recv::PreOpenClient => {
            let c = g.ids.get(CLIENT_ID, g.cb)?;
            let s = g.ids.get(SERVER_ID, g.sb)?;
            let mut ch = client_channel(g.policy, g.mode, Some(&c), Some(&s), big_options());
            ch.set_local_nonce(&vec![7u8; nonce_len(g.policy)]);
            Ok(ch)
        }
        _ => Err("not a fresh receiver".into()),
    }
}

/// The receive path on `chunks`; state the receive path may have changed on the channel is put back
fn deliver(g: &Group, pair: &mut Pair, recv: Recv, chunks: &[Vec<u8>], seq: u32) -> Outcome {
    let mut fresh;
    let ch: &mut SecureChannel = match recv {
        Recv::PairServer => &mut pair.server,
        Recv::PairClient => &mut pair.client,
        _ => match fresh_receiver(g, recv) {
            Ok(c) => {
                fresh = c;
                &mut fresh
            }
            Err(e) => return Outcome::Rejected("harness", e),
        },
    };
    let policy_before = ch.security_policy();
    let r = catch(|| receive_message(ch, seq, chunks));
    if ch.security_policy() != policy_before {
        ch.set_security_policy(policy_before);
    }
    match r {
        Err(p) => Outcome::Panicked(p),
        Ok(Err(f)) => Outcome::Rejected(f.stage, f.status),
        Ok(Ok((_, _, m))) => Outcome::Delivered(m),
    }
}

fn build_victims(g: &Group, pair: &mut Pair) -> Result<Vec<Victim>, String> {
    let mut v = Vec::new();
    let mut add = |pair: &mut Pair, name: &'static str, to_server: bool, cs: usize, msg: SupportedMessage, target: usize| -> Result<(), String> {
        let (sender, seq) = if to_server { (&pair.client, pair.c2s_seq) } else { (&pair.server, pair.s2c_seq) };
        let req = pair.next_req;
        let wire = send_message(sender, seq, req, cs, &msg).map_err(|f| format!("victim {}: {} {}", name, f.stage, f.status))?;
        let n = wire.secured.len() as u32;
        pair.next_req += 1;
        if to_server {
            pair.c2s_seq += n;
        } else {
            pair.s2c_seq += n;
        }
        let mtype = if wire.secured[0].starts_with(b"OPN") {
            "OPN"
        } else if wire.secured[0].starts_with(b"CLO") {
            "CLO"
        } else {
            "MSG"
        };
        v.push(Victim {
            name,
            mtype,
            target: target.min(wire.secured.len() - 1),
            secured: wire.secured,
            recv: if to_server { Recv::PairServer } else { Recv::PairClient },
            seq,
        });
        Ok(())
    };
    add(pair, "msg-small", true, 8196, small_read(3), 0)?;
    add(pair, "msg-medium", false, 8196, write_msg(700), 0)?;
    add(pair, "msg-large", true, 0, write_msg(8000), 0)?;
    add(pair, "clo", true, 8196, CloseSecureChannelRequest { request_header: request_header(44) }.into(), 0)?;
    add(pair, "msg-two-chunks-first", false, 8196, write_msg(9000), 0)?;
    add(pair, "msg-two-chunks-last", true, 8196, write_msg(9000), 1)?;
    let renew_nonce = payload(nonce_len(g.policy), 3);
    add(pair, "opn-renew-request", true, 8196, opn_request(g.mode, true, &renew_nonce, false), 0)?;
    // the two OPN chunks of the handshake itself, replayed against receivers in the state they were in
    v.push(Victim {
        name: "opn-issue-request",
        mtype: "OPN",
        secured: pair.opn_req.secured.clone(),
        target: 0,
        recv: Recv::FreshServer,
        seq: 1,
    });
    // the response must match a client waiting for it: a fresh exchange with the PreOpenClient's nonce is not needed,
    // the receive path does not look at nonces
    v.push(Victim {
        name: "opn-issue-response",
        mtype: "OPN",
        secured: pair.opn_resp.secured.clone(),
        target: 0,
        recv: Recv::PreOpenClient,
        seq: 1,
    });
    Ok(v)
}

/// (region name, start, end) of a secured chunk, from the unencrypted headers and what the mode implies
fn regions(v: &[u8], policy: SecurityPolicy, mode: MessageSecurityMode, rsa_block: usize) -> Vec<(&'static str, usize, usize)> {
    let mut r = vec![("message-header", 0usize, 12usize)];
    let Some(h) = parse_hdr(v) else { return r };
    let n = v.len();
    if &h.mtype == b"OPN" {
        r.push(("policy-uri", h.uri_off, h.cert_off));
        r.push(("sender-certificate", h.cert_off, h.thumb_off));
        r.push(("receiver-thumbprint", h.thumb_off, h.seq_off));
        let blocks = if rsa_block > 0 { (n - h.seq_off) / rsa_block } else { 0 };
        if blocks >= 1 {
            r.push(("rsa-first-block", h.seq_off, h.seq_off + rsa_block));
        }
        if blocks >= 3 {
            r.push(("rsa-inner-blocks", h.seq_off + rsa_block, n - rsa_block));
        }
        if blocks >= 2 {
            r.push(("rsa-last-block", n - rsa_block, n));
        }
    } else {
        r.push(("token-id", 12, 16));
        let sig = sym_sig_len(policy);
        if mode == MessageSecurityMode::SignAndEncrypt {
            r.push(("cipher-first-block", 16, 32.min(n)));
            let tail = (sig + 15) / 16 * 16 + 16;
            if n > 32 + tail {
                r.push(("cipher-inner", 32, n - tail));
            }
            if n >= 32 + tail {
                r.push(("cipher-tail(padding+signature)", n - tail, n));
            }
        } else {
            r.push(("sequence-header", 16, 24));
            let pad = if n > sig + 24 { v[n - sig - 1] as usize + 1 } else { 0 };
            let body_end = n.saturating_sub(sig + pad).max(24);
            r.push(("body", 24, body_end));
            r.push(("padding", body_end, n - sig));
            r.push(("signature", n - sig, n));
        }
    }
    r
}

fn region_of(regs: &[(&'static str, usize, usize)], pos: usize) -> &'static str {
    for (name, a, b) in regs {
        if pos >= *a && pos < *b {
            return name;
        }
    }
    "?"
}

fn apply_mutation(v: &[u8], m: &Value, rng_fill: u8) -> Option<Vec<u8>> {
    let mut d = v.to_vec();
    let pos = ju64(m, "pos") as usize;
    match jstr(m, "m") {
        "xor" => {
            *d.get_mut(pos)? ^= ju64(m, "val") as u8;
        }
        "bit" => {
            *d.get_mut(pos)? ^= 1u8 << (ju64(m, "bit") % 8);
        }
        "trunc" => {
            let n = ju64(m, "n") as usize;
            if n >= d.len() {
                return None;
            }
            d.truncate(d.len() - n);
            if m["patch"].as_bool().unwrap_or(false) {
                patch_size(&mut d);
            }
        }
        "extend" => {
            let n = ju64(m, "n") as usize;
            for i in 0..n {
                d.push(match jstr(m, "fill") {
                    "zero" => 0,
                    "repeat-last" => v[v.len() - 1],
                    _ => rng_fill.wrapping_mul(31).wrapping_add((i as u8).wrapping_mul(7).wrapping_add(1)),
                });
            }
            if m["patch"].as_bool().unwrap_or(false) {
                patch_size(&mut d);
            }
        }
        "remove" => {
            if pos >= d.len() {
                return None;
            }
            d.remove(pos);
            patch_size(&mut d);
        }
        "insert" => {
            if pos > d.len() {
                return None;
            }
            d.insert(pos, ju64(m, "val") as u8);
            patch_size(&mut d);
        }
        "dup-block" | "drop-block" | "swap-blocks" | "zero-block" => {
            let bs = ju64(m, "bs") as usize;
            let off = ju64(m, "off") as usize;
            let i = ju64(m, "i") as usize;
            let j = ju64(m, "j") as usize;
            let a = off + i * bs;
            let b = off + j * bs;
            if bs == 0 || a + bs > d.len() || b + bs > d.len() {
                return None;
            }
            match jstr(m, "m") {
                "dup-block" => {
                    let blk = d[a..a + bs].to_vec();
                    let at = b;
                    for (k, x) in blk.iter().enumerate() {
                        d.insert(at + k, *x);
                    }
                }
                "drop-block" => {
                    d.drain(a..a + bs);
                }
                "zero-block" => {
                    for x in &mut d[a..a + bs] {
                        *x = 0;
                    }
                }
                _ => {
                    if a == b {
                        return None;
                    }
                    for k in 0..bs {
                        d.swap(a + k, b + k);
                    }
                }
            }
            patch_size(&mut d);
        }
        _ => return None,
    }
    if d == v {
        return None;
    }
    Some(d)
}

fn enumerate_mutations(vic: &Victim, g: &Group, rng: &mut Rng, thorough: bool) -> Vec<Value> {
    let v = &vic.secured[vic.target];
    let n = v.len();
    let mut out = Vec::new();
    let h = parse_hdr(v);
    let is_opn = vic.mtype == "OPN";
    let recv_bits = match vic.recv {
        Recv::PairServer | Recv::FreshServer => g.sb,
        _ => g.cb,
    };
    let rsa_block = (recv_bits / 8) as usize;
    let enc_off = h.as_ref().map(|h| h.seq_off).unwrap_or(16);
    // ---- byte positions
    let exhaustive_limit = if is_opn {
        if thorough { 1400 } else { 0 }
    } else if thorough {
        9100
    } else {
        1200
    };
    let mut positions: Vec<usize> = Vec::new();
    if n <= exhaustive_limit {
        positions.extend(0..n);
    } else {
        let mut mark = vec![false; n];
        let mut add = |a: usize, b: usize| {
            for p in a..b.min(n) {
                mark[p] = true;
            }
        };
        add(0, 24);
        if let (true, Some(h)) = (is_opn, h.as_ref()) {
            add(h.uri_off, h.cert_off);
            add(h.cert_off, h.cert_off + 12);
            add(h.thumb_off.saturating_sub(8), h.seq_off);
            // edges of every RSA block
            let mut b = h.seq_off;
            while b < n {
                add(b, b + 3);
                add((b + rsa_block).saturating_sub(3), b + rsa_block);
                b += rsa_block.max(1);
            }
        } else {
            // padding, signature and the AES blocks around them
            add(n.saturating_sub(sym_sig_len(g.policy) + 48), n);
            add(24, 48);
        }
        let sample = if thorough { 600 } else if is_opn { 40 } else { 160 };
        for _ in 0..sample {
            let p = rng.usize(n);
            mark[p] = true;
        }
        positions.extend((0..n).filter(|p| mark[*p]));
    }
    for p in &positions {
        out.push(json!({"m": "xor", "pos": p, "val": 1 + rng.below(255)}));
    }
    // ---- every bit of the plain headers
    let hdr_bits_end = if is_opn { 20 } else { 24.min(n) };
    for p in 0..hdr_bits_end {
        for b in 0..8 {
            out.push(json!({"m": "bit", "pos": p, "bit": b}));
        }
    }
    if let (true, Some(h)) = (is_opn, h.as_ref()) {
        // length prefixes of certificate and thumbprint, the thumbprint itself
        for p in (h.cert_off..h.cert_off + 4).chain(h.thumb_off..h.seq_off) {
            for b in 0..8 {
                out.push(json!({"m": "bit", "pos": p, "bit": b}));
            }
        }
    } else {
        // every bit of the last bytes (signature resp. last cipher block)
        for p in n.saturating_sub(if thorough { 64 } else { 8 })..n {
            for b in 0..8 {
                out.push(json!({"m": "bit", "pos": p, "bit": b}));
            }
        }
    }
    // ---- truncation / extension
    let max_cut = if is_opn && !thorough { 3 } else { 33 };
    for t in 1..=max_cut {
        for patch in [false, true] {
            out.push(json!({"m": "trunc", "n": t, "patch": patch}));
            let fill = ["random", "zero", "repeat-last"][t % 3];
            out.push(json!({"m": "extend", "n": t, "patch": patch, "fill": fill}));
        }
    }
    if is_opn {
        for t in [rsa_block - 1, rsa_block, rsa_block + 1] {
            out.push(json!({"m": "trunc", "n": t, "patch": true}));
            out.push(json!({"m": "extend", "n": t, "patch": true, "fill": "random"}));
        }
    } else {
        for t in [sym_sig_len(g.policy), sym_sig_len(g.policy) + 16, 48, 64] {
            out.push(json!({"m": "trunc", "n": t, "patch": true}));
            out.push(json!({"m": "extend", "n": t, "patch": true, "fill": "random"}));
        }
    }
    // ---- a byte removed / inserted
    for p in [0usize, 3, 8, 12, 16, 24, n / 2, n - sym_sig_len(g.policy).min(n - 1) - 1, n - 1] {
        if p < n {
            out.push(json!({"m": "remove", "pos": p}));
            out.push(json!({"m": "insert", "pos": p, "val": rng.below(256)}));
        }
    }
    // ---- cipher block surgery
    let (bs, nblocks) = if is_opn {
        (rsa_block, (n - enc_off) / rsa_block.max(1))
    } else {
        (16usize, (n.saturating_sub(16)) / 16)
    };
    if nblocks >= 1 && (is_opn || g.mode == MessageSecurityMode::SignAndEncrypt) {
        let last = nblocks - 1;
        let mut pairs: Vec<(usize, usize)> = vec![(0, last), (last, 0), (0, 0)];
        if nblocks > 2 {
            pairs.push((1, last));
            pairs.push((nblocks / 2, 1));
        }
        for (i, j) in pairs {
            out.push(json!({"m": "dup-block", "bs": bs, "off": enc_off, "i": i, "j": j}));
            out.push(json!({"m": "swap-blocks", "bs": bs, "off": enc_off, "i": i, "j": j}));
            out.push(json!({"m": "drop-block", "bs": bs, "off": enc_off, "i": i, "j": j}));
            out.push(json!({"m": "zero-block", "bs": bs, "off": enc_off, "i": i, "j": j}));
        }
    }
    out
}

struct Tally {
    verify: u64,
    later: u64,
    panicked: u64,
    delivered: u64,
    baseline_ok: u64,
    baseline_broken: u64,
}

fn record(rep: &mut Report, t: &mut Tally, g: &Group, vic_name: &str, mtype: &str, what: &str, o: Outcome, case: &Value, role: &str) {
    match o {
        Outcome::Rejected(stage, _) => {
            if stage == "verify_and_remove_security" {
                t.verify += 1;
            } else {
                t.later += 1;
            }
        }
        Outcome::Panicked(_) => t.panicked += 1,
        Outcome::Delivered(m) => {
            t.delivered += 1;
            let name = format!("{:?}", m);
            let name = name.split('(').next().unwrap_or("?").to_string();
            rep.violation(
                format!("{}|{}|{}", what, mtype, role),
                format!(
                    "{} ({}) under {} {}: the receive path delivered a {} (case {})",
                    vic_name,
                    mtype,
                    pname(g.policy),
                    mname(g.mode),
                    name,
                    case
                ),
                case.clone(),
            );
        }
    }
}

/// Part 6 padding the way a conforming sender writes it (used by the foreign OPN sender)
pub fn opn_padding(body_len: usize, sig_len: usize, plain_block: usize, recv_key_bytes: usize) -> Vec<u8> {
    let min_pad = if recv_key_bytes > 256 { 2 } else { 1 };
    let enc = 8 + body_len + sig_len + min_pad;
    let pad = if enc % plain_block != 0 { plain_block - enc % plain_block } else { 0 };
    let total = pad + min_pad;
    if min_pad == 1 {
        vec![(total - 1) as u8; total]
    } else {
        let mut v = vec![((total - 2) & 0xff) as u8; total - 1];
        v.push(((total - 2) >> 8) as u8);
        v
    }
}

/// An OPN for `receiver_cert`'s owner, built by the harness's own sender: `header_cert` goes into the security
/// header, `signer` signs, `enc_to` receives the cipher text, `thumb_of` provides the thumbprint
#[allow(clippy::too_many_arguments)]
fn foreign_opn(
    policy: SecurityPolicy,
    channel_id: u32,
    seq: u32,
    body_msg: &SupportedMessage,
    header_cert: &Ident,
    signer: &Ident,
    enc_to: &X509,
    thumb_of: &X509,
) -> Option<Vec<u8>> {
    let thumb = thumb_of.thumbprint().value().to_vec();
    let header = opn_header(b'F', channel_id, Some(policy.to_uri().as_bytes()), Some(&header_cert.der), Some(&thumb));
    let mut plain = Vec::new();
    plain.extend_from_slice(&seq.to_le_bytes());
    plain.extend_from_slice(&1u32.to_le_bytes());
    let mut body = Vec::new();
    let _ = body_msg.node_id().encode(&mut body);
    let _ = body_msg.encode(&mut body);
    plain.extend_from_slice(&body);
    let recv_key = opcua::crypto::KeySize::size(&enc_to.public_key().ok()?);
    let pb = rsa_plain_block(policy, recv_key);
    plain.extend_from_slice(&opn_padding(body.len(), signer.key_bytes(), pb, recv_key));
    let key = signer.key();
    hostile_opn_secure(policy, &header, &plain, HostileSig::Valid(&key), enc_to)
}

fn unsecured_opn(channel_id: u32, seq: u32, body_msg: &SupportedMessage) -> Vec<u8> {
    let mut d = opn_header(b'F', channel_id, Some(SecurityPolicy::None.to_uri().as_bytes()), None, None);
    d.extend_from_slice(&seq.to_le_bytes());
    d.extend_from_slice(&1u32.to_le_bytes());
    let _ = body_msg.node_id().encode(&mut d);
    let _ = body_msg.encode(&mut d);
    patch_size(&mut d);
    d
}

fn run_group(args: &Args, rep: &mut Report, t: &mut Tally, g: &Group, counter: &mut usize, only: Option<&Value>) {
    let thorough = args.thorough();
    let mut rng = Rng::new(args.seed ^ 0xC08 ^ (g.nonce_seed << 8));
    let base = json!({"policy": pname(g.policy), "mode": mname(g.mode), "cbits": g.cb, "sbits": g.sb, "nonce_seed": g.nonce_seed});
    let mk_case = |extra: Value| -> Value {
        let mut c = base.clone();
        for (k, v) in extra.as_object().unwrap() {
            c[k] = v.clone();
        }
        c
    };
    let mut pair = match catch(|| open_pair(g.ids, g.policy, g.mode, g.cb, g.sb, g.nonce_seed, 8196, big_options())) {
        Ok(Ok(p)) => p,
        Ok(Err(e)) => {
            rep.inconclusive(format!("C08: cannot open {} {}: {}", pname(g.policy), mname(g.mode), e));
            return;
        }
        Err(p) => {
            rep.inconclusive(format!("C08: cannot open {} {}: panic {}", pname(g.policy), mname(g.mode), p.msg));
            return;
        }
    };
    let victims = match build_victims(g, &mut pair) {
        Ok(v) => v,
        Err(e) => {
            rep.inconclusive(format!("C08: cannot build victims for {} {}: {}", pname(g.policy), mname(g.mode), e));
            return;
        }
    };
    let mine = |counter: &mut usize| -> bool {
        *counter += 1;
        only.is_some() || *counter % args.shards == args.shard
    };
    let wanted = |kind: &str, name: &str, m: Option<&Value>| -> bool {
        match only {
            None => true,
            Some(o) => jstr(o, "kind") == kind && jstr(o, "victim") == name && m.map(|m| &o["mutation"] == m).unwrap_or(true),
        }
    };
    // ---------------- modified chunks
    for vic in &victims {
        let role = match vic.recv {
            Recv::PairServer | Recv::FreshServer => "server-receives",
            _ => "client-receives",
        };
        // the untouched victim must be delivered, otherwise "not delivered" says nothing
        let baseline = matches!(deliver(g, &mut pair, vic.recv, &vic.secured, vic.seq), Outcome::Delivered(_));
        if baseline {
            t.baseline_ok += 1;
        } else {
            t.baseline_broken += 1;
        }
        let v = &vic.secured[vic.target];
        let recv_bits = if role == "server-receives" { g.sb } else { g.cb };
        let regs = regions(v, g.policy, g.mode, (recv_bits / 8) as usize);
        let muts = enumerate_mutations(vic, g, &mut rng, thorough);
        for m in &muts {
            if !mine(counter) || !wanted("modified", vic.name, Some(m)) {
                continue;
            }
            let Some(bytes) = apply_mutation(v, m, (g.nonce_seed as u8) ^ (ju64(m, "n") as u8)) else {
                continue;
            };
            let mut case = mk_case(json!({"kind": "modified", "victim": vic.name, "mutation": m}));
            if bytes.len() <= 2048 {
                case["bytes"] = json!(hex(&bytes));
            }
            rep.begin_case(&case);
            let mut chunks = vic.secured.clone();
            chunks[vic.target] = bytes;
            let o = deliver(g, &mut pair, vic.recv, &chunks, vic.seq);
            let region = match jstr(m, "m") {
                "xor" | "bit" | "remove" | "insert" => region_of(&regs, ju64(m, "pos") as usize),
                _ => "-",
            };
            let mclass = match jstr(m, "m") {
                "trunc" | "extend" => format!(
                    "{}:{}:{}",
                    jstr(m, "m"),
                    match ju64(m, "n") {
                        1 => "1",
                        2..=15 => "lt-block",
                        16 => "block",
                        17..=33 => "gt-block",
                        _ => "large",
                    },
                    if m["patch"].as_bool().unwrap_or(false) { "patched" } else { "unpatched" }
                ),
                "dup-block" | "swap-blocks" | "drop-block" | "zero-block" => format!("{}:{}>{}", jstr(m, "m"), ju64(m, "i").min(2), ju64(m, "j").min(2)),
                other => other.to_string(),
            };
            rep.case(&format!(
                "{}|{}|{}|{}|{}|{}",
                vic.name,
                pname(g.policy),
                mname(g.mode),
                mclass,
                region,
                if baseline { "" } else { "baseline-broken" }
            ));
            rep.sample(case.clone());
            record(rep, t, g, vic.name, vic.mtype, &format!("modified-chunk-delivered|{}", jstr(m, "m")), o, &case, role);
        }
    }
    // ---------------- the same plain text under other symmetric keys
    let other_pairs: Vec<(&str, Result<Pair, String>)> = {
        let n = nonce_len(g.policy);
        let mut r = Rng::new(g.nonce_seed ^ 0x5EED_0C07);
        let cn = r.bytes(n);
        let sn = r.bytes(n);
        let c = g.ids.get(CLIENT_ID, g.cb);
        let s = g.ids.get(SERVER_ID, g.sb);
        let mk = |policy: SecurityPolicy, mode: MessageSecurityMode, cn: Vec<u8>, sn: Vec<u8>| -> Result<Pair, String> {
            let (c, s) = (c.clone()?, s.clone()?);
            let n2 = nonce_len(policy);
            let fit = |mut v: Vec<u8>| {
                v.resize(n2, 0x5a);
                v
            };
            let p = HsParams {
                policy,
                mode,
                client_nonce: fit(cn),
                server_nonce: fit(sn),
                channel_id: pair.client.secure_channel_id(),
                token_id: pair.client.token_id(),
                chunk_size: 8196,
                opts: big_options(),
            };
            match catch(|| handshake(&p, Some(&c), Some(&s))) {
                Ok(r) => r,
                Err(p) => Err(format!("panic {}", p.msg)),
            }
        };
        let mut flip_c = cn.clone();
        flip_c[0] ^= 1;
        let mut flip_s = sn.clone();
        let l = flip_s.len() - 1;
        flip_s[l] ^= 0x80;
        let other_mode = if g.mode == MessageSecurityMode::Sign { MessageSecurityMode::SignAndEncrypt } else { MessageSecurityMode::Sign };
        let other_policy = POLICIES[(POLICIES.iter().position(|p| *p == g.policy).unwrap_or(0) + 2) % POLICIES.len()];
        let other_policy = if policy_bits(other_policy).contains(&g.cb) && policy_bits(other_policy).contains(&g.sb) {
            other_policy
        } else {
            // stay inside the admissible key sizes of both policies: 2048 is admissible everywhere
            g.policy
        };
        let mut v = vec![
            ("client-nonce-one-bit", mk(g.policy, g.mode, flip_c, sn.clone())),
            ("server-nonce-one-bit", mk(g.policy, g.mode, cn.clone(), flip_s)),
            ("both-nonces-fresh", mk(g.policy, g.mode, r.bytes(n), r.bytes(n))),
            ("nonces-swapped", mk(g.policy, g.mode, sn.clone(), cn.clone())),
            ("same-keys-other-mode", mk(g.policy, other_mode, cn.clone(), sn.clone())),
        ];
        if other_policy != g.policy {
            v.push(("same-nonces-other-policy", mk(other_policy, g.mode, cn.clone(), sn.clone())));
        }
        v
    };
    let sym_msgs: Vec<(&'static str, SupportedMessage, usize)> = vec![
        ("msg-small", small_read(3), 8196),
        ("msg-large", write_msg(8000), 0),
        ("clo", CloseSecureChannelRequest { request_header: request_header(44) }.into(), 8196),
    ];
    for (how, other) in &other_pairs {
        let other = match other {
            Ok(p) => p,
            Err(e) => {
                rep.inconclusive(format!("C08: cannot open the foreign channel '{}': {}", how, e));
                continue;
            }
        };
        // "foreign" means other keys: policies that share hash and key lengths derive the same keys from the same
        // nonces (e.g. Basic256Sha256 and Aes256-Sha256-RsaPss), which is no change at all for a symmetric chunk
        if other.client.verif_keys().0 == pair.client.verif_keys().0 || other.server.verif_keys().0 == pair.server.verif_keys().0 {
            if *how == "same-keys-other-mode" {
                // deliberate: same keys, the chunk is secured for the other mode
            } else {
                rep.count("foreign_channel_with_identical_keys_skipped", 1);
                continue;
            }
        }
        for (name, msg, cs) in &sym_msgs {
            for to_server in [true, false] {
                if !mine(counter) || !wanted("foreign-keys", name, None) {
                    continue;
                }
                if let Some(o) = only {
                    if jstr(o, "how") != *how || o["to_server"].as_bool() != Some(to_server) {
                        continue;
                    }
                }
                let case = mk_case(json!({"kind": "foreign-keys", "victim": name, "how": how, "to_server": to_server}));
                rep.begin_case(&case);
                let seq = 77;
                let sender = if to_server { &other.client } else { &other.server };
                let wire = match catch(|| send_message(sender, seq, 5, *cs, msg)) {
                    Ok(Ok(w)) => w,
                    _ => {
                        rep.inconclusive(format!("C08: foreign channel '{}' cannot secure {}", how, name));
                        continue;
                    }
                };
                let recv = if to_server { Recv::PairServer } else { Recv::PairClient };
                let o = deliver(g, &mut pair, recv, &wire.secured, seq);
                rep.case(&format!("foreign-keys|{}|{}|{}|{}|{}", how, name, pname(g.policy), mname(g.mode), to_server));
                rep.sample(case.clone());
                let role = if to_server { "server-receives" } else { "client-receives" };
                record(rep, t, g, name, "MSG", &format!("foreign-keys-chunk-delivered|{}", how), o, &case, role);
            }
        }
    }
    // reflected: a chunk the receiver itself secured comes back to it
    for (name, msg, cs) in &sym_msgs {
        for to_server in [true, false] {
            if !mine(counter) || !wanted("reflected", name, None) {
                continue;
            }
            if let Some(o) = only {
                if o["to_server"].as_bool() != Some(to_server) {
                    continue;
                }
            }
            let case = mk_case(json!({"kind": "reflected", "victim": name, "to_server": to_server}));
            rep.begin_case(&case);
            let seq = 99;
            let sender = if to_server { &pair.server } else { &pair.client };
            let wire = match catch(|| send_message(sender, seq, 5, *cs, msg)) {
                Ok(Ok(w)) => w,
                _ => continue,
            };
            let recv = if to_server { Recv::PairServer } else { Recv::PairClient };
            let o = deliver(g, &mut pair, recv, &wire.secured, seq);
            rep.case(&format!("reflected|{}|{}|{}|{}", name, pname(g.policy), mname(g.mode), to_server));
            rep.sample(case.clone());
            let role = if to_server { "server-receives" } else { "client-receives" };
            record(rep, t, g, name, "MSG", "reflected-chunk-delivered", o, &case, role);
        }
    }
    // ---------------- OPN under another certificate / key
    let (Ok(a), Ok(b), Ok(c3)) = (g.ids.get(CLIENT_ID, g.cb), g.ids.get(SERVER_ID, g.sb), g.ids.get(THIRD_ID, g.cb)) else {
        rep.inconclusive("C08: identities missing");
        return;
    };
    let c3s = g.ids.get(THIRD_ID, g.sb).unwrap_or_else(|_| c3.clone());
    for to_server in [true, false] {
        // legitimate sender / receiver of this direction and the third party of the sender's key size
        let (legit, receiver, third, recv_established, recv_first) = if to_server {
            (&a, &b, &c3, Recv::PairServer, Recv::FreshServer)
        } else {
            (&b, &a, &c3s, Recv::PairClient, Recv::PreOpenClient)
        };
        let role = if to_server { "server-receives" } else { "client-receives" };
        let chan = pair.client.secure_channel_id();
        let n = nonce_len(g.policy);
        let body = if to_server {
            opn_request(g.mode, true, &payload(n, 5), false)
        } else {
            opn_response(chan, pair.client.token_id() + 1, &payload(n, 6), false)
        };
        // name, header cert, signer, encrypted to, thumbprint of, must the receiver take it?
        let forms: Vec<(&str, &Ident, &Ident, &X509, &X509, bool)> = vec![
            ("control-legitimate-sender", legit, legit, &receiver.cert, &receiver.cert, true),
            ("signed-by-other-key", legit, third, &receiver.cert, &receiver.cert, false),
            ("header-certificate-replaced", third, legit, &receiver.cert, &receiver.cert, false),
            ("encrypted-to-other-receiver", legit, legit, &third.cert, &receiver.cert, false),
            ("thumbprint-of-other-certificate", legit, legit, &receiver.cert, &third.cert, false),
            ("other-identity-self-consistent", third, third, &receiver.cert, &receiver.cert, false),
        ];
        for (form, hc, signer, enc_to, thumb_of, is_control) in forms {
            for recv in [recv_established, recv_first] {
                if !mine(counter) || !wanted("foreign-opn", form, None) {
                    continue;
                }
                if let Some(o) = only {
                    if o["to_server"].as_bool() != Some(to_server) || jstr(o, "receiver") != format!("{:?}", recv) {
                        continue;
                    }
                }
                // a server that has not seen an OPN yet has no peer to compare with: a self-consistent OPN of anybody
                // is simply a new client
                let first_contact = recv == Recv::FreshServer;
                let case = mk_case(json!({"kind": "foreign-opn", "victim": form, "to_server": to_server, "receiver": format!("{:?}", recv)}));
                rep.begin_case(&case);
                let seq = 1;
                let Some(bytes) = foreign_opn(g.policy, if first_contact { 0 } else { chan }, seq, &body, hc, signer, enc_to, thumb_of) else {
                    rep.inconclusive(format!("C08: the harness sender could not build OPN form {}", form));
                    continue;
                };
                let o = deliver(g, &mut pair, recv, &[bytes], seq);
                rep.case(&format!("foreign-opn|{}|{}|{}|{}|{:?}", form, pname(g.policy), mname(g.mode), to_server, recv));
                rep.sample(case.clone());
                if is_control {
                    // the harness's own sender must be understood by the real receiver, otherwise the forms built with
                    // it prove nothing
                    if !matches!(o, Outcome::Delivered(_)) {
                        let why = match o {
                            Outcome::Rejected(s, e) => format!("{} {}", s, e),
                            Outcome::Panicked(p) => format!("panic {}", p.msg),
                            _ => String::new(),
                        };
                        rep.inconclusive(format!(
                            "C08: control OPN from the harness sender was not accepted ({} {} {:?}): {}",
                            pname(g.policy),
                            role,
                            recv,
                            why
                        ));
                    } else {
                        rep.count("control_opn_from_harness_sender_accepted", 1);
                    }
                    continue;
                }
                if form == "other-identity-self-consistent" && first_contact {
                    // nothing established to be "different" from; recorded, not judged
                    rep.count("first_contact_opn_of_another_identity_not_judged", 1);
                    continue;
                }
                let what = if form == "other-identity-self-consistent" {
                    "opn-of-other-identity-delivered-on-established-channel".to_string()
                } else {
                    format!("foreign-opn-delivered|{}", form)
                };
                record(rep, t, g, form, "OPN", &what, o, &case, role);
            }
        }
        // an OPN without any security on a channel that is in Sign / SignAndEncrypt
        let unsecured_receivers = if to_server { vec![recv_established] } else { vec![recv_established, recv_first] };
        for recv in unsecured_receivers {
            if !mine(counter) || !wanted("foreign-opn", "unsecured-opn", None) {
                continue;
            }
            if let Some(o) = only {
                if o["to_server"].as_bool() != Some(to_server) || jstr(o, "receiver") != format!("{:?}", recv) {
                    continue;
                }
            }
            let case = mk_case(json!({"kind": "foreign-opn", "victim": "unsecured-opn", "to_server": to_server, "receiver": format!("{:?}", recv)}));
            rep.begin_case(&case);
            let bytes = unsecured_opn(chan, 1, &body);
            let o = deliver(g, &mut pair, recv, &[bytes], 1);
            rep.case(&format!("foreign-opn|unsecured|{}|{}|{}|{:?}", pname(g.policy), mname(g.mode), to_server, recv));
            rep.sample(case.clone());
            record(rep, t, g, "unsecured-opn", "OPN", "unsecured-opn-delivered-on-secured-channel", o, &case, role);
        }
    }
}

// ---------------------------------------------------------------------------------------------
// channels whose security token has been renewed
//
// A renewed channel holds two key sets per direction for a while (those of the previous and of the current
// token) and picks the one to verify with by the token id the chunk names. The histories below take a real pair
// through one and two Renew exchanges and present, at every stage, everything that was ever recorded on the wire
// to both ends, plus chunks secured by foreign senders under every combination of (token id named, keys used).
// ---------------------------------------------------------------------------------------------

#[derive(Clone, Copy, PartialEq, Debug)]
enum Step {
    /// the real OPN Renew exchange with fresh nonces; the server hands out token id + 1
    Renew,
    /// the client sends a message under its current token and the server takes it
    UseC2S,
    /// the server sends a message under the new token and the client takes it
    UseS2C,
    /// the case batch, with the name of the state the pair is in
    Cases(&'static str),
}

const HISTORIES: [(&str, &[Step]); 2] = [
    (
        "renew-use-renew-use",
        &[
            Step::Cases("opened"),
            Step::Renew,
            Step::Cases("renewed-once|new-token-unused"),
            Step::UseC2S,
            Step::Cases("renewed-once|new-token-used-by-client-only"),
            Step::UseS2C,
            Step::Cases("renewed-once|new-token-used-by-both"),
            Step::Renew,
            Step::Cases("renewed-twice|new-token-unused"),
            Step::UseC2S,
            Step::UseS2C,
            Step::Cases("renewed-twice|new-token-used-by-both"),
        ],
    ),
    (
        "renew-renew-use",
        &[
            Step::Renew,
            Step::Renew,
            Step::Cases("renewed-twice-back-to-back|new-token-unused"),
            Step::UseC2S,
            Step::UseS2C,
            Step::Cases("renewed-twice-back-to-back|new-token-used-by-both"),
        ],
    ),
];

/// One security token of the pair: its id and the nonces its keys were derived from
struct Era {
    token: u32,
    client_nonce: Vec<u8>,
    server_nonce: Vec<u8>,
}

/// A message as it was seen on the wire at some point of the history
struct Rec {
    name: &'static str,
    from_client: bool,
    /// the token id the chunks name, read from the wire
    token: u32,
    secured: Vec<Vec<u8>>,
    seq: u32,
}

/// What the harness knows about one end: its current token and the older tokens that the other side has not been
/// seen to supersede by using a newer one (Part 6 6.7.3: those may still be accepted)
struct View {
    current: u32,
    unsuperseded: Vec<u32>,
}

fn token_relation(view: &View, issued: &[u32], token: u32) -> &'static str {
    if token == view.current {
        "current-token"
    } else if view.unsuperseded.last() == Some(&token) {
        "previous-token-still-valid"
    } else if view.unsuperseded.contains(&token) {
        "older-token-not-superseded-by-use"
    } else if issued.contains(&token) {
        "superseded-token"
    } else {
        "never-issued-token"
    }
}

/// The Renew exchange as the client's SecureChannelState (begin_/end_issue_or_renew_secure_channel) and the server's
/// SecureChannelService::open_secure_channel drive it: both OPN messages go through the real send and receive path
fn renew_pair(g: &Group, pair: &mut Pair, client_nonce: &[u8], server_nonce: &[u8]) -> Result<(), String> {
    pair.client.set_local_nonce(client_nonce);
    let req_msg = opn_request(g.mode, true, client_nonce, false);
    let req_id = pair.next_req;
    pair.next_req += 1;
    let seq = pair.c2s_seq;
    let wire = send_message(&pair.client, seq, req_id, 8196, &req_msg).map_err(|f| format!("client could not send the Renew: {} {}", f.stage, f.status))?;
    pair.c2s_seq += wire.secured.len() as u32;
    let (rx, _, decoded) =
        receive_message(&mut pair.server, seq, &wire.secured).map_err(|f| format!("server could not receive the Renew: {} {}", f.stage, f.status))?;
    let req = match &decoded {
        SupportedMessage::OpenSecureChannelRequest(r) => (**r).clone(),
        _ => return Err("server decoded something else than an OpenSecureChannelRequest".into()),
    };
    let channel_id = pair.server.secure_channel_id();
    let token = pair.server.token_id() + 1;
    server_accept_open(&mut pair.server, &rx[0], &req, server_nonce, channel_id, token)?;
    let resp_msg = opn_response(channel_id, token, server_nonce, false);
    let seq = pair.s2c_seq;
    let wire = send_message(&pair.server, seq, req_id, 8196, &resp_msg).map_err(|f| format!("server could not send the Renew response: {} {}", f.stage, f.status))?;
    pair.s2c_seq += wire.secured.len() as u32;
    let (_, _, decoded) =
        receive_message(&mut pair.client, seq, &wire.secured).map_err(|f| format!("client could not receive the Renew response: {} {}", f.stage, f.status))?;
    let resp = match &decoded {
        SupportedMessage::OpenSecureChannelResponse(r) => (**r).clone(),
        _ => return Err("client decoded something else than an OpenSecureChannelResponse".into()),
    };
    client_accept_open(&mut pair.client, &resp)
}

/// A sender outside the pair: a real SecureChannel keyed through the setters and derive_keys
fn keyed_sender(g: &Group, role: Role, channel_id: u32, token: u32, local_nonce: &[u8], remote_nonce: &[u8]) -> SecureChannel {
    let mut ch = new_channel(role, None, big_options());
    ch.set_security_policy(g.policy);
    ch.set_security_mode(g.mode);
    ch.set_secure_channel_id(channel_id);
    ch.set_local_nonce(local_nonce);
    ch.set_remote_nonce(remote_nonce);
    ch.set_token_id(token);
    ch.derive_keys();
    ch
}

/// Both ends send the messages once more; what names a (sender, token) combination not seen yet is kept
fn record_sends(pair: &mut Pair, recs: &mut Vec<Rec>, msgs: &[(&'static str, SupportedMessage, usize)]) -> Result<(), String> {
    for from_client in [true, false] {
        for (name, msg, cs) in msgs {
            let (sender, seq) = if from_client { (&pair.client, pair.c2s_seq) } else { (&pair.server, pair.s2c_seq) };
            let wire = send_message(sender, seq, pair.next_req, *cs, msg).map_err(|f| format!("recording {}: {} {}", name, f.stage, f.status))?;
            let token = parse_hdr(&wire.secured[0]).and_then(|h| h.token_id).ok_or_else(|| "recorded chunk has no token id".to_string())?;
            if recs.iter().any(|r| r.name == *name && r.from_client == from_client && r.token == token) {
                continue;
            }
            pair.next_req += 1;
            if from_client {
                pair.c2s_seq += wire.secured.len() as u32;
            } else {
                pair.s2c_seq += wire.secured.len() as u32;
            }
            recs.push(Rec {
                name,
                from_client,
                token,
                secured: wire.secured,
                seq,
            });
        }
    }
    Ok(())
}

fn covers(only: Option<&Value>, case: &Value) -> bool {
    match only {
        None => true,
        Some(o) => case.as_object().map(|m| m.iter().all(|(k, v)| &o[k] == v)).unwrap_or(false),
    }
}

fn run_renewed(args: &Args, rep: &mut Report, t: &mut Tally, g: &Group, counter: &mut usize, only: Option<&Value>) {
    if let Some(o) = only {
        if !jstr(o, "kind").starts_with("renewed-") {
            return;
        }
    }
    let thorough = args.thorough();
    let base = json!({"policy": pname(g.policy), "mode": mname(g.mode), "cbits": g.cb, "sbits": g.sb, "nonce_seed": g.nonce_seed});
    let mk_case = |extra: Value| -> Value {
        let mut c = base.clone();
        for (k, v) in extra.as_object().unwrap() {
            c[k] = v.clone();
        }
        c
    };
    let mine = |counter: &mut usize| -> bool {
        *counter += 1;
        only.is_some() || *counter % args.shards == args.shard
    };
    let msgs: Vec<(&'static str, SupportedMessage, usize)> = vec![
        ("msg-small", small_read(3), 8196),
        ("msg-two-chunks", write_msg(9000), 8196),
        ("clo", CloseSecureChannelRequest { request_header: request_header(44) }.into(), 8196),
    ];
    let n = nonce_len(g.policy);
    for (hi, (history, steps)) in HISTORIES.iter().enumerate() {
        if let Some(o) = only {
            if jstr(o, "history") != *history {
                continue;
            }
        }
        let mut rng = Rng::new(g.nonce_seed.wrapping_mul(0x9E37_79B9) ^ 0xC08_4E ^ ((hi as u64) << 40));
        let fail = |rep: &mut Report, what: String| {
            rep.inconclusive(format!("C08: history {} under {} {}: {}", history, pname(g.policy), mname(g.mode), what));
        };
        let mut pair = match catch(|| open_pair(g.ids, g.policy, g.mode, g.cb, g.sb, g.nonce_seed ^ 0x4E00 ^ hi as u64, 8196, big_options())) {
            Ok(Ok(p)) => p,
            Ok(Err(e)) => {
                fail(rep, format!("cannot open: {}", e));
                continue;
            }
            Err(p) => {
                fail(rep, format!("cannot open: panic {}", p.msg));
                continue;
            }
        };
        let channel_id = pair.client.secure_channel_id();
        let mut eras = vec![Era {
            token: pair.client.token_id(),
            client_nonce: pair.client.local_nonce().to_vec(),
            server_nonce: pair.client.remote_nonce().to_vec(),
        }];
        let mut client_view = View {
            current: pair.client.token_id(),
            unsuperseded: vec![],
        };
        let mut server_view = View {
            current: pair.server.token_id(),
            unsuperseded: vec![],
        };
        let mut recs: Vec<Rec> = Vec::new();
        if let Err(e) = record_sends(&mut pair, &mut recs, &msgs) {
            fail(rep, e);
            continue;
        }
        let mut renewals = 0;
        'steps: for step in steps.iter() {
            match *step {
                Step::Renew => {
                    let (cn, sn) = (rng.bytes(n), rng.bytes(n));
                    match catch(|| renew_pair(g, &mut pair, &cn, &sn)) {
                        Ok(Ok(())) => {}
                        Ok(Err(e)) => {
                            fail(rep, format!("renewal {}: {}", renewals + 1, e));
                            break 'steps;
                        }
                        Err(p) => {
                            fail(rep, format!("renewal {}: panic {}", renewals + 1, p.msg));
                            break 'steps;
                        }
                    }
                    renewals += 1;
                    let token = pair.client.token_id();
                    if token != pair.server.token_id() || eras.iter().any(|e| e.token == token) {
                        fail(rep, "the ends disagree about the renewed token".into());
                        break 'steps;
                    }
                    eras.push(Era {
                        token,
                        client_nonce: cn,
                        server_nonce: sn,
                    });
                    for v in [&mut client_view, &mut server_view] {
                        let old = v.current;
                        v.unsuperseded.push(old);
                        v.current = token;
                    }
                    rep.count("renewals_performed", 1);
                    // the client secures with the new token from here on; those chunks are on the wire too
                    if let Err(e) = record_sends(&mut pair, &mut recs, &msgs) {
                        fail(rep, e);
                        break 'steps;
                    }
                }
                Step::UseC2S | Step::UseS2C => {
                    // the positive control: an untouched chunk of the peer under the current token is taken
                    let to_server = *step == Step::UseC2S;
                    let (sender, seq) = if to_server { (&pair.client, pair.c2s_seq) } else { (&pair.server, pair.s2c_seq) };
                    let wire = match catch(|| send_message(sender, seq, pair.next_req, 8196, &msgs[0].1)) {
                        Ok(Ok(w)) => w,
                        _ => {
                            fail(rep, format!("{:?}: cannot send", step));
                            break 'steps;
                        }
                    };
                    pair.next_req += 1;
                    if to_server {
                        pair.c2s_seq += 1;
                    } else {
                        pair.s2c_seq += 1;
                    }
                    let view = if to_server { &mut server_view } else { &mut client_view };
                    let named = parse_hdr(&wire.secured[0]).and_then(|h| h.token_id);
                    if named != Some(view.current) {
                        fail(rep, format!("{:?}: the sender names token {:?}, the current one is {}", step, named, view.current));
                        break 'steps;
                    }
                    let recv = if to_server { Recv::PairServer } else { Recv::PairClient };
                    match deliver(g, &mut pair, recv, &wire.secured, seq) {
                        Outcome::Delivered(_) => {
                            t.baseline_ok += 1;
                            rep.count("current_token_chunk_of_the_peer_delivered_on_renewed_channel", 1);
                        }
                        other => {
                            t.baseline_broken += 1;
                            let why = match other {
                                Outcome::Rejected(s, e) => format!("{} {}", s, e),
                                Outcome::Panicked(p) => format!("panic {}", p.msg),
                                _ => String::new(),
                            };
                            fail(rep, format!("{:?} after {} renewal(s): an untouched chunk of the peer under the current token was not accepted ({}); the later states cannot be reached", step, renewals, why));
                            break 'steps;
                        }
                    }
                    view.unsuperseded.clear();
                    if let Err(e) = record_sends(&mut pair, &mut recs, &msgs) {
                        fail(rep, e);
                        break 'steps;
                    }
                    continue;
                }
                Step::Cases(stage) => {
                    let issued: Vec<u32> = eras.iter().map(|e| e.token).collect();
                    // ---------------- everything recorded so far, to both ends
                    for to_server in [true, false] {
                        let (recv, role, receiver) = if to_server { (Recv::PairServer, "server-receives", "server") } else { (Recv::PairClient, "client-receives", "client") };
                        let view = if to_server { &server_view } else { &client_view };
                        for r in &recs {
                            let reflected = r.from_client != to_server;
                            let rel = token_relation(view, &issued, r.token);
                            // a current-token chunk of the peer is the Use step of the history: taking it ends the validity
                            // of the older tokens, so it is only presented where there is nothing left to end
                            if !reflected && rel == "current-token" && !view.unsuperseded.is_empty() {
                                continue;
                            }
                            let kind = if reflected { "renewed-reflected" } else { "renewed-replayed" };
                            let case = mk_case(json!({"kind": kind, "history": history, "stage": stage, "receiver": receiver, "victim": r.name, "names_token": r.token, "relation": rel}));
                            if mine(counter) && covers(only, &case) {
                                rep.begin_case(&case);
                                let o = deliver(g, &mut pair, recv, &r.secured, r.seq);
                                rep.case(&format!("{}|{}|{}|{}|{}|{}|{}|{}", kind, history, stage, receiver, rel, r.name, pname(g.policy), mname(g.mode)));
                                rep.sample(case.clone());
                                let mtype = if r.name == "clo" { "CLO" } else { "MSG" };
                                if reflected {
                                    record(rep, t, g, r.name, mtype, &format!("reflected-chunk-delivered|{}", rel), o, &case, role);
                                } else {
                                    match rel {
                                        "current-token" => {
                                            if matches!(o, Outcome::Delivered(_)) {
                                                t.baseline_ok += 1;
                                            } else {
                                                t.baseline_broken += 1;
                                            }
                                        }
                                        "superseded-token" => record(rep, t, g, r.name, mtype, "chunk-under-superseded-token-delivered", o, &case, role),
                                        _ => {
                                            // the peer's own chunk under a token that may still be valid: taking it is permitted
                                            if matches!(o, Outcome::Delivered(_)) {
                                                rep.count("older_token_chunk_of_the_peer_delivered_while_not_superseded", 1);
                                            } else {
                                                rep.count("older_token_chunk_of_the_peer_not_delivered_while_not_superseded", 1);
                                            }
                                        }
                                    }
                                }
                            }
                            // ---------------- the byte-level modifications on a chunk under an older, still admissible token
                            let modify_here = !reflected && r.name == "msg-small" && rel == "previous-token-still-valid" && (thorough || stage == "renewed-once|new-token-unused");
                            if modify_here {
                                let vic = Victim {
                                    name: r.name,
                                    mtype: "MSG",
                                    secured: r.secured.clone(),
                                    target: 0,
                                    recv,
                                    seq: r.seq,
                                };
                                let baseline = matches!(deliver(g, &mut pair, recv, &r.secured, r.seq), Outcome::Delivered(_));
                                let v = &vic.secured[0];
                                let regs = regions(v, g.policy, g.mode, 0);
                                for m in &enumerate_mutations(&vic, g, &mut rng, thorough) {
                                    let mut case = mk_case(json!({"kind": "renewed-modified", "history": history, "stage": stage, "receiver": receiver, "victim": r.name, "names_token": r.token, "relation": rel, "mutation": m}));
                                    if !mine(counter) || !covers(only, &case) {
                                        continue;
                                    }
                                    let Some(bytes) = apply_mutation(v, m, (g.nonce_seed as u8) ^ (ju64(m, "n") as u8)) else {
                                        continue;
                                    };
                                    case["bytes"] = json!(hex(&bytes));
                                    rep.begin_case(&case);
                                    let o = deliver(g, &mut pair, recv, &[bytes], r.seq);
                                    let region = match jstr(m, "m") {
                                        "xor" | "bit" | "remove" | "insert" => region_of(&regs, ju64(m, "pos") as usize),
                                        _ => "-",
                                    };
                                    rep.case(&format!(
                                        "renewed-modified|{}|{}|{}|{}|{}|{}|{}",
                                        stage,
                                        receiver,
                                        pname(g.policy),
                                        mname(g.mode),
                                        jstr(m, "m"),
                                        region,
                                        if baseline { "" } else { "untouched-not-taken" }
                                    ));
                                    rep.sample(case.clone());
                                    record(rep, t, g, r.name, "MSG", &format!("modified-chunk-delivered|{}|{}", jstr(m, "m"), rel), o, &case, role);
                                }
                            }
                        }
                        // ---------------- foreign senders: every token id under every key set
                        let mut named: Vec<u32> = issued.clone();
                        let top = *issued.iter().max().unwrap_or(&0);
                        for x in [0u32, issued[0].wrapping_sub(1), top + 1, top + 1000, u32::MAX] {
                            if !named.contains(&x) {
                                named.push(x);
                            }
                        }
                        let unrelated = (rng.bytes(n), rng.bytes(n));
                        let sender_role = || if to_server { Role::Client } else { Role::Server };
                        // (label, era the keys belong to, client nonce, server nonce, the receiver's own keys?)
                        let mut key_sets: Vec<(String, Option<u32>, &[u8], &[u8], bool)> = vec![("keys-of-unrelated-nonces".to_string(), None, &unrelated.0, &unrelated.1, false)];
                        for e in &eras {
                            let rel = token_relation(view, &issued, e.token);
                            key_sets.push((format!("peer-keys-of-{}", rel), Some(e.token), &e.client_nonce, &e.server_nonce, false));
                            key_sets.push((format!("own-keys-of-{}", rel), Some(e.token), &e.client_nonce, &e.server_nonce, true));
                        }
                        let fmsgs = if thorough { &msgs[..] } else { &msgs[..1] };
                        for (klabel, kera, cn, sn, own) in &key_sets {
                            for tok in &named {
                                if !*own && *kera == Some(*tok) {
                                    // the peer's keys of a token under that token's id: that is the peer's genuine chunk
                                    continue;
                                }
                                let nrel = token_relation(view, &issued, *tok);
                                for (name, msg, cs) in fmsgs {
                                    let case = mk_case(json!({"kind": "renewed-foreign-keys", "history": history, "stage": stage, "receiver": receiver, "victim": name, "names_token": tok, "relation": nrel, "keys": klabel, "keys_of_token": kera}));
                                    if !mine(counter) || !covers(only, &case) {
                                        continue;
                                    }
                                    rep.begin_case(&case);
                                    // the sender's local keys are derived from (secret = remote nonce, seed = local nonce)
                                    let (local, remote) = match (to_server, *own) {
                                        (true, false) | (false, true) => (*cn, *sn),
                                        _ => (*sn, *cn),
                                    };
                                    let seq = 77;
                                    let wire = match catch(|| {
                                        let sender = keyed_sender(g, sender_role(), channel_id, *tok, local, remote);
                                        send_message(&sender, seq, 5, *cs, msg)
                                    }) {
                                        Ok(Ok(w)) => w,
                                        _ => {
                                            rep.inconclusive(format!("C08: a foreign sender with {} cannot secure {}", klabel, name));
                                            continue;
                                        }
                                    };
                                    if parse_hdr(&wire.secured[0]).and_then(|h| h.token_id) != Some(*tok) {
                                        rep.inconclusive("C08: the foreign sender did not name the token id it was given");
                                        continue;
                                    }
                                    let o = deliver(g, &mut pair, recv, &wire.secured, seq);
                                    rep.case(&format!("renewed-foreign-keys|{}|{}|{}|{}|names-{}|{}|{}|{}", history, stage, receiver, klabel, nrel, name, pname(g.policy), mname(g.mode)));
                                    rep.sample(case.clone());
                                    let mtype = if *name == "clo" { "CLO" } else { "MSG" };
                                    record(rep, t, g, name, mtype, &format!("foreign-keys-chunk-delivered|{}|names-{}", klabel, nrel), o, &case, role);
                                }
                            }
                        }
                    }
                }
            }
        }
    }
}

pub fn c08(args: &Args, rep: &mut Report) {
    let ids = Idents::new();
    let mut t = Tally {
        verify: 0,
        later: 0,
        panicked: 0,
        delivered: 0,
        baseline_ok: 0,
        baseline_broken: 0,
    };
    let mut counter = 0usize;
    if let Some(path) = &args.replay {
        match read_replay(path) {
            Some(case) => {
                let g = Group {
                    policy: pfrom(jstr(&case, "policy")),
                    mode: mfrom(jstr(&case, "mode")),
                    cb: ju64(&case, "cbits") as u32,
                    sb: ju64(&case, "sbits") as u32,
                    nonce_seed: ju64(&case, "nonce_seed"),
                    ids: &ids,
                };
                run_group(args, rep, &mut t, &g, &mut counter, Some(&case));
                run_renewed(args, rep, &mut t, &g, &mut counter, Some(&case));
                if rep.evaluations == 0 {
                    rep.inconclusive("replay case not found among the regenerated cases");
                }
            }
            None => rep.inconclusive("cannot read replay file"),
        }
        return;
    }
    let mut gi = 0u64;
    for p in POLICIES {
        for m in [MessageSecurityMode::Sign, MessageSecurityMode::SignAndEncrypt] {
            gi += 1;
            let bits = policy_bits(p);
            let mut combos = vec![(bits[((gi + args.seed) % 2) as usize], bits[((gi / 2 + args.seed + 1) % 2) as usize])];
            if args.thorough() {
                combos.push((bits[((gi + args.seed + 1) % 2) as usize], bits[((gi / 2 + args.seed) % 2) as usize]));
            }
            for (cb, sb) in combos {
                let g = Group {
                    policy: p,
                    mode: m,
                    cb,
                    sb,
                    nonce_seed: args.seed.wrapping_mul(7919) + gi * 16 + (cb / 1024) as u64,
                    ids: &ids,
                };
                run_group(args, rep, &mut t, &g, &mut counter, None);
                run_renewed(args, rep, &mut t, &g, &mut counter, None);
            }
        }
    }
    rep.count("rejected_by_verify_and_remove_security", t.verify);
    rep.count("verify_ok_but_rejected_by_validate_or_decode", t.later);
    rep.count("rejected_by_panic", t.panicked);
    rep.count("delivered", t.delivered);
    rep.count("untouched_victims_delivered", t.baseline_ok);
    rep.count("untouched_victims_not_delivered", t.baseline_broken);
    if t.later > 0 {
        rep.note(format!(
            "{} modified / foreign chunks passed verify_and_remove_security and were stopped only by validate_chunks or decode",
            t.later
        ));
    }
    if t.panicked > 0 {
        rep.note(format!("{} cases ended in a panic of the receive path (not delivered; see C09)", t.panicked));
    }
}
