//! C09: the secure-channel receive path is total on arbitrary peer bytes.
//!
//! Receivers are real SecureChannels in the states a client / server channel goes through. Inputs are built by a
//! hostile peer: raw bytes, structure-aware malformed headers, and - because the peer of a secured channel holds
//! the keys - chunks that are *correctly* signed and encrypted around malformed contents. Each input runs through
//! verify_and_remove_security, chunk_info, validate_chunks and Chunker::decode under catch_unwind. The only oracle is
//! "no panic"; the result (chunk / message / which error) only feeds the distinct-shape count.
use crate::c08::{opn_padding, small_read};
use crate::common::*;
use crate::p_chan::*;
use opcua::core::comms::chunker::Chunker;
use opcua::core::comms::message_chunk::MessageChunk;
use opcua::core::comms::secure_channel::{Role, SecureChannel};
use opcua::core::supported_message::SupportedMessage;
use opcua::crypto::SecurityPolicy;
use opcua::types::service_types::CloseSecureChannelRequest;
use opcua::types::{BinaryEncoder, ByteString, DecodingOptions, MessageSecurityMode};
use serde_json::{json, Value};
use std::collections::HashMap;

// ---------------------------------------------------------------------------------------------
// receivers
// ---------------------------------------------------------------------------------------------

fn recv_state(role: &str, policy: SecurityPolicy, mode: MessageSecurityMode, keys: bool, own: u32, remote: bool) -> Value {
    json!({"role": role, "policy": pname(policy), "mode": mname(mode), "keys": keys, "own": own, "remote": remote})
}

fn state_class(st: &Value) -> String {
    let policy = jstr(st, "policy");
    let shape = if policy == "None" {
        if ju64(st, "own") == 0 { "none-no-own-cert" } else { "none" }
    } else if st["keys"].as_bool().unwrap_or(false) {
        "keyed"
    } else {
        "policy-set-no-keys"
    };
    format!("{}:{}:{}:{}", jstr(st, "role"), shape, if policy == "None" { "" } else { policy }, jstr(st, "mode"))
}

fn peer_bits(own: u32) -> u32 {
    if own == 0 { 2048 } else { own }
}

fn make_receiver(ids: &Idents, st: &Value) -> Result<SecureChannel, String> {
    let client = jstr(st, "role") == "client";
    let policy = pfrom(jstr(st, "policy"));
    let mode = mfrom(jstr(st, "mode"));
    let own = ju64(st, "own") as u32;
    let ident = if own > 0 { Some(ids.get(if client { CLIENT_ID } else { SERVER_ID }, own)?) } else { None };
    // the library's default decoding options: these are what a deployed channel runs with
    let mut ch = new_channel(if client { Role::Client } else { Role::Server }, ident.as_deref(), DecodingOptions::default());
    ch.set_security_policy(policy);
    ch.set_security_mode(mode);
    if st["remote"].as_bool().unwrap_or(false) {
        let peer = ids.get(if client { SERVER_ID } else { CLIENT_ID }, peer_bits(own))?;
        let _ = ch.set_remote_cert_from_byte_string(&ByteString::from(peer.der.clone()));
    }
    ch.set_secure_channel_id(7);
    ch.set_token_id(3);
    if st["keys"].as_bool().unwrap_or(false) {
        let n = nonce_len(policy);
        ch.set_local_nonce(&payload(n, 11));
        ch.set_remote_nonce(&payload(n, 12));
        ch.derive_keys();
    }
    Ok(ch)
}

struct Receivers<'a> {
    ids: &'a Idents,
    cache: HashMap<String, SecureChannel>,
}

impl<'a> Receivers<'a> {
    fn get(&mut self, st: &Value) -> Result<&mut SecureChannel, String> {
        let key = st.to_string();
        if !self.cache.contains_key(&key) {
            let ch = make_receiver(self.ids, st)?;
            self.cache.insert(key.clone(), ch);
        }
        Ok(self.cache.get_mut(&key).unwrap())
    }
}

// ---------------------------------------------------------------------------------------------
// hostile inputs
// ---------------------------------------------------------------------------------------------

fn body_of(msg: &SupportedMessage) -> Vec<u8> {
    let mut v = Vec::new();
    let _ = msg.node_id().encode(&mut v);
    let _ = msg.encode(&mut v);
    v
}

/// A plain symmetric chunk: header, token, sequence header, body and - when it is going to be encrypted - Part 6 padding
#[allow(clippy::too_many_arguments)]
fn sym_plain(mtype: &[u8], fin: u8, chan: u32, token: u32, seq: u32, req: u32, body: &[u8], policy: SecurityPolicy, encrypt: bool) -> Vec<u8> {
    let mut d = Vec::new();
    d.extend_from_slice(&mtype[..3]);
    d.push(fin);
    d.extend_from_slice(&0u32.to_le_bytes());
    d.extend_from_slice(&chan.to_le_bytes());
    d.extend_from_slice(&token.to_le_bytes());
    d.extend_from_slice(&seq.to_le_bytes());
    d.extend_from_slice(&req.to_le_bytes());
    d.extend_from_slice(body);
    if encrypt {
        let sig = sym_sig_len(policy);
        let mut p = 1;
        while (8 + body.len() + p + sig) % 16 != 0 {
            p += 1;
        }
        d.extend(std::iter::repeat((p - 1) as u8).take(p));
    }
    d
}

fn remote_keys(ch: &SecureChannel) -> Option<(Vec<u8>, Vec<u8>, Vec<u8>)> {
    ch.verif_keys().1
}

/// asymmetric header from raw (length prefix, bytes) fields, so that prefixes can lie
fn raw_opn_header(fin: u8, chan: u32, fields: &[(i32, Vec<u8>)]) -> Vec<u8> {
    let mut d = Vec::new();
    d.extend_from_slice(b"OPN");
    d.push(fin);
    d.extend_from_slice(&0u32.to_le_bytes());
    d.extend_from_slice(&chan.to_le_bytes());
    for (n, b) in fields {
        d.extend_from_slice(&n.to_le_bytes());
        d.extend_from_slice(b);
    }
    d
}

const URIS: [&str; 12] = ["null", "empty", "none", "unknown", "b128", "b256", "b256s", "a128", "a256", "long", "badutf8", "len-lie"];
const CERTS: [&str; 10] = ["null", "empty", "trunc", "random", "v1024", "v2048", "v4096", "oversize", "len-lie", "receivers-own"];
const THUMBS: [&str; 6] = ["null", "empty", "19", "20-wrong", "21", "right"];
const CLENS: [&str; 7] = ["0", "1", "key-1", "key", "key+1", "2key", "7"];

fn uri_field(name: &str) -> (i32, Vec<u8>) {
    let s: Vec<u8> = match name {
        "null" => return (-1, vec![]),
        "empty" => vec![],
        "none" => SecurityPolicy::None.to_uri().as_bytes().to_vec(),
        "unknown" => b"http://opcfoundation.org/UA/SecurityPolicy#Basic512".to_vec(),
        "b128" => SecurityPolicy::Basic128Rsa15.to_uri().as_bytes().to_vec(),
        "b256" => SecurityPolicy::Basic256.to_uri().as_bytes().to_vec(),
        "b256s" => SecurityPolicy::Basic256Sha256.to_uri().as_bytes().to_vec(),
        "a128" => SecurityPolicy::Aes128Sha256RsaOaep.to_uri().as_bytes().to_vec(),
        "a256" => SecurityPolicy::Aes256Sha256RsaPss.to_uri().as_bytes().to_vec(),
        "long" => vec![b'x'; 5000],
        "badutf8" => vec![0xff, 0xfe, 0x80, 0x41],
        _ => return (0x7fff_fff0, b"http://".to_vec()),
    };
    (s.len() as i32, s)
}

fn cert_field(ids: &Idents, name: &str, rng: &mut Rng, own: Option<&[u8]>) -> (i32, Vec<u8>) {
    let der = |bits: u32| ids.get(THIRD_ID, bits).map(|i| i.der.clone()).unwrap_or_default();
    let b: Vec<u8> = match name {
        "null" => return (-1, vec![]),
        "empty" => vec![],
        "trunc" => {
            let d = der(2048);
            d[..d.len() / 2].to_vec()
        }
        "random" => rng.bytes(700),
        "v1024" => der(1024),
        "v2048" => der(2048),
        "v4096" => der(4096),
        "oversize" => vec![0x30; 33000],
        "receivers-own" => own.map(|o| o.to_vec()).unwrap_or_else(|| der(2048)),
        _ => return (-7, vec![1, 2, 3]),
    };
    (b.len() as i32, b)
}

fn policy_of_uri(name: &str) -> Option<SecurityPolicy> {
    Some(match name {
        "b128" => SecurityPolicy::Basic128Rsa15,
        "b256" => SecurityPolicy::Basic256,
        "b256s" => SecurityPolicy::Basic256Sha256,
        "a128" => SecurityPolicy::Aes128Sha256RsaOaep,
        "a256" => SecurityPolicy::Aes256Sha256RsaPss,
        _ => return None,
    })
}

/// Builds the bytes (one or more chunks) of a wire-level case. None = the case cannot be built for this receiver.
fn build_wire(ids: &Idents, ch: &SecureChannel, st: &Value, case: &Value) -> Option<Vec<Vec<u8>>> {
    let kind = jstr(case, "kind");
    let policy = pfrom(jstr(st, "policy"));
    let mode = mfrom(jstr(st, "mode"));
    let encrypt = mode == MessageSecurityMode::SignAndEncrypt;
    let own_bits = ju64(st, "own") as u32;
    let client = jstr(st, "role") == "client";
    let own_ident = if own_bits > 0 { ids.get(if client { CLIENT_ID } else { SERVER_ID }, own_bits).ok() } else { None };
    let mut rng = Rng::new(ju64(case, "r") ^ 0xC09);
    match kind {
        "sym-truncate" | "sym-extend" | "sym-flip" => {
            let keys = remote_keys(ch)?;
            let body = if jstr(case, "mtype") == "CLO" {
                body_of(&CloseSecureChannelRequest { request_header: request_header(1) }.into())
            } else {
                body_of(&small_read(ju64(case, "nodes") as usize))
            };
            let plain = sym_plain(jstr(case, "mtype").as_bytes(), b'F', 7, 3, 1, 9, &body, policy, encrypt);
            let mut d = hostile_sym_secure(policy, encrypt, &keys, &plain)?;
            let n = ju64(case, "n") as usize;
            match kind {
                "sym-truncate" => {
                    if n > d.len() {
                        return None;
                    }
                    d.truncate(n);
                }
                "sym-extend" => d.extend(rng.bytes(n)),
                _ => {
                    let l = d.len();
                    d[n % l] ^= 1 + rng.below(255) as u8;
                }
            }
            if case["patch"].as_bool().unwrap_or(false) {
                patch_size(&mut d);
            }
            Some(vec![d])
        }
        "sym-craft" => {
            // the key-holding peer secures `total` bytes of its choosing
            let keys = remote_keys(ch)?;
            let total = ju64(case, "total") as usize;
            let mut plain = Vec::new();
            plain.extend_from_slice(jstr(case, "mtype").as_bytes());
            plain.push(jstr(case, "fin").as_bytes().first().copied().unwrap_or(b'F'));
            plain.extend_from_slice(&0u32.to_le_bytes());
            plain.extend_from_slice(&(ju64(case, "chan") as u32).to_le_bytes());
            plain.extend_from_slice(&3u32.to_le_bytes());
            if total < 16 {
                return None;
            }
            let fill = match jstr(case, "fill") {
                "zero" => vec![0u8; total - 16],
                "ff" => vec![0xffu8; total - 16],
                "valid-prefix" => {
                    let mut v = Vec::new();
                    v.extend_from_slice(&1u32.to_le_bytes());
                    v.extend_from_slice(&9u32.to_le_bytes());
                    v.extend_from_slice(&body_of(&small_read(2)));
                    v.resize(total - 16, 0x0f);
                    v
                }
                _ => rng.bytes(total - 16),
            };
            plain.extend_from_slice(&fill);
            let aligned = (total - 16 + sym_sig_len(policy)) % 16 == 0;
            let d = hostile_sym_secure(policy, encrypt && aligned, &keys, &plain)?;
            Some(vec![d])
        }
        "sym-nokeys" | "raw" => {
            let total = ju64(case, "total") as usize;
            let mut d = Vec::new();
            match jstr(case, "mtype") {
                "rnd" => d.extend(rng.bytes(3)),
                t => d.extend_from_slice(&t.as_bytes()[..3.min(t.len())]),
            }
            match jstr(case, "fin") {
                "rnd" => d.push(rng.next_u32() as u8),
                f => d.push(f.as_bytes().first().copied().unwrap_or(b'F')),
            }
            d.extend(rng.bytes(total.saturating_sub(4)));
            d.truncate(total);
            match jstr(case, "size") {
                "right" => patch_size(&mut d),
                "zero" if d.len() >= 8 => d[4..8].copy_from_slice(&0u32.to_le_bytes()),
                "max" if d.len() >= 8 => d[4..8].copy_from_slice(&u32::MAX.to_le_bytes()),
                _ => {}
            }
            Some(vec![d])
        }
        "opn-header" => {
            let own_der = own_ident.as_ref().map(|i| i.der.clone());
            let uri = uri_field(jstr(case, "uri"));
            let cert = cert_field(ids, jstr(case, "cert"), &mut rng, own_der.as_deref());
            let thumb: (i32, Vec<u8>) = match jstr(case, "thumb") {
                "null" => (-1, vec![]),
                "empty" => (0, vec![]),
                "19" => (19, rng.bytes(19)),
                "20-wrong" => (20, rng.bytes(20)),
                "21" => (21, rng.bytes(21)),
                _ => match own_ident.as_ref() {
                    Some(i) => (20, i.cert.thumbprint().value().to_vec()),
                    None => (20, rng.bytes(20)),
                },
            };
            let ks = if own_bits > 0 { (own_bits / 8) as usize } else { 256 };
            let clen = match jstr(case, "clen") {
                "0" => 0,
                "1" => 1,
                "7" => 7,
                "key-1" => ks - 1,
                "key" => ks,
                "key+1" => ks + 1,
                _ => 2 * ks,
            };
            let mut d = raw_opn_header(b'F', ju64(case, "chan") as u32, &[uri, cert, thumb]);
            d.extend(rng.bytes(clen));
            patch_size(&mut d);
            Some(vec![d])
        }
        "opn-craft" => {
            // a peer with its own certificate encrypts to the receiver's public key
            let own = own_ident?;
            let p = pfrom(jstr(case, "opn_policy"));
            let signer = ids.get(THIRD_ID, ju64(case, "signer_bits") as u32).ok()?;
            let thumb = own.cert.thumbprint().value().to_vec();
            let header = opn_header(b'F', ju64(case, "chan") as u32, Some(p.to_uri().as_bytes()), Some(&signer.der), Some(&thumb));
            let ks = own.key_bytes();
            let pb = rsa_plain_block(p, ks);
            let sig_len = signer.key_bytes();
            let key = signer.key();
            let body = body_of(&opn_request(MessageSecurityMode::SignAndEncrypt, false, &payload(nonce_len(p), 1), false));
            let seqhdr = |v: &mut Vec<u8>| {
                v.extend_from_slice(&1u32.to_le_bytes());
                v.extend_from_slice(&1u32.to_le_bytes());
            };
            let shape = jstr(case, "shape");
            let (plain, sig): (Vec<u8>, HostileSig) = match shape {
                // nothing but a few bytes: shorter than any signature
                "short-no-signature" => (rng.bytes(ju64(case, "len") as usize), HostileSig::Garbage(vec![])),
                // exactly signature sized garbage, one less, one more
                "garbage-signature-only" => (vec![], HostileSig::Garbage(rng.bytes((sig_len as i64 + ju64(case, "len") as i64 - 1).max(0) as usize))),
                "valid" => {
                    let mut v = Vec::new();
                    seqhdr(&mut v);
                    v.extend_from_slice(&body);
                    v.extend(opn_padding(body.len(), sig_len, pb, ks));
                    (v, HostileSig::Valid(&key))
                }
                // correctly signed, the padding count byte(s) point before the start of the chunk
                "padding-count-too-large" => {
                    let mut v = Vec::new();
                    seqhdr(&mut v);
                    let blen = ju64(case, "len") as usize;
                    v.extend_from_slice(&body[..blen.min(body.len())]);
                    let mut pad = opn_padding(blen.min(body.len()), sig_len, pb, ks);
                    let n = pad.len();
                    if ks > 256 {
                        pad[n - 1] = 0xff;
                        for b in pad.iter_mut().take(n - 1) {
                            *b = 0xff;
                        }
                    } else {
                        for b in pad.iter_mut() {
                            *b = 0xff;
                        }
                    }
                    (v_with(v, pad), HostileSig::Valid(&key))
                }
                // correctly signed, padding bytes disagree with the count
                "padding-bytes-inconsistent" => {
                    let mut v = Vec::new();
                    seqhdr(&mut v);
                    v.extend_from_slice(&body);
                    let mut pad = opn_padding(body.len(), sig_len, pb, ks);
                    if pad.len() > 2 {
                        pad[0] ^= 0x55;
                    } else {
                        let l = pad.len();
                        pad[l - 1] = pad[l - 1].wrapping_add(1);
                    }
                    (v_with(v, pad), HostileSig::Valid(&key))
                }
                // correctly signed, no room for a sequence header: padding count covers everything after the header
                "padding-covers-all" => {
                    let mut pad = opn_padding(0, sig_len, pb, ks);
                    // drop the 8 bytes a sequence header would take by claiming them as padding
                    let extra = 8usize;
                    let total = pad.len() + extra;
                    pad = if ks > 256 {
                        let mut v = vec![((total - 2) & 0xff) as u8; total - 1];
                        v.push(((total - 2) >> 8) as u8);
                        v
                    } else {
                        vec![(total - 1) as u8; total]
                    };
                    (pad, HostileSig::Valid(&key))
                }
                // correctly signed, fewer than 8 bytes of sequence header, then padding
                "truncated-sequence-header" => {
                    let keep = ju64(case, "len") as usize % 8;
                    let mut v = rng.bytes(keep);
                    // padding for a "body" of keep-8 does not exist; build it for the real length by hand
                    let min_pad = if ks > 256 { 2 } else { 1 };
                    let enc = keep + sig_len + min_pad;
                    let padn = if enc % pb != 0 { pb - enc % pb } else { 0 } + min_pad;
                    if min_pad == 1 {
                        v.extend(vec![(padn - 1) as u8; padn]);
                    } else {
                        v.extend(vec![((padn - 2) & 0xff) as u8; padn - 1]);
                        v.push(((padn - 2) >> 8) as u8);
                    }
                    (v, HostileSig::Valid(&key))
                }
                // correctly signed and padded, the body is not a message
                "valid-garbage-body" => {
                    let mut v = Vec::new();
                    seqhdr(&mut v);
                    let b = rng.bytes(ju64(case, "len") as usize);
                    v.extend_from_slice(&b);
                    v.extend(opn_padding(b.len(), sig_len, pb, ks));
                    (v, HostileSig::Valid(&key))
                }
                // signature present but wrong
                _ => {
                    let mut v = Vec::new();
                    seqhdr(&mut v);
                    v.extend_from_slice(&body);
                    v.extend(opn_padding(body.len(), sig_len, pb, ks));
                    (v, HostileSig::Garbage(rng.bytes(sig_len)))
                }
            };
            let d = hostile_opn_secure(p, &header, &plain, sig, &own.cert)?;
            Some(vec![d])
        }
        _ => None,
    }
}

fn v_with(mut v: Vec<u8>, tail: Vec<u8>) -> Vec<u8> {
    v.extend(tail);
    v
}

/// plain chunk lists for validate_chunks / decode (what a key-holding peer can make the receiver see after
/// verify_and_remove_security, and what any peer can on a None channel)
fn build_plain_set(case: &Value) -> Vec<MessageChunk> {
    let mut rng = Rng::new(ju64(case, "r") ^ 0xC09A);
    let seqs: Vec<u32> = case["seqs"].as_array().map(|a| a.iter().map(|x| x.as_u64().unwrap_or(0) as u32).collect()).unwrap_or_default();
    let reqs: Vec<u32> = case["reqs"].as_array().map(|a| a.iter().map(|x| x.as_u64().unwrap_or(0) as u32).collect()).unwrap_or_default();
    let fins = jstr(case, "fins").as_bytes().to_vec();
    let types: Vec<&str> = jstr(case, "types").split(',').collect();
    let body_kind = jstr(case, "body");
    let whole: Vec<u8> = match body_kind {
        "valid" => body_of(&small_read(3)),
        "empty" => vec![],
        "nodeid-string" => {
            let mut v = vec![0x03, 0x00, 0x00];
            v.extend_from_slice(&3i32.to_le_bytes());
            v.extend_from_slice(b"abc");
            v
        }
        "nodeid-ns1" => vec![0x01, 0x01, 0x77, 0x02],
        "unknown-id" => vec![0x01, 0x00, 0xff, 0xfe, 1, 2, 3],
        "truncated" => {
            let b = body_of(&small_read(3));
            b[..b.len() / 2].to_vec()
        }
        "trailing" => {
            let mut b = body_of(&small_read(3));
            b.extend(rng.bytes(40));
            b
        }
        "huge-array" => {
            // ReadRequest whose nodes_to_read claims i32::MAX elements
            let mut b = body_of(&small_read(0));
            let l = b.len();
            b[l - 4..].copy_from_slice(&i32::MAX.to_le_bytes());
            b
        }
        _ => rng.bytes(60),
    };
    let n = seqs.len().max(1);
    let per = (whole.len() + n - 1) / n.max(1);
    let mut out = Vec::new();
    for i in 0..seqs.len() {
        let t = types.get(i).copied().unwrap_or("MSG");
        let mut d = Vec::new();
        if t == "OPN" {
            d = opn_header(*fins.get(i).unwrap_or(&b'F'), ju64(case, "chan") as u32, Some(SecurityPolicy::None.to_uri().as_bytes()), None, None);
        } else {
            d.extend_from_slice(&t.as_bytes()[..3]);
            d.push(*fins.get(i).unwrap_or(&b'F'));
            d.extend_from_slice(&0u32.to_le_bytes());
            d.extend_from_slice(&(ju64(case, "chan") as u32).to_le_bytes());
            d.extend_from_slice(&3u32.to_le_bytes());
        }
        d.extend_from_slice(&seqs[i].to_le_bytes());
        d.extend_from_slice(&reqs.get(i).copied().unwrap_or(1).to_le_bytes());
        let a = (i * per).min(whole.len());
        let b = ((i + 1) * per).min(whole.len());
        d.extend_from_slice(&whole[a..b]);
        let cut = ju64(case, "cut") as usize;
        if cut > 0 && i == seqs.len() - 1 {
            d.truncate(cut);
        }
        patch_size(&mut d);
        out.push(MessageChunk { data: d });
    }
    out
}

// ---------------------------------------------------------------------------------------------
// running a case
// ---------------------------------------------------------------------------------------------

struct Obs {
    panics: u64,
    ok_chunk: u64,
    ok_message: u64,
    errors: u64,
    rsa_reached: u64,
}

fn run_case(recv: &mut Receivers, rep: &mut Report, obs: &mut Obs, case: &Value) {
    let st = case["recv"].clone();
    let kind = jstr(case, "kind").to_string();
    rep.begin_case(case);
    let ids = recv.ids;
    let ch = match recv.get(&st) {
        Ok(c) => c,
        Err(e) => {
            rep.inconclusive(format!("C09: receiver {} cannot be built: {}", st, e));
            return;
        }
    };
    let policy_before = ch.security_policy();
    let shape = case_shape(case);
    let start = (ju64(case, "start") as u32).max(if case.get("start").is_some() { 0 } else { 1 });
    let outcome: Result<String, PanicInfo>;
    if kind == "plain-set" {
        let chunks = build_plain_set(case);
        if chunks.is_empty() {
            return;
        }
        let r1 = catch(|| Chunker::validate_chunks(start, ch, &chunks));
        let r2 = catch(|| Chunker::decode(&chunks, ch, None));
        let r3 = catch(|| chunks.iter().map(|c| c.chunk_info(ch).is_ok()).filter(|x| *x).count());
        outcome = match (r1, r2, r3) {
            (Err(p), _, _) | (_, Err(p), _) | (_, _, Err(p)) => Err(p),
            (Ok(a), Ok(b), Ok(_)) => Ok(format!(
                "validate:{}|decode:{}",
                a.map(|_| "ok".to_string()).unwrap_or_else(status_name),
                b.map(|_| "ok".to_string()).unwrap_or_else(status_name)
            )),
        };
    } else {
        let wire = match catch(|| build_wire(ids, ch, &st, case)) {
            Ok(Some(w)) => w,
            Ok(None) => return,
            Err(p) => {
                rep.inconclusive(format!("C09: building the input panicked in the harness: {} at {}:{} ({})", p.msg, p.file, p.line, case));
                return;
            }
        };
        outcome = catch(|| {
            let mut rx = Vec::new();
            for w in &wire {
                match ch.verify_and_remove_security(w) {
                    Ok(c) => rx.push(c),
                    Err(e) => return format!("verify:{}", status_name(e)),
                }
            }
            for c in &rx {
                if let Err(e) = c.chunk_info(ch) {
                    return format!("chunk_info:{}", status_name(e));
                }
            }
            if let Err(e) = Chunker::validate_chunks(start, ch, &rx) {
                return format!("validate:{}", status_name(e));
            }
            match Chunker::decode(&rx, ch, None) {
                Ok(_) => "message".to_string(),
                Err(e) => format!("decode:{}", status_name(e)),
            }
        });
    }
    if ch.security_policy() != policy_before {
        ch.set_security_policy(policy_before);
    }
    match outcome {
        Ok(o) => {
            if o == "message" || o.ends_with("decode:ok") {
                obs.ok_message += 1;
            } else if o.starts_with("verify:") {
                obs.errors += 1;
                if o.contains("SecurityChecksFailed") && (kind == "opn-craft" || kind == "opn-header") {
                    obs.rsa_reached += 1;
                }
            } else {
                obs.ok_chunk += 1;
            }
            rep.case(&format!("{}|{}|{}|{}", kind, state_class(&st), shape, o));
            rep.sample(case.clone());
        }
        Err(p) => {
            obs.panics += 1;
            rep.case(&format!("{}|{}|{}|panic", kind, state_class(&st), shape));
            rep.sample(case.clone());
            rep.violation(
                panic_sig("recv-panic", &p),
                format!(
                    "receive path panicked: {} at {}:{}{}; receiver {}; input {} ({})",
                    p.msg,
                    p.file,
                    p.line,
                    overflow_note(&p),
                    state_class(&st),
                    kind,
                    shape
                ),
                case.clone(),
            );
            // a panic may have left the channel half-updated: rebuild it
            let key = st.to_string();
            recv.cache.remove(&key);
        }
    }
}

fn len_class(n: u64) -> &'static str {
    match n {
        0 => "0",
        1..=11 => "lt-header",
        12..=15 => "header-only",
        16..=23 => "lt-sequence-header",
        24..=43 => "lt-sha1-signature+24",
        44..=55 => "lt-sha256-signature+24",
        _ => "longer",
    }
}

fn case_shape(case: &Value) -> String {
    match jstr(case, "kind") {
        "sym-truncate" | "sym-extend" | "sym-flip" => format!(
            "{}:{}:{}:{}",
            jstr(case, "mtype"),
            len_class(ju64(case, "n")),
            if ju64(case, "n") % 16 == 0 { "aligned" } else { "unaligned" },
            if case["patch"].as_bool().unwrap_or(false) { "patched" } else { "unpatched" }
        ),
        "sym-craft" => format!(
            "{}{}:{}:{}:{}:chan{}",
            jstr(case, "mtype"),
            jstr(case, "fin"),
            len_class(ju64(case, "total")),
            ju64(case, "total") % 16,
            jstr(case, "fill"),
            ju64(case, "chan")
        ),
        "sym-nokeys" | "raw" => format!(
            "{}{}:{}:{}",
            jstr(case, "mtype"),
            jstr(case, "fin"),
            len_class(ju64(case, "total")),
            jstr(case, "size")
        ),
        "opn-header" => format!("{}:{}:{}:{}", jstr(case, "uri"), jstr(case, "cert"), jstr(case, "thumb"), jstr(case, "clen")),
        "opn-craft" => format!(
            "{}:{}:signer{}:{}",
            jstr(case, "opn_policy"),
            jstr(case, "shape"),
            ju64(case, "signer_bits"),
            ju64(case, "len").min(9)
        ),
        "plain-set" => format!(
            "{}:{}:{}:n{}:seq{}:start{}:cut{}",
            jstr(case, "types"),
            jstr(case, "fins"),
            jstr(case, "body"),
            case["seqs"].as_array().map(|a| a.len()).unwrap_or(0),
            case["seqs"].as_array().and_then(|a| a.first()).and_then(|x| x.as_u64()).map(|x| if x >= u32::MAX as u64 - 1 { "max" } else { "small" }).unwrap_or("-"),
            if ju64(case, "start") > 1000 { "high" } else { "low" },
            ju64(case, "cut")
        ),
        _ => "?".to_string(),
    }
}

// ---------------------------------------------------------------------------------------------
// the corpus
// ---------------------------------------------------------------------------------------------

fn keyed_states() -> Vec<Value> {
    let mut v = Vec::new();
    for p in POLICIES {
        for m in [MessageSecurityMode::Sign, MessageSecurityMode::SignAndEncrypt] {
            let bits = policy_bits(p)[1];
            v.push(recv_state("server", p, m, true, bits, true));
            v.push(recv_state("client", p, m, true, policy_bits(p)[0], true));
        }
    }
    v
}

fn nokey_states() -> Vec<Value> {
    let mut v = Vec::new();
    for p in POLICIES {
        for m in [MessageSecurityMode::Sign, MessageSecurityMode::SignAndEncrypt] {
            // a client between sending its OPN request and getting the response
            v.push(recv_state("client", p, m, false, policy_bits(p)[0], true));
            // a server whose open_secure_channel set the mode and then answered with a fault (e.g. BadNonceInvalid)
            v.push(recv_state("server", p, m, false, policy_bits(p)[1], true));
        }
    }
    v
}

fn opn_states(thorough: bool) -> Vec<Value> {
    let mut v = Vec::new();
    let none = SecurityPolicy::None;
    let mn = MessageSecurityMode::None;
    // servers before the first OPN, every key size; with and without an own certificate
    for bits in [1024u32, 2048, 4096] {
        v.push(recv_state("server", none, mn, false, bits, false));
    }
    v.push(recv_state("server", none, mn, false, 0, false));
    // clients on a None endpoint, with and without an own certificate
    v.push(recv_state("client", none, mn, false, 2048, false));
    v.push(recv_state("client", none, mn, false, 0, false));
    // clients waiting for the OPN response, and established channels getting a renew
    for p in POLICIES {
        let modes: Vec<MessageSecurityMode> = if thorough {
            vec![MessageSecurityMode::Sign, MessageSecurityMode::SignAndEncrypt]
        } else {
            vec![MessageSecurityMode::SignAndEncrypt]
        };
        for m in modes {
            v.push(recv_state("client", p, m, false, policy_bits(p)[0], true));
            v.push(recv_state("client", p, m, true, policy_bits(p)[1], true));
            v.push(recv_state("server", p, m, true, policy_bits(p)[0], true));
        }
    }
    v
}

fn corpus(args: &Args) -> Vec<Value> {
    let thorough = args.thorough();
    let mut rng = Rng::new(args.seed ^ 0xC09);
    let mut cases: Vec<Value> = Vec::new();
    let mut r = move || rng.next_u64() >> 16;
    let mut rng2 = Rng::new(args.seed ^ 0xC09B);

    // ---- symmetric chunks against keyed receivers
    for st in keyed_states() {
        for (mtype, nodes) in [("MSG", 2u64), ("CLO", 0)] {
            // every prefix length of a valid chunk (a 2-node ReadRequest chunk is about 130 bytes)
            for n in 0..=160u64 {
                for patch in [true, false] {
                    if !patch && n % 8 != 0 && !thorough {
                        continue;
                    }
                    cases.push(json!({"kind": "sym-truncate", "recv": st, "mtype": mtype, "nodes": nodes, "n": n, "patch": patch, "r": r()}));
                }
            }
            for n in 1..=33u64 {
                cases.push(json!({"kind": "sym-extend", "recv": st, "mtype": mtype, "nodes": nodes, "n": n, "patch": true, "r": r()}));
            }
            for n in [1u64, 16, 17] {
                cases.push(json!({"kind": "sym-extend", "recv": st, "mtype": mtype, "nodes": nodes, "n": n, "patch": false, "r": r()}));
            }
            for n in 0..(if thorough { 160u64 } else { 40 }) {
                cases.push(json!({"kind": "sym-flip", "recv": st, "mtype": mtype, "nodes": nodes, "n": n * 3 + 1, "patch": false, "r": r()}));
            }
        }
        // correctly secured plain texts of every length
        for total in 16..=(if thorough { 200u64 } else { 120 }) {
            for (i, fill) in ["random", "zero", "ff", "valid-prefix"].iter().enumerate() {
                if !thorough && i >= 2 && total % 4 != 0 {
                    continue;
                }
                let mtype = ["MSG", "CLO", "MSG"][(total as usize + i) % 3];
                let fin = ["F", "C", "A", "F"][(total as usize / 3 + i) % 4];
                let chan = [7u64, 0, 8, 7][(total as usize / 5 + i) % 4];
                cases.push(json!({"kind": "sym-craft", "recv": st, "mtype": mtype, "fin": fin, "chan": chan, "total": total, "fill": fill, "r": r()}));
            }
        }
    }
    // ---- symmetric chunks against channels whose keys are not derived yet
    for st in nokey_states() {
        for total in [0u64, 3, 8, 12, 15, 16, 17, 24, 32, 36, 48, 56, 64, 100, 128, 200] {
            for mtype in ["MSG", "CLO"] {
                for size in ["right", "wrong"] {
                    cases.push(json!({"kind": "sym-nokeys", "recv": st, "mtype": mtype, "fin": "F", "total": total, "size": size, "r": r()}));
                }
            }
        }
    }
    // ---- OPN headers
    let states = opn_states(thorough);
    for (si, st) in states.iter().enumerate() {
        // full grid for two receivers, a seeded sample elsewhere
        let full = si == 1 || (thorough && si < 6) || si == 6;
        for uri in URIS {
            for cert in CERTS {
                for thumb in THUMBS {
                    for clen in CLENS {
                        let interesting = policy_of_uri(uri).is_some() && cert.starts_with('v') && thumb == "right";
                        if !full && !interesting && !rng2.chance(if thorough { 1 } else { 1 }, if thorough { 4 } else { 24 }) {
                            continue;
                        }
                        cases.push(json!({"kind": "opn-header", "recv": st, "uri": uri, "cert": cert, "thumb": thumb, "clen": clen, "chan": 7, "r": r()}));
                    }
                }
            }
        }
    }
    // ---- OPN with properly encrypted contents
    for st in &states {
        if ju64(st, "own") == 0 {
            continue;
        }
        let own = ju64(st, "own");
        for p in POLICIES {
            // a 1024-bit receiver under OAEP-SHA256 still has 62 byte blocks; every combination is buildable
            let signer_sizes: Vec<u64> = if thorough { vec![1024, 2048, 4096] } else { vec![[1024u64, 2048, 4096][((own / 1024) as usize + p as usize) % 3]] };
            for sb in signer_sizes {
                let mut add = |shape: &str, len: u64| {
                    cases.push(json!({"kind": "opn-craft", "recv": st, "opn_policy": pname(p), "signer_bits": sb, "shape": shape, "len": len, "chan": 7, "r": r()}));
                };
                add("valid", 0);
                for len in [1u64, 7, 8, 9, 40] {
                    add("short-no-signature", len);
                }
                for len in [0u64, 1, 2] {
                    add("garbage-signature-only", len);
                }
                for len in [0u64, 1, 30] {
                    add("padding-count-too-large", len);
                }
                add("padding-bytes-inconsistent", 0);
                add("padding-covers-all", 0);
                for len in [0u64, 4, 7] {
                    add("truncated-sequence-header", len);
                }
                for len in [0u64, 1, 3, 60] {
                    add("valid-garbage-body", len);
                }
                add("wrong-signature", 0);
            }
        }
    }
    // ---- plain chunk lists for validate_chunks / decode
    let m = u32::MAX as u64;
    let set_states = vec![
        recv_state("server", SecurityPolicy::None, MessageSecurityMode::None, false, 2048, false),
        recv_state("client", SecurityPolicy::Basic256Sha256, MessageSecurityMode::SignAndEncrypt, true, 2048, true),
    ];
    let seq_sets: Vec<(Vec<u64>, u64)> = vec![
        (vec![1], 1),
        (vec![5], 9),
        (vec![m], 1),
        (vec![m], m),
        (vec![m - 1, m], 1),
        (vec![m, 0], 1),
        (vec![m, m], m),
        (vec![0, 1, 2], 0),
        (vec![5, 7], 1),
        (vec![7, 6], 1),
        (vec![1, 2, 3, 4, 5], 1),
    ];
    for st in &set_states {
        for (seqs, start) in &seq_sets {
            for body in ["valid", "empty", "nodeid-string", "nodeid-ns1", "unknown-id", "truncated", "trailing", "huge-array", "random"] {
                for (fi, fins) in ["F", "C", "A", "FF", "CF", "CC", "CCCCF", "FC", "AF", "XF"].iter().enumerate() {
                    if fins.len() != seqs.len() && !(fi < 3 && seqs.len() == 1) {
                        continue;
                    }
                    for types in ["MSG", "CLO", "OPN", "MSG,OPN", "OPN,MSG"] {
                        if types.contains(',') && seqs.len() < 2 {
                            continue;
                        }
                        let reqs: Vec<u64> = if body == "random" { seqs.iter().map(|s| s % 3).collect() } else { vec![1; seqs.len()] };
                        for chan in [7u64, 0, 9] {
                            if chan != 7 && body != "valid" {
                                continue;
                            }
                            cases.push(json!({"kind": "plain-set", "recv": st, "seqs": seqs, "reqs": reqs, "fins": fins, "types": types,
                                "body": body, "start": start, "chan": chan, "cut": 0, "r": r()}));
                        }
                    }
                }
            }
        }
        // chunks cut inside their headers
        for cut in [1u64, 3, 4, 8, 11, 12, 13, 15, 16, 19, 20, 23, 24] {
            for types in ["MSG", "OPN"] {
                cases.push(json!({"kind": "plain-set", "recv": st, "seqs": [1], "reqs": [1], "fins": "F", "types": types, "body": "valid",
                    "start": 1, "chan": 7, "cut": cut, "r": r()}));
            }
        }
    }
    // ---- raw bytes against everything
    let mut all_states = states.clone();
    all_states.extend(keyed_states());
    all_states.extend(nokey_states());
    let raw_n = args.budget(3000, 60_000) * args.shards as u64;
    for i in 0..raw_n {
        let st = &all_states[(i as usize) % all_states.len()];
        let mtype = *rng2.pick(&["MSG", "OPN", "CLO", "ERR", "HEL", "ACK", "rnd", "msg", "OPN", "MSG"]);
        let fin = *rng2.pick(&["F", "C", "A", "rnd", "F"]);
        let size = *rng2.pick(&["right", "right", "right", "wrong", "zero", "max"]);
        let total = match rng2.below(4) {
            0 => rng2.below(32),
            1 => 12 + rng2.below(60),
            2 => rng2.below(300),
            _ => 16 + 16 * rng2.below(12),
        };
        cases.push(json!({"kind": "raw", "recv": st, "mtype": mtype, "fin": fin, "total": total, "size": size, "r": r()}));
    }
    cases
}

pub fn c09(args: &Args, rep: &mut Report) {
    let ids = Idents::new();
    let mut recv = Receivers {
        ids: &ids,
        cache: HashMap::new(),
    };
    let mut obs = Obs {
        panics: 0,
        ok_chunk: 0,
        ok_message: 0,
        errors: 0,
        rsa_reached: 0,
    };
    if let Some(path) = &args.replay {
        match read_replay(path) {
            Some(case) => run_case(&mut recv, rep, &mut obs, &case),
            None => rep.inconclusive("cannot read replay file"),
        }
        return;
    }
    let cases = corpus(args);
    // every shard takes every shards-th case; RSA-heavy kinds are spread evenly that way
    for (i, case) in cases.iter().enumerate() {
        if i % args.shards != args.shard {
            continue;
        }
        run_case(&mut recv, rep, &mut obs, case);
    }
    rep.count("inputs_ending_in_panic", obs.panics);
    rep.count("inputs_answered_with_an_error_by_verify", obs.errors);
    rep.count("inputs_past_verify_then_error_or_chunk", obs.ok_chunk);
    rep.count("inputs_decoded_to_a_message", obs.ok_message);
    rep.count("opn_inputs_rejected_with_security_checks_failed", obs.rsa_reached);
    if args.thorough() && args.shard == 0 {
        valgrind_pass(args, rep);
    }
}

// ---------------------------------------------------------------------------------------------
// valgrind memcheck over the OAEP-SHA256 FFI path (thorough, optional)
// ---------------------------------------------------------------------------------------------

fn valgrind_corpus(seed: u64) -> Vec<Value> {
    let p = SecurityPolicy::Aes256Sha256RsaPss;
    let m = MessageSecurityMode::SignAndEncrypt;
    let mut cases = Vec::new();
    let mut k = seed;
    let mut r = move || {
        k = k.wrapping_mul(6364136223846793005).wrapping_add(1442695040888963407);
        k >> 20
    };
    let states = vec![
        recv_state("server", SecurityPolicy::None, MessageSecurityMode::None, false, 2048, false),
        recv_state("client", p, m, false, 2048, true),
        recv_state("server", p, m, true, 2048, true),
    ];
    for st in &states {
        for sb in [1024u64, 2048] {
            for (shape, len) in [
                ("valid", 0u64),
                ("short-no-signature", 1),
                ("short-no-signature", 40),
                ("garbage-signature-only", 1),
                ("padding-count-too-large", 0),
                ("padding-bytes-inconsistent", 0),
                ("padding-covers-all", 0),
                ("truncated-sequence-header", 4),
                ("valid-garbage-body", 3),
                ("wrong-signature", 0),
            ] {
                cases.push(json!({"kind": "opn-craft", "recv": st, "opn_policy": pname(p), "signer_bits": sb, "shape": shape, "len": len, "chan": 7, "r": r()}));
            }
        }
        for clen in CLENS {
            for cert in ["v2048", "null", "trunc"] {
                cases.push(json!({"kind": "opn-header", "recv": st, "uri": "a256", "cert": cert, "thumb": "right", "clen": clen, "chan": 7, "r": r()}));
            }
        }
    }
    cases
}

/// `vh --child chan-c09-vg <seed>`: the reduced corpus in-process, panics contained, exit 0. Run under valgrind by
/// the thorough tier; memcheck's own exit code (99) is the observation.
pub fn valgrind_child(rest: &[String]) -> i32 {
    let seed: u64 = rest.first().and_then(|s| s.parse().ok()).unwrap_or(1);
    let ids = Idents::new();
    let mut recv = Receivers {
        ids: &ids,
        cache: HashMap::new(),
    };
    let args = Args {
        prop: "C09".into(),
        tier: "quick".into(),
        seed,
        shard: 0,
        shards: 1,
        out: pki::work_dir().join("scratch").join(format!("chan_vg_{}.json", std::process::id())).to_string_lossy().to_string(),
        replay: None,
        extra: vec![],
    };
    let _ = std::fs::create_dir_all(pki::work_dir().join("scratch"));
    let mut rep = Report::new(&args);
    let mut obs = Obs {
        panics: 0,
        ok_chunk: 0,
        ok_message: 0,
        errors: 0,
        rsa_reached: 0,
    };
    let cases = valgrind_corpus(seed);
    for c in &cases {
        run_case(&mut recv, &mut rep, &mut obs, c);
    }
    let _ = std::fs::remove_file(format!("{}.progress", args.out));
    println!(
        "chan-c09-vg cases={} evaluations={} messages={} panics={}",
        cases.len(),
        rep.evaluations,
        obs.ok_message,
        obs.panics
    );
    0
}

use crate::pki;

fn valgrind_pass(args: &Args, rep: &mut Report) {
    use std::process::{Command, Stdio};
    let have = Command::new("valgrind").arg("--version").stdout(Stdio::null()).stderr(Stdio::null()).status().map(|s| s.success()).unwrap_or(false);
    if !have {
        rep.note("valgrind is not installed: the memcheck pass over the OAEP-SHA256 FFI corpus was skipped");
        return;
    }
    let exe = match std::env::current_exe() {
        Ok(e) => e,
        Err(_) => {
            rep.note("valgrind pass skipped: cannot find own executable");
            return;
        }
    };
    let mut child = match Command::new("valgrind")
        .args(["--error-exitcode=99", "-q", "--leak-check=no"])
        .arg(&exe)
        .args(["--child", "chan-c09-vg", &args.seed.to_string()])
        .stdout(Stdio::piped())
        .stderr(Stdio::piped())
        .spawn()
    {
        Ok(c) => c,
        Err(e) => {
            rep.note(format!("valgrind pass skipped: cannot start valgrind: {}", e));
            return;
        }
    };
    let start = std::time::Instant::now();
    let status = loop {
        match child.try_wait() {
            Ok(Some(s)) => break Some(s),
            Ok(None) => {
                if start.elapsed().as_secs() > 900 {
                    let _ = child.kill();
                    let _ = child.wait();
                    break None;
                }
                std::thread::sleep(std::time::Duration::from_millis(50));
            }
            Err(_) => break None,
        }
    };
    let mut out = String::new();
    let mut err = String::new();
    if let Some(mut s) = child.stdout.take() {
        let _ = std::io::Read::read_to_string(&mut s, &mut out);
    }
    if let Some(mut s) = child.stderr.take() {
        let _ = std::io::Read::read_to_string(&mut s, &mut err);
    }
    match status {
        None => rep.note("valgrind pass did not finish within its watchdog; no memcheck verdict"),
        Some(s) if s.code() == Some(99) => {
            let first: String = err.lines().filter(|l| l.contains("==")).take(12).collect::<Vec<_>>().join(" / ");
            let kind = err
                .lines()
                .find(|l| l.contains("Invalid") || l.contains("uninitialised") || l.contains("Mismatched") || l.contains("overlap"))
                .map(|l| normalize_msg(l.splitn(3, "== ").last().unwrap_or("?")))
                .unwrap_or_else(|| "error".into());
            rep.violation(
                format!("valgrind-memcheck|oaep-sha256-corpus|{}", kind),
                format!("valgrind memcheck reported errors on the Aes256Sha256RsaPss OPN corpus: {}", first),
                json!({"kind": "valgrind", "seed": args.seed}),
            );
            rep.count("valgrind_runs", 1);
        }
        Some(s) if s.success() => {
            rep.count("valgrind_runs", 1);
            rep.count("valgrind_clean_runs", 1);
            rep.note(format!("valgrind memcheck clean: {}", out.trim()));
        }
        Some(s) => rep.note(format!("valgrind pass ended with {:?}; no memcheck verdict (stderr tail: {})", s.code(), err.lines().rev().take(3).collect::<Vec<_>>().join(" / "))),
    }
}
