//! C13: channel keys are derived per Part 6 / RFC 5246 P_hash and agree on both ends.
//!
//! Observed: the key tuples of real client-role and server-role SecureChannels after derive_keys()
//! (through SecureChannel::verif_keys) and the return value of SecurityPolicy::make_secure_channel_keys.
//! Oracle: P_SHA1 / P_SHA256 written here over OpenSSL's HMAC (not the repository's hash.rs) with the
//! Part 6 length table; every observation is also appended to <run dir>/kdf_<shard>.jsonl, which the
//! Python oracle (oracles/chan_kdf.py, hmac + hashlib only) recomputes independently.
use crate::common::*;
use crate::p_chan::*;
use opcua::core::comms::secure_channel::{Role, SecureChannel};
use opcua::crypto::SecurityPolicy;
use opcua::types::{ByteString, MessageSecurityMode};
use serde_json::{json, Value};
use std::collections::HashMap;
use std::io::Write;

type Keys = (Vec<u8>, Vec<u8>, Vec<u8>);

/// (hash, signing key length, encrypting key length, block size) from OPC UA Part 6 table 33 / Part 7 profiles
fn table(p: SecurityPolicy) -> (&'static str, usize, usize, usize) {
    match p {
        SecurityPolicy::Basic128Rsa15 => ("sha1", 16, 16, 16),
        SecurityPolicy::Basic256 => ("sha1", 24, 32, 16),
        SecurityPolicy::Basic256Sha256 => ("sha256", 32, 32, 16),
        SecurityPolicy::Aes128Sha256RsaOaep => ("sha256", 32, 16, 16),
        _ => ("sha256", 32, 32, 16),
    }
}

/// RFC 5246 section 5: P_hash(secret, seed) = HMAC(secret, A(1) + seed) + HMAC(secret, A(2) + seed) + ...
/// with A(0) = seed, A(i) = HMAC(secret, A(i-1))
fn p_hash(hash: &str, secret: &[u8], seed: &[u8], len: usize) -> Vec<u8> {
    let md = if hash == "sha1" {
        openssl::hash::MessageDigest::sha1()
    } else {
        openssl::hash::MessageDigest::sha256()
    };
    let mut a = seed.to_vec();
    let mut out = Vec::new();
    while out.len() < len {
        a = hmac_md(md, secret, &a);
        let mut x = a.clone();
        x.extend_from_slice(seed);
        out.extend_from_slice(&hmac_md(md, secret, &x));
    }
    out.truncate(len);
    out
}

fn reference(p: SecurityPolicy, secret: &[u8], seed: &[u8]) -> Keys {
    let (h, s, e, b) = table(p);
    let all = p_hash(h, secret, seed, s + e + b);
    (all[..s].to_vec(), all[s..s + e].to_vec(), all[s + e..].to_vec())
}

fn keys_json(k: &Keys) -> Value {
    json!([hex(&k.0), hex(&k.1), hex(&k.2)])
}

fn nonce_class(n: &[u8]) -> String {
    let content = if n.is_empty() {
        "empty"
    } else if n.iter().all(|b| *b == 0) {
        "zero"
    } else if n.iter().all(|b| *b == 0xFF) {
        "ff"
    } else if n.iter().all(|b| *b == n[0]) {
        "rep"
    } else if *n.last().unwrap() == 0 {
        "trailing-zero"
    } else {
        "mixed"
    };
    format!("{}:{}", n.len(), content)
}

fn gen_nonce(rng: &mut Rng, len: usize) -> Vec<u8> {
    match rng.below(8) {
        0 => vec![0u8; len],
        1 => vec![0xFFu8; len],
        2 => vec![rng.next_u32() as u8; len],
        3 => (0..len).map(|i| i as u8).collect(),
        4 => {
            // random with a zero tail (HMAC pads keys with zeros: the place where two secrets may coincide)
            let mut v = rng.bytes(len);
            let z = rng.usize(len + 1);
            for b in v.iter_mut().rev().take(z) {
                *b = 0;
            }
            v
        }
        _ => rng.bytes(len),
    }
}

fn strip_zeros(s: &[u8]) -> Vec<u8> {
    let mut v = s.to_vec();
    while v.last() == Some(&0) {
        v.pop();
    }
    v
}

struct Ctx {
    log: Option<std::fs::File>,
    /// (policy, key tuple) -> (secret modulo trailing zeros, seed): "different nonces give different keys"
    seen: HashMap<(String, Vec<u8>), (Vec<u8>, Vec<u8>)>,
    tuples: u64,
}

impl Ctx {
    fn check_tuple(
        &mut self,
        rep: &mut Report,
        policy: SecurityPolicy,
        what: &str,
        secret: &[u8],
        seed: &[u8],
        got: &Keys,
        case: &Value,
    ) {
        self.tuples += 1;
        let (_, s, e, b) = table(policy);
        let want = reference(policy, secret, seed);
        let names = ["signing-key", "encrypting-key", "iv"];
        let gots = [&got.0, &got.1, &got.2];
        let wants = [&want.0, &want.1, &want.2];
        let lens = [s, e, b];
        for i in 0..3 {
            if gots[i].len() != lens[i] {
                rep.violation(
                    format!("kdf|wrong-length|{}|{}", names[i], pname(policy)),
                    format!(
                        "{} {}: {} has {} bytes, Part 6 says {} for {}",
                        what,
                        pname(policy),
                        names[i],
                        gots[i].len(),
                        lens[i],
                        pname(policy)
                    ),
                    case.clone(),
                );
            } else if gots[i] != wants[i] {
                rep.violation(
                    format!("kdf|wrong-value|{}|{}", names[i], table(policy).0),
                    format!(
                        "{} {}: {} = {} but P_{}(secret={}, seed={}) gives {}",
                        what,
                        pname(policy),
                        names[i],
                        hex(gots[i]),
                        table(policy).0,
                        hex(secret),
                        hex(seed),
                        hex(wants[i])
                    ),
                    case.clone(),
                );
            }
        }
        // distinctness
        let mut flat = got.0.clone();
        flat.extend_from_slice(&got.1);
        flat.extend_from_slice(&got.2);
        let key = (pname(policy).to_string(), flat);
        let me = (strip_zeros(secret), seed.to_vec());
        match self.seen.get(&key) {
            Some(other) if *other != me => {
                rep.violation(
                    format!("kdf|same-keys-for-different-nonces|{}", table(policy).0),
                    format!(
                        "{}: (secret {}, seed {}) and (secret {}, seed {}) give the same key tuple",
                        pname(policy),
                        hex(secret),
                        hex(seed),
                        hex(&other.0),
                        hex(&other.1)
                    ),
                    case.clone(),
                );
            }
            Some(_) => {}
            None => {
                self.seen.insert(key, me);
            }
        }
    }
}

fn run_case(ctx: &mut Ctx, ids: &Idents, rep: &mut Report, case: &Value) {
    let policy = pfrom(jstr(case, "policy"));
    let via = jstr(case, "via").to_string();
    let cn = jhex(case, "client_nonce");
    let sn = jhex(case, "server_nonce");
    rep.begin_case(case);
    let class = format!("{}|{}|c{}|s{}|{}", via, pname(policy), nonce_class(&cn), nonce_class(&sn), if cn == sn { "eq" } else { "ne" });

    if via == "make_keys" {
        // secret = cn, seed = sn
        let got = catch(|| {
            let k = policy.make_secure_channel_keys(&cn, &sn);
            (k.0, k.1.value().to_vec(), k.2)
        });
        rep.case(&class);
        rep.sample(case.clone());
        match got {
            Err(p) => rep.violation(
                panic_sig("kdf-panic", &p),
                format!("make_secure_channel_keys panicked: {} at {}:{}", p.msg, p.file, p.line),
                case.clone(),
            ),
            Ok(k) => {
                if let Some(f) = ctx.log.as_mut() {
                    let _ = writeln!(
                        f,
                        "{}",
                        json!({"via": via, "policy": pname(policy), "secret": hex(&cn), "seed": hex(&sn), "keys": keys_json(&k)})
                    );
                }
                ctx.check_tuple(rep, policy, "make_secure_channel_keys", &cn, &sn, &k, case);
            }
        }
        return;
    }

    // two real channels
    let result: Result<Result<(Option<Keys>, Option<Keys>, Option<Keys>, Option<Keys>), String>, PanicInfo> = catch(|| {
        if via == "handshake" {
            let bits = policy_bits(policy);
            let cb = bits[(ju64(case, "kc") % 2) as usize];
            let sb = bits[(ju64(case, "ks") % 2) as usize];
            let c = ids.get(CLIENT_ID, cb)?;
            let s = ids.get(SERVER_ID, sb)?;
            let p = HsParams {
                policy,
                mode: mfrom(jstr(case, "mode")),
                client_nonce: cn.clone(),
                server_nonce: sn.clone(),
                channel_id: 5,
                token_id: 9,
                chunk_size: 8196,
                opts: big_options(),
            };
            let pair = handshake(&p, Some(&c), Some(&s))?;
            let (cl, cr) = pair.client.verif_keys();
            let (sl, sr) = pair.server.verif_keys();
            Ok((cl, cr, sl, sr))
        } else {
            // the setters the two ends use, without the RSA transport of the OPN messages
            let mut client = new_channel(Role::Client, None, big_options());
            client.set_security_policy(policy);
            client.set_security_mode(MessageSecurityMode::SignAndEncrypt);
            let mut server = new_channel(Role::Server, None, big_options());
            server.set_security_policy(policy);
            server.set_security_mode(MessageSecurityMode::SignAndEncrypt);
            client.set_local_nonce(&cn);
            server.set_local_nonce(&sn);
            let by_the_book = |ch: &mut SecureChannel, n: &[u8]| -> Result<(), String> {
                if n.len() == nonce_len(policy) {
                    ch.set_remote_nonce_from_byte_string(&ByteString::from(n.to_vec()))
                        .map_err(|e| format!("set_remote_nonce_from_byte_string refused a nonce of the policy's length: {}", e))
                } else {
                    ch.set_remote_nonce(n);
                    Ok(())
                }
            };
            by_the_book(&mut server, &cn)?;
            by_the_book(&mut client, &sn)?;
            client.derive_keys();
            server.derive_keys();
            let (cl, cr) = client.verif_keys();
            let (sl, sr) = server.verif_keys();
            Ok((cl, cr, sl, sr))
        }
    });
    rep.case(&class);
    rep.sample(case.clone());
    let (cl, cr, sl, sr) = match result {
        Err(p) => {
            rep.violation(
                panic_sig("kdf-panic", &p),
                format!("deriving channel keys panicked: {} at {}:{}", p.msg, p.file, p.line),
                case.clone(),
            );
            return;
        }
        Ok(Err(e)) => {
            rep.inconclusive(format!("C13 case could not be set up: {} ({})", e, case));
            return;
        }
        Ok(Ok(t)) => t,
    };
    let (cl, cr, sl, sr) = match (cl, cr, sl, sr) {
        (Some(a), Some(b), Some(c), Some(d)) => (a, b, c, d),
        _ => {
            rep.violation(
                "kdf|no-keys-after-derive".to_string(),
                "derive_keys ran but verif_keys reports no keys".to_string(),
                case.clone(),
            );
            return;
        }
    };
    if let Some(f) = ctx.log.as_mut() {
        let _ = writeln!(
            f,
            "{}",
            json!({"via": via, "policy": pname(policy), "client_nonce": hex(&cn), "server_nonce": hex(&sn),
                   "client_local": keys_json(&cl), "client_remote": keys_json(&cr),
                   "server_local": keys_json(&sl), "server_remote": keys_json(&sr)})
        );
    }
    // Table 33: client keys: secret = server nonce, seed = client nonce; server keys the other way round
    ctx.check_tuple(rep, policy, "client-role channel, keys it secures with", &sn, &cn, &cl, case);
    ctx.check_tuple(rep, policy, "server-role channel, keys it secures with", &cn, &sn, &sl, case);
    if cl != sr {
        rep.violation(
            "kdf|ends-disagree|client-sends".to_string(),
            format!(
                "{}: the keys the client secures with {:?} are not the keys the server verifies with {:?}",
                pname(policy),
                keys_json(&cl),
                keys_json(&sr)
            ),
            case.clone(),
        );
    }
    if sl != cr {
        rep.violation(
            "kdf|ends-disagree|server-sends".to_string(),
            format!(
                "{}: the keys the server secures with {:?} are not the keys the client verifies with {:?}",
                pname(policy),
                keys_json(&sl),
                keys_json(&cr)
            ),
            case.clone(),
        );
    }
}

pub fn c13(args: &Args, rep: &mut Report) {
    let ids = Idents::new();
    let log_path = std::path::Path::new(&args.out)
        .parent()
        .map(|p| p.join(format!("kdf_{}.jsonl", args.shard)));
    let mut ctx = Ctx {
        log: if args.replay.is_some() {
            None
        } else {
            log_path.and_then(|p| std::fs::File::create(p).ok())
        },
        seen: HashMap::new(),
        tuples: 0,
    };
    if let Some(path) = &args.replay {
        match read_replay(path) {
            Some(case) => run_case(&mut ctx, &ids, rep, &case),
            None => rep.inconclusive("cannot read replay file"),
        }
        return;
    }
    if ctx.log.is_none() {
        rep.inconclusive("cannot create the key log for the offline oracle");
    }
    let mut rng = Rng::new(args.seed ^ 0xC13 ^ ((args.shard as u64) << 32));
    let mut cases: Vec<Value> = Vec::new();
    // grid: every policy x every length 0..=64 on either side (the other side at the policy's length),
    // split over the shards
    let mut idx = 0usize;
    for p in POLICIES {
        for len in 0..=64usize {
            for side in 0..3 {
                idx += 1;
                if idx % args.shards != args.shard {
                    continue;
                }
                let (lc, ls) = match side {
                    0 => (len, nonce_len(p)),
                    1 => (nonce_len(p), len),
                    _ => (len, len),
                };
                for via in ["setters", "make_keys"] {
                    let cn = gen_nonce(&mut rng, lc);
                    let sn = if side == 2 && rng.chance(1, 3) { cn.clone() } else { gen_nonce(&mut rng, ls) };
                    cases.push(json!({"via": via, "policy": pname(p), "client_nonce": hex(&cn), "server_nonce": hex(&sn)}));
                }
            }
        }
    }
    // related nonce pairs: one bit apart, prefix of one another, swapped
    let related = args.budget(600, 6000);
    for _ in 0..related {
        let p = *rng.pick(&POLICIES);
        let len = if rng.chance(2, 3) { nonce_len(p) } else { rng.usize(65) };
        let a = gen_nonce(&mut rng, len);
        let mut b = a.clone();
        match rng.below(4) {
            0 if !b.is_empty() => {
                let i = rng.usize(b.len());
                b[i] ^= 1 << rng.below(8);
            }
            1 => b.push(rng.next_u32() as u8),
            2 if !b.is_empty() => {
                b.pop();
            }
            _ => b.reverse(),
        }
        let via = if rng.bool() { "setters" } else { "make_keys" };
        cases.push(json!({"via": via, "policy": pname(p), "client_nonce": hex(&a), "server_nonce": hex(&b)}));
        cases.push(json!({"via": via, "policy": pname(p), "client_nonce": hex(&b), "server_nonce": hex(&a)}));
    }
    // random
    let random = args.budget(6000, 120_000);
    for _ in 0..random {
        let p = *rng.pick(&POLICIES);
        let (lc, ls) = if rng.chance(1, 2) {
            (nonce_len(p), nonce_len(p))
        } else {
            (rng.usize(65), rng.usize(65))
        };
        let via = if rng.chance(2, 3) { "setters" } else { "make_keys" };
        let cn = gen_nonce(&mut rng, lc);
        let sn = gen_nonce(&mut rng, ls);
        cases.push(json!({"via": via, "policy": pname(p), "client_nonce": hex(&cn), "server_nonce": hex(&sn)}));
    }
    // through the full OPN exchange (RSA transport of the nonces), nonces of the policy's length
    let hs = args.budget(40, 320);
    for i in 0..hs {
        let p = POLICIES[(i as usize + args.shard) % POLICIES.len()];
        let cn = gen_nonce(&mut rng, nonce_len(p));
        let sn = if rng.chance(1, 6) { cn.clone() } else { gen_nonce(&mut rng, nonce_len(p)) };
        let mode = if rng.bool() { "Sign" } else { "SignAndEncrypt" };
        cases.push(json!({"via": "handshake", "policy": pname(p), "mode": mode, "kc": rng.below(2), "ks": rng.below(2),
                          "client_nonce": hex(&cn), "server_nonce": hex(&sn)}));
    }
    let mut hs_done = 0u64;
    for case in &cases {
        if jstr(case, "via") == "handshake" {
            hs_done += 1;
        }
        run_case(&mut ctx, &ids, rep, case);
    }
    rep.count("key_tuples_compared_with_reference", ctx.tuples);
    rep.count("distinct_key_tuples", ctx.seen.len() as u64);
    rep.count("cases_through_full_opn_handshake", hs_done);
    if let Some(f) = ctx.log.as_mut() {
        let _ = f.flush();
    }
}
