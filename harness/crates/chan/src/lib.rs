//! Secure-channel workloads: C07 chunking + security round trip, C08 tamper rejection,
//! C09 totality of the receive path, C13 key derivation.
#[allow(unused_imports)]
pub(crate) use vh_common::{common, gen, pki};
pub mod c07;
pub mod c08;
pub mod c09;
pub mod c13;
pub mod p_chan;
pub use p_chan::{child, dispatch};
