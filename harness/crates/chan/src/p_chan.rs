//! Secure-channel properties C07, C08, C09, C13: dispatch and the machinery shared by the four
//! workloads (identities, real client/server `SecureChannel` pairs keyed through the real
//! nonce / key-derivation path, an independent wire-header parser, hostile-sender tooling).
//!
//! All verdicts come from executions of the real code in /repo/lib (Chunker, MessageChunk,
//! SecureChannel, SecurityPolicy, AesKey, PKey). What the harness owns is (a) the generators,
//! (b) a 40-line parser of the plain chunk headers used to *observe* what was emitted, (c) a
//! hostile peer that secures arbitrary plain text with the OpenSSL primitives directly, and
//! (d) for C13 an RFC 5246 P_hash written over OpenSSL's HMAC (the Python oracle repeats it with
//! hashlib).
use crate::common::*;
use crate::pki;
use opcua::core::comms::chunker::Chunker;
use opcua::core::comms::message_chunk::MessageChunk;
use opcua::core::comms::secure_channel::{Role, SecureChannel};
use opcua::core::supported_message::SupportedMessage;
use opcua::crypto::{CertificateStore, KeySize, PrivateKey, SecurityPolicy, X509};
use opcua::sync::RwLock;
use opcua::types::service_types::{
    ChannelSecurityToken, OpenSecureChannelRequest, OpenSecureChannelResponse,
    SecurityTokenRequestType,
};
use opcua::types::{
    ByteString, DateTime, DecodingOptions, DiagnosticBits, DiagnosticInfo, ExtensionObject,
    MessageSecurityMode, NodeId, RequestHeader, ResponseHeader, StatusCode, UAString,
};
use serde_json::Value;
use std::collections::HashMap;
use std::str::FromStr;
use std::sync::{Arc, Mutex};

pub fn dispatch(args: &Args, rep: &mut Report) -> bool {
    match args.prop.as_str() {
        "C07" => crate::c07::c07(args, rep),
        "C08" => crate::c08::c08(args, rep),
        "C09" => crate::c09::c09(args, rep),
        "C13" => crate::c13::c13(args, rep),
        _ => return false,
    }
    true
}

pub fn child(name: &str, rest: &[String]) -> Option<i32> {
    match name {
        "chan-c09-vg" => Some(crate::c09::valgrind_child(rest)),
        _ => None,
    }
}

// ---------------------------------------------------------------------------------------------
// names
// ---------------------------------------------------------------------------------------------

pub const POLICIES: [SecurityPolicy; 5] = [
    SecurityPolicy::Basic128Rsa15,
    SecurityPolicy::Basic256,
    SecurityPolicy::Basic256Sha256,
    SecurityPolicy::Aes128Sha256RsaOaep,
    SecurityPolicy::Aes256Sha256RsaPss,
];

pub fn pname(p: SecurityPolicy) -> &'static str {
    match p {
        SecurityPolicy::Unknown => "Unknown",
        _ => p.to_str(),
    }
}

pub fn pfrom(s: &str) -> SecurityPolicy {
    SecurityPolicy::from_str(s).unwrap_or(SecurityPolicy::Unknown)
}

pub fn mname(m: MessageSecurityMode) -> &'static str {
    match m {
        MessageSecurityMode::None => "None",
        MessageSecurityMode::Sign => "Sign",
        MessageSecurityMode::SignAndEncrypt => "SignAndEncrypt",
        MessageSecurityMode::Invalid => "Invalid",
    }
}

pub fn mfrom(s: &str) -> MessageSecurityMode {
    match s {
        "Sign" => MessageSecurityMode::Sign,
        "SignAndEncrypt" => MessageSecurityMode::SignAndEncrypt,
        "Invalid" => MessageSecurityMode::Invalid,
        _ => MessageSecurityMode::None,
    }
}

/// key sizes (bits) a policy admits, as the repository's own table says (Part 7)
pub fn policy_bits(p: SecurityPolicy) -> [u32; 2] {
    match p {
        SecurityPolicy::Basic128Rsa15 | SecurityPolicy::Basic256 => [1024, 2048],
        _ => [2048, 4096],
    }
}

pub fn status_name(s: StatusCode) -> String {
    format!("{}", s)
}

pub fn read_replay(path: &str) -> Option<Value> {
    let s = std::fs::read_to_string(path).ok()?;
    let v: Value = serde_json::from_str(&s).ok()?;
    if v.get("case").is_some() {
        Some(v["case"].clone())
    } else {
        Some(v)
    }
}

pub fn jstr<'a>(v: &'a Value, k: &str) -> &'a str {
    v.get(k).and_then(|x| x.as_str()).unwrap_or("")
}

pub fn ju64(v: &Value, k: &str) -> u64 {
    v.get(k).and_then(|x| x.as_u64()).unwrap_or(0)
}

pub fn jhex(v: &Value, k: &str) -> Vec<u8> {
    unhex(jstr(v, k))
}

// ---------------------------------------------------------------------------------------------
// identities
// ---------------------------------------------------------------------------------------------

pub struct Ident {
    pub name: String,
    pub bits: u32,
    pub cert: X509,
    pub der: Vec<u8>,
    pem: Vec<u8>,
}

impl Ident {
    /// PrivateKey has no Clone; every channel gets its own parsed copy
    pub fn key(&self) -> PrivateKey {
        PrivateKey::from_pem(&self.pem).expect("cached private key parses")
    }
    pub fn key_bytes(&self) -> usize {
        (self.bits / 8) as usize
    }
}

fn with_pki_lock<T>(f: impl FnOnce() -> T) -> T {
    use std::os::unix::io::AsRawFd;
    let path = pki::pki_dir().join(".p_crypto.lock");
    let file = std::fs::OpenOptions::new().create(true).write(true).open(&path).ok();
    if let Some(f) = file.as_ref() {
        unsafe {
            libc::flock(f.as_raw_fd(), libc::LOCK_EX);
        }
    }
    let r = f();
    if let Some(f) = file.as_ref() {
        unsafe {
            libc::flock(f.as_raw_fd(), libc::LOCK_UN);
        }
    }
    r
}

pub fn load_ident(name: &str, bits: u32) -> Result<Ident, String> {
    let mut last = String::new();
    for _ in 0..20 {
        let (cert, key) = with_pki_lock(|| pki::identity(name, bits));
        let der = cert.to_der().map_err(|_| "cert to der".to_string())?;
        let pem = key.private_key_to_pem().map_err(|_| "key to pem".to_string())?;
        // certificate and key must belong together: sign with one, verify with the other
        let pk = cert.public_key().map_err(|e| format!("public key: {}", e))?;
        let mut sig = vec![0u8; key.size()];
        let ok = key
            .sign_sha256(b"vh_chan identity self test", &mut sig)
            .ok()
            .and_then(|_| pk.verify_sha256(b"vh_chan identity self test", &sig).ok())
            .unwrap_or(false);
        if ok && key.size() * 8 == bits as usize {
            return Ok(Ident {
                name: name.to_string(),
                bits,
                cert,
                der,
                pem,
            });
        }
        last = format!("cached identity {} {}: certificate and private key do not belong together", name, bits);
        std::thread::sleep(std::time::Duration::from_millis(150));
    }
    Err(last)
}

/// Lazily loaded identities: names crA (client), crB (server), crC (a third party) at 1024/2048/4096
pub struct Idents {
    map: Mutex<HashMap<(String, u32), Arc<Ident>>>,
}

impl Idents {
    pub fn new() -> Idents {
        Idents {
            map: Mutex::new(HashMap::new()),
        }
    }
    pub fn get(&self, name: &str, bits: u32) -> Result<Arc<Ident>, String> {
        let mut m = self.map.lock().unwrap();
        if let Some(i) = m.get(&(name.to_string(), bits)) {
            return Ok(i.clone());
        }
        let i = Arc::new(load_ident(name, bits)?);
        m.insert((name.to_string(), bits), i.clone());
        Ok(i)
    }
}

pub const CLIENT_ID: &str = "crA";
pub const SERVER_ID: &str = "crB";
pub const THIRD_ID: &str = "crC";

// ---------------------------------------------------------------------------------------------
// channels
// ---------------------------------------------------------------------------------------------

/// Generous limits so that the payload sizes of C07 decode; the defaults are used by C09
pub fn big_options() -> DecodingOptions {
    DecodingOptions {
        max_message_size: 0,
        max_chunk_count: 0,
        max_string_length: 1 << 20,
        max_byte_string_length: 4 << 20,
        max_array_length: 100_000,
        ..DecodingOptions::default()
    }
}

/// A real SecureChannel of the given role. The certificate store handed to the constructor points at a
/// directory that does not exist, so the channel starts without certificate; the identity is then installed
/// through the same public setters the client transport uses (set_cert / set_private_key).
pub fn new_channel(role: Role, ident: Option<&Ident>, opts: DecodingOptions) -> SecureChannel {
    let dir = pki::work_dir().join("scratch").join("chan_no_such_pki");
    let store = Arc::new(RwLock::new(CertificateStore::new(&dir)));
    let mut ch = SecureChannel::new(store, role, opts);
    if let Some(id) = ident {
        ch.set_cert(Some(id.cert.clone()));
        ch.set_private_key(Some(id.key()));
    }
    ch
}

pub fn fixed_time() -> DateTime {
    DateTime::ymd_hms(2024, 2, 29, 12, 0, 0)
}

pub fn request_header(handle: u32) -> RequestHeader {
    RequestHeader {
        authentication_token: NodeId::new(0, 77u32),
        timestamp: fixed_time(),
        request_handle: handle,
        return_diagnostics: DiagnosticBits::empty(),
        audit_entry_id: UAString::null(),
        timeout_hint: 30_000,
        additional_header: ExtensionObject::null(),
    }
}

pub fn response_header(handle: u32) -> ResponseHeader {
    ResponseHeader {
        timestamp: fixed_time(),
        request_handle: handle,
        service_result: StatusCode::Good,
        service_diagnostics: DiagnosticInfo::null(),
        string_table: None,
        additional_header: ExtensionObject::null(),
    }
}

pub fn opn_request(mode: MessageSecurityMode, renew: bool, nonce: &[u8], null_nonce: bool) -> SupportedMessage {
    OpenSecureChannelRequest {
        request_header: request_header(1),
        client_protocol_version: 0,
        request_type: if renew {
            SecurityTokenRequestType::Renew
        } else {
            SecurityTokenRequestType::Issue
        },
        security_mode: mode,
        client_nonce: if null_nonce { ByteString::null() } else { ByteString::from(nonce.to_vec()) },
        requested_lifetime: 60_000,
    }
    .into()
}

pub fn opn_response(channel_id: u32, token_id: u32, nonce: &[u8], null_nonce: bool) -> SupportedMessage {
    OpenSecureChannelResponse {
        response_header: response_header(1),
        server_protocol_version: 0,
        security_token: ChannelSecurityToken {
            channel_id,
            token_id,
            created_at: fixed_time(),
            revised_lifetime: 60_000,
        },
        server_nonce: if null_nonce { ByteString::null() } else { ByteString::from(nonce.to_vec()) },
    }
    .into()
}

/// What the sender produced for one message
pub struct Wire {
    /// the sender's plain chunks (Chunker::encode)
    pub plain: Vec<MessageChunk>,
    /// the bytes that would go on the socket, one per chunk (apply_security)
    pub secured: Vec<Vec<u8>>,
}

#[derive(Debug, Clone)]
pub struct Fail {
    pub stage: &'static str,
    pub status: String,
    pub chunk: usize,
}

impl Fail {
    fn new(stage: &'static str, status: StatusCode, chunk: usize) -> Fail {
        Fail {
            stage,
            status: status_name(status),
            chunk,
        }
    }
}

/// Sender side exactly as SendBuffer does it: Chunker::encode, then apply_security per chunk
pub fn send_message(
    sender: &SecureChannel,
    seq: u32,
    request_id: u32,
    chunk_size: usize,
    msg: &SupportedMessage,
) -> Result<Wire, Fail> {
    let plain = Chunker::encode(seq, request_id, 0, chunk_size, sender, msg).map_err(|e| Fail::new("encode", e, 0))?;
    let mut secured = Vec::with_capacity(plain.len());
    for (i, c) in plain.iter().enumerate() {
        // room for signature, padding and RSA expansion (cipher text is at most ~2.1x the plain text
        // for a 1024-bit key under OAEP-SHA256)
        let is_opn = c.data.starts_with(b"OPN");
        let mut dst = vec![0u8; if is_opn { c.data.len() * 3 + 8192 } else { c.data.len() + 1024 }];
        let n = sender.apply_security(c, &mut dst).map_err(|e| Fail::new("apply_security", e, i))?;
        dst.truncate(n);
        secured.push(dst);
    }
    Ok(Wire { plain, secured })
}

/// Receiver side exactly as the transports do it: verify_and_remove_security per chunk, then
/// validate_chunks and Chunker::decode
pub fn receive_message(
    receiver: &mut SecureChannel,
    expected_seq: u32,
    secured: &[Vec<u8>],
) -> Result<(Vec<MessageChunk>, u32, SupportedMessage), Fail> {
    let mut rx = Vec::with_capacity(secured.len());
    for (i, s) in secured.iter().enumerate() {
        rx.push(receiver.verify_and_remove_security(s).map_err(|e| Fail::new("verify_and_remove_security", e, i))?);
    }
    let last = Chunker::validate_chunks(expected_seq, receiver, &rx).map_err(|e| Fail::new("validate_chunks", e, 0))?;
    let m = Chunker::decode(&rx, receiver, None).map_err(|e| Fail::new("decode", e, 0))?;
    Ok((rx, last, m))
}

pub struct HsParams {
    pub policy: SecurityPolicy,
    pub mode: MessageSecurityMode,
    pub client_nonce: Vec<u8>,
    pub server_nonce: Vec<u8>,
    pub channel_id: u32,
    pub token_id: u32,
    pub chunk_size: usize,
    pub opts: DecodingOptions,
}

pub struct Pair {
    pub policy: SecurityPolicy,
    pub mode: MessageSecurityMode,
    pub client: SecureChannel,
    pub server: SecureChannel,
    /// next sequence number client -> server / server -> client
    pub c2s_seq: u32,
    pub s2c_seq: u32,
    pub next_req: u32,
    /// the two OPN exchanges of the handshake
    pub opn_req_msg: SupportedMessage,
    pub opn_req: Wire,
    pub opn_resp_msg: SupportedMessage,
    pub opn_resp: Wire,
    /// receiver-side chunks of both
    pub opn_req_rx: Vec<MessageChunk>,
    pub opn_resp_rx: Vec<MessageChunk>,
    pub opn_req_decoded: SupportedMessage,
    pub opn_resp_decoded: SupportedMessage,
}

/// The client channel configured like client/transport/channel.rs::create_transport does it
pub fn client_channel(
    policy: SecurityPolicy,
    mode: MessageSecurityMode,
    cid: Option<&Ident>,
    sid: Option<&Ident>,
    opts: DecodingOptions,
) -> SecureChannel {
    let mut client = new_channel(Role::Client, cid, opts);
    client.set_security_policy(policy);
    client.set_security_mode(mode);
    if let Some(sid) = sid {
        let _ = client.set_remote_cert_from_byte_string(&ByteString::from(sid.der.clone()));
    }
    client
}

/// Everything SecureChannelService::open_secure_channel does to the server's channel for an accepted
/// Issue/Renew, with the server nonce supplied (the service calls create_random_nonce at that point).
pub fn server_accept_open(
    server: &mut SecureChannel,
    rx_first: &MessageChunk,
    req: &OpenSecureChannelRequest,
    server_nonce: &[u8],
    channel_id: u32,
    token_id: u32,
) -> Result<(), String> {
    let info = rx_first.chunk_info(server).map_err(|e| format!("chunk_info of the received OPN: {}", e))?;
    let hdr = match info.security_header {
        opcua::core::comms::security_header::SecurityHeader::Asymmetric(h) => h,
        _ => return Err("OPN without asymmetric header".into()),
    };
    server.set_security_mode(req.security_mode);
    server.set_token_id(token_id);
    server.set_secure_channel_id(channel_id);
    server
        .set_remote_cert_from_byte_string(&hdr.sender_certificate)
        .map_err(|e| format!("set_remote_cert_from_byte_string: {}", e))?;
    server
        .set_remote_nonce_from_byte_string(&req.client_nonce)
        .map_err(|e| format!("server set_remote_nonce_from_byte_string: {}", e))?;
    server.set_local_nonce(server_nonce);
    if server.security_policy() != SecurityPolicy::None
        && (req.security_mode == MessageSecurityMode::Sign || req.security_mode == MessageSecurityMode::SignAndEncrypt)
    {
        server.derive_keys();
    }
    Ok(())
}

/// What SecureChannelState::end_issue_or_renew_secure_channel does to the client's channel
pub fn client_accept_open(client: &mut SecureChannel, resp: &OpenSecureChannelResponse) -> Result<(), String> {
    client.set_security_token(resp.security_token.clone());
    if client.security_policy() != SecurityPolicy::None
        && (client.security_mode() == MessageSecurityMode::Sign
            || client.security_mode() == MessageSecurityMode::SignAndEncrypt)
    {
        client
            .set_remote_nonce_from_byte_string(&resp.server_nonce)
            .map_err(|e| format!("client set_remote_nonce_from_byte_string: {}", e))?;
        client.derive_keys();
    }
    Ok(())
}

/// Opens a channel between a real client-role and a real server-role SecureChannel: the OPN request and
/// response travel through Chunker::encode, apply_security, verify_and_remove_security, Chunker::decode,
/// the nonces are installed through set_local_nonce / set_remote_nonce_from_byte_string and the keys come
/// from derive_keys on both ends.
pub fn handshake(p: &HsParams, cid: Option<&Ident>, sid: Option<&Ident>) -> Result<Pair, String> {
    let secured = p.policy != SecurityPolicy::None;
    let mut client = client_channel(p.policy, p.mode, cid, sid, p.opts.clone());
    client.set_local_nonce(&p.client_nonce);
    let req_msg = opn_request(p.mode, false, &p.client_nonce, !secured);
    let opn_req = send_message(&client, 1, 1, p.chunk_size, &req_msg)
        .map_err(|f| format!("client could not send OPN: {} {}", f.stage, f.status))?;

    let mut server = new_channel(Role::Server, sid, p.opts.clone());
    let (rx, _, decoded_req) = receive_message(&mut server, 1, &opn_req.secured)
        .map_err(|f| format!("server could not receive OPN: {} {}", f.stage, f.status))?;
    let req = match &decoded_req {
        SupportedMessage::OpenSecureChannelRequest(r) => (**r).clone(),
        _ => return Err("server decoded something else than an OpenSecureChannelRequest".into()),
    };
    server_accept_open(&mut server, &rx[0], &req, &p.server_nonce, p.channel_id, p.token_id)?;

    let resp_msg = opn_response(p.channel_id, p.token_id, &p.server_nonce, server.local_nonce().is_empty());
    let opn_resp = send_message(&server, 1, 1, p.chunk_size, &resp_msg)
        .map_err(|f| format!("server could not send OPN response: {} {}", f.stage, f.status))?;
    let (rx2, _, decoded_resp) = receive_message(&mut client, 1, &opn_resp.secured)
        .map_err(|f| format!("client could not receive OPN response: {} {}", f.stage, f.status))?;
    let resp = match &decoded_resp {
        SupportedMessage::OpenSecureChannelResponse(r) => (**r).clone(),
        _ => return Err("client decoded something else than an OpenSecureChannelResponse".into()),
    };
    client_accept_open(&mut client, &resp)?;
    Ok(Pair {
        policy: p.policy,
        mode: p.mode,
        client,
        server,
        c2s_seq: 2,
        s2c_seq: 2,
        next_req: 2,
        opn_req_msg: req_msg,
        opn_req,
        opn_resp_msg: resp_msg,
        opn_resp,
        opn_req_rx: rx,
        opn_resp_rx: rx2,
        opn_req_decoded: decoded_req,
        opn_resp_decoded: decoded_resp,
    })
}

pub fn nonce_len(p: SecurityPolicy) -> usize {
    match p {
        SecurityPolicy::Basic128Rsa15 => 16,
        SecurityPolicy::None => 0,
        _ => 32,
    }
}

/// A pair opened with seeded nonces of the policy's length
pub fn open_pair(
    ids: &Idents,
    policy: SecurityPolicy,
    mode: MessageSecurityMode,
    cbits: u32,
    sbits: u32,
    nonce_seed: u64,
    chunk_size: usize,
    opts: DecodingOptions,
) -> Result<Pair, String> {
    let mut r = Rng::new(nonce_seed ^ 0x5EED_0C07);
    let n = nonce_len(policy);
    let p = HsParams {
        policy,
        mode,
        client_nonce: r.bytes(n),
        server_nonce: r.bytes(n),
        channel_id: 1 + (nonce_seed % 1000) as u32,
        token_id: 1 + (nonce_seed % 7) as u32,
        chunk_size,
        opts,
    };
    if policy == SecurityPolicy::None && cbits == 0 {
        handshake(&p, None, None)
    } else {
        let c = ids.get(CLIENT_ID, cbits)?;
        let s = ids.get(SERVER_ID, sbits)?;
        handshake(&p, Some(&c), Some(&s))
    }
}

// ---------------------------------------------------------------------------------------------
// independent view of the plain chunk headers
// ---------------------------------------------------------------------------------------------

#[derive(Debug, Clone)]
pub struct Hdr {
    pub mtype: [u8; 3],
    pub fin: u8,
    pub size: u32,
    pub channel_id: u32,
    pub token_id: Option<u32>,
    pub policy_uri: Option<Vec<u8>>,
    pub cert: Option<Vec<u8>>,
    pub thumb: Option<Vec<u8>>,
    /// offsets of the three asymmetric header fields' length prefixes (OPN only)
    pub uri_off: usize,
    pub cert_off: usize,
    pub thumb_off: usize,
    /// offset of the sequence header
    pub seq_off: usize,
}

fn rd_u32(d: &[u8], at: usize) -> Option<u32> {
    if at + 4 <= d.len() {
        Some(u32::from_le_bytes([d[at], d[at + 1], d[at + 2], d[at + 3]]))
    } else {
        None
    }
}

fn rd_bytes(d: &[u8], at: usize) -> Option<(Option<Vec<u8>>, usize)> {
    let n = rd_u32(d, at)? as i32;
    if n < 0 {
        return Some((None, at + 4));
    }
    let n = n as usize;
    if at + 4 + n > d.len() {
        return None;
    }
    Some((Some(d[at + 4..at + 4 + n].to_vec()), at + 4 + n))
}

/// Message header and security header of a chunk (secured or plain: both are never encrypted)
pub fn parse_hdr(d: &[u8]) -> Option<Hdr> {
    if d.len() < 16 {
        return None;
    }
    let mut h = Hdr {
        mtype: [d[0], d[1], d[2]],
        fin: d[3],
        size: rd_u32(d, 4)?,
        channel_id: rd_u32(d, 8)?,
        token_id: None,
        policy_uri: None,
        cert: None,
        thumb: None,
        uri_off: 0,
        cert_off: 0,
        thumb_off: 0,
        seq_off: 0,
    };
    if &h.mtype == b"OPN" {
        h.uri_off = 12;
        let (uri, at) = rd_bytes(d, 12)?;
        h.cert_off = at;
        let (cert, at) = rd_bytes(d, at)?;
        h.thumb_off = at;
        let (thumb, at) = rd_bytes(d, at)?;
        h.policy_uri = uri;
        h.cert = cert;
        h.thumb = thumb;
        h.seq_off = at;
    } else {
        h.token_id = rd_u32(d, 12);
        h.seq_off = 16;
    }
    Some(h)
}

/// (sequence number, request id, body) of a *plain* chunk
pub fn parse_plain(d: &[u8]) -> Option<(Hdr, u32, u32, &[u8])> {
    let h = parse_hdr(d)?;
    let seq = rd_u32(d, h.seq_off)?;
    let req = rd_u32(d, h.seq_off + 4)?;
    let body = &d[h.seq_off + 8..];
    Some((h, seq, req, body))
}

pub fn patch_size(d: &mut [u8]) {
    if d.len() >= 8 {
        let n = (d.len() as u32).to_le_bytes();
        d[4..8].copy_from_slice(&n);
    }
}

// ---------------------------------------------------------------------------------------------
// panic attribution: the function a panic location lies in, read from the source file
// ---------------------------------------------------------------------------------------------

static FN_CACHE: Mutex<Option<HashMap<(String, u32), String>>> = Mutex::new(None);

pub fn enclosing_fn(file: &str, line: u32) -> String {
    let mut guard = FN_CACHE.lock().unwrap();
    let cache = guard.get_or_insert_with(HashMap::new);
    if let Some(s) = cache.get(&(file.to_string(), line)) {
        return s.clone();
    }
    let mut out = "?".to_string();
    if let Ok(src) = std::fs::read_to_string(file) {
        let lines: Vec<&str> = src.lines().collect();
        let re = regex::Regex::new(r"^\s*(?:pub(?:\([a-z]+\))?\s+)?(?:unsafe\s+)?fn\s+([A-Za-z0-9_]+)").unwrap();
        let mut i = (line as usize).min(lines.len());
        while i > 0 {
            i -= 1;
            if let Some(c) = re.captures(lines[i]) {
                out = c[1].to_string();
                break;
            }
        }
    }
    cache.insert((file.to_string(), line), out.clone());
    out
}

/// Stable signature of a panic on the receive path: enclosing function + file + normalised message
pub fn panic_sig(prefix: &str, p: &PanicInfo) -> String {
    // PanicInfo::signature() = panic|<file>|<message with digits normalised, up to 100 chars>; OpenSSL error stacks
    // and the like make the tail of long messages environment dependent, so only the head is kept
    let full = p.signature();
    let mut parts = full.splitn(3, '|');
    let _ = parts.next();
    let file = parts.next().unwrap_or("?");
    let msg: String = parts.next().unwrap_or("").chars().take(56).collect();
    format!("{}|fn {}|{}|{}", prefix, enclosing_fn(&p.file, p.line), file, msg.trim_end())
}

/// "panics with overflow checks on; wraps in release" marker for the detail text
pub fn overflow_note(p: &PanicInfo) -> &'static str {
    if p.msg.contains("with overflow") {
        " (arithmetic overflow: panics in builds with overflow checks, which is what the repository's test profile uses; \
          the release profile wraps instead, see the finding for what the wrapped value does)"
    } else {
        ""
    }
}

// ---------------------------------------------------------------------------------------------
// the hostile peer: secures arbitrary plain text without going through SecureChannel::apply_security
// ---------------------------------------------------------------------------------------------

pub fn sym_sig_len(p: SecurityPolicy) -> usize {
    match p {
        SecurityPolicy::Basic128Rsa15 | SecurityPolicy::Basic256 => 20,
        _ => 32,
    }
}

pub fn ossl_hmac(p: SecurityPolicy, key: &[u8], data: &[u8]) -> Vec<u8> {
    let md = match p {
        SecurityPolicy::Basic128Rsa15 | SecurityPolicy::Basic256 => openssl::hash::MessageDigest::sha1(),
        _ => openssl::hash::MessageDigest::sha256(),
    };
    hmac_md(md, key, data)
}

pub fn hmac_md(md: openssl::hash::MessageDigest, key: &[u8], data: &[u8]) -> Vec<u8> {
    // HMAC pads the key with zeros, so an empty key and a single zero byte are the same key; OpenSSL 3
    // refuses a zero-length raw key, the one-zero-byte form is accepted everywhere
    let k: &[u8] = if key.is_empty() { &[0u8] } else { key };
    let pkey = openssl::pkey::PKey::hmac(k).expect("hmac key");
    let mut s = openssl::sign::Signer::new(md, &pkey).expect("signer");
    s.update(data).expect("hmac update");
    s.sign_to_vec().expect("hmac sign")
}

pub fn ossl_aes_cbc(encrypt: bool, key: &[u8], iv: &[u8], data: &[u8]) -> Option<Vec<u8>> {
    use openssl::symm::{Cipher, Crypter, Mode};
    let cipher = match key.len() {
        16 => Cipher::aes_128_cbc(),
        32 => Cipher::aes_256_cbc(),
        _ => return None,
    };
    if data.len() % 16 != 0 {
        return None;
    }
    let mut c = Crypter::new(cipher, if encrypt { Mode::Encrypt } else { Mode::Decrypt }, key, Some(iv)).ok()?;
    c.pad(false);
    let mut out = vec![0u8; data.len() + 32];
    let n = c.update(data, &mut out).ok()?;
    let m = c.finalize(&mut out[n..]).ok()?;
    out.truncate(n + m);
    Some(out)
}

/// Secures `plain` (a whole MSG/CLO chunk up to and excluding the signature, message_size not yet final)
/// with the given symmetric keys the way Part 6 says: HMAC over everything, then AES-CBC from the sequence
/// header on. `plain.len() - 16 + signature` must be a multiple of 16 when encrypting; None otherwise.
pub fn hostile_sym_secure(
    policy: SecurityPolicy,
    encrypt: bool,
    keys: &(Vec<u8>, Vec<u8>, Vec<u8>),
    plain: &[u8],
) -> Option<Vec<u8>> {
    let mut d = plain.to_vec();
    let total = d.len() + sym_sig_len(policy);
    if d.len() < 16 {
        return None;
    }
    d[4..8].copy_from_slice(&(total as u32).to_le_bytes());
    let sig = ossl_hmac(policy, &keys.0, &d);
    d.extend_from_slice(&sig);
    if encrypt {
        let enc = ossl_aes_cbc(true, &keys.1, &keys.2, &d[16..])?;
        d.truncate(16);
        d.extend_from_slice(&enc);
    }
    Some(d)
}

/// OPN header bytes: message header (size left 0) + asymmetric security header from raw fields.
/// A field of None is written as a null (-1) string.
pub fn opn_header(fin: u8, channel_id: u32, uri: Option<&[u8]>, cert: Option<&[u8]>, thumb: Option<&[u8]>) -> Vec<u8> {
    let mut d = Vec::new();
    d.extend_from_slice(b"OPN");
    d.push(fin);
    d.extend_from_slice(&0u32.to_le_bytes());
    d.extend_from_slice(&channel_id.to_le_bytes());
    for f in [uri, cert, thumb] {
        match f {
            None => d.extend_from_slice(&(-1i32).to_le_bytes()),
            Some(b) => {
                d.extend_from_slice(&(b.len() as i32).to_le_bytes());
                d.extend_from_slice(b);
            }
        }
    }
    d
}

pub fn rsa_plain_block(policy: SecurityPolicy, key_bytes: usize) -> usize {
    match policy {
        SecurityPolicy::Basic128Rsa15 => key_bytes - 11,
        SecurityPolicy::Aes256Sha256RsaPss => key_bytes - 66,
        _ => key_bytes - 42,
    }
}

/// The hostile peer's OPN: `header` as produced by opn_header, `plain` = sequence header + body + padding,
/// signed (or not) with `signer` under the policy's algorithm and encrypted block-wise to `receiver`'s
/// public key with the policy's RSA padding, using the repository's own public sign / encrypt wrappers
/// only as tools. `sig` selects what goes where the signature belongs.
pub enum HostileSig<'a> {
    /// a correct signature by this key
    Valid(&'a PrivateKey),
    /// this many arbitrary bytes
    Garbage(Vec<u8>),
}

pub fn hostile_opn_secure(
    policy: SecurityPolicy,
    header: &[u8],
    plain: &[u8],
    sig: HostileSig,
    receiver: &X509,
) -> Option<Vec<u8>> {
    let pk = receiver.public_key().ok()?;
    let ks = pk.size();
    let pb = rsa_plain_block(policy, ks);
    let sig_len = match &sig {
        HostileSig::Valid(k) => k.size(),
        HostileSig::Garbage(g) => g.len(),
    };
    let plain_total = plain.len() + sig_len;
    let blocks = (plain_total + pb - 1) / pb;
    let cipher_len = blocks * ks;
    let mut tmp = header.to_vec();
    let total = header.len() + cipher_len;
    tmp[4..8].copy_from_slice(&(total as u32).to_le_bytes());
    tmp.extend_from_slice(plain);
    let signature = match sig {
        HostileSig::Valid(k) => {
            let mut s = vec![0u8; k.size()];
            policy.asymmetric_sign(k, &tmp, &mut s).ok()?;
            s
        }
        HostileSig::Garbage(g) => g,
    };
    tmp.extend_from_slice(&signature);
    let mut out = tmp[..header.len()].to_vec();
    let mut dst = vec![0u8; cipher_len + ks];
    let n = if plain_total == 0 {
        0
    } else {
        policy.asymmetric_encrypt(&pk, &tmp[header.len()..], &mut dst).ok()?
    };
    out.extend_from_slice(&dst[..n]);
    patch_size(&mut out);
    Some(out)
}

/// Position dependent payload: a displaced, dropped or repeated byte changes the content
pub fn payload(n: usize, salt: u8) -> Vec<u8> {
    (0..n)
        .map(|i| ((i as u32).wrapping_mul(2654435761) >> 13) as u8 ^ (i as u8) ^ salt)
        .collect()
}
