//! C35: every request the client sends completes exactly once.
//!
//! The real `TransportState` (through `opcua::verif::client::VerifTransportState`) is driven by
//! scripted histories of submissions, polls of `wait_for_outgoing_message` (which is where deadlines
//! are evaluated), response chunks built with the real `Chunker` / `MessageChunk` on a None channel,
//! wire errors and close. The harness holds every oneshot receiver and, after every single step,
//! looks at which receivers resolved and with what.
//!
//! Time: `TransportState::next_timeout` compares deadlines with `std::time::Instant::now()`, so tokio's
//! paused clock cannot expire a request. Deadlines are therefore real instants a few hundred
//! microseconds away (or already past, or an hour away). No verdict depends on how fast the machine is:
//! the harness reads the clock immediately before and after every call that can evaluate deadlines and
//! applies an interval rule (deadline <= t_before: must have timed out; deadline > t_after: must not
//! have; in between: either is accepted and the model follows what happened).
use crate::common::*;
use futures::FutureExt;
use opcua::core::comms::{
    chunker::Chunker,
    message_chunk::{MessageChunk, MessageChunkType, MessageIsFinalType},
    secure_channel::{Role, SecureChannel},
    tcp_codec::Message,
    tcp_types::{AcknowledgeMessage, ErrorMessage, MessageHeader, MessageType},
};
use opcua::core::supported_message::SupportedMessage;
use opcua::crypto::CertificateStore;
use opcua::sync::RwLock;
use opcua::types::*;
use opcua::verif::client::{Completion, SendBuffer, VerifTransportState};
use serde_json::{json, Value};
use std::collections::{BTreeMap, BTreeSet};
use std::sync::Arc;
use std::time::{Duration, Instant};

// ---------------------------------------------------------------------------------------------
// case description

#[derive(Clone, Debug, PartialEq)]
pub enum Dl {
    Far,
    Past,
    Us(u64),
}

#[derive(Clone, Debug, PartialEq)]
pub enum Target {
    /// the request id of submission i (if it has none yet: an id nobody will ever get)
    Sub(usize),
    /// a literal request id
    Id(u32),
    /// the k-th request id the client will hand out next (unknown now, known later)
    Next(u32),
}

#[derive(Clone, Debug, PartialEq)]
pub enum SeqMode {
    Next,
    Skip(u32),
    Stale,
}

#[derive(Clone, Debug)]
pub struct RespSpec {
    pub target: Target,
    pub chunks: usize,
    pub abort: bool,
    pub seq: SeqMode,
    pub handle_of: Option<usize>,
    pub filler: usize,
    pub bad_channel: bool,
}

#[derive(Clone, Debug)]
pub enum Step {
    Submit { dl: Dl, want: bool },
    Poll,
    Await(usize),
    Expire(usize),
    Chunk { r: usize, i: usize },
    WireError(u32),
    WireAck,
    Close(u32),
}

#[derive(Clone, Debug)]
pub struct Case {
    pub max_inflight: usize,
    pub max_pending: usize,
    pub queue: usize,
    pub channel_id: u32,
    pub responses: Vec<RespSpec>,
    pub steps: Vec<Step>,
}

impl Case {
    pub fn to_json(&self, class: &str) -> Value {
        let responses: Vec<Value> = self
            .responses
            .iter()
            .map(|r| {
                json!({
                    "target": match &r.target { Target::Sub(i) => json!({"sub": i}), Target::Id(n) => json!({"id": n}), Target::Next(k) => json!({"next": k}) },
                    "chunks": r.chunks,
                    "abort": r.abort,
                    "seq": match &r.seq { SeqMode::Next => json!("next"), SeqMode::Skip(n) => json!({"skip": n}), SeqMode::Stale => json!("stale") },
                    "handle_of": r.handle_of,
                    "filler": r.filler,
                    "bad_channel": r.bad_channel,
                })
            })
            .collect();
        let steps: Vec<Value> = self
            .steps
            .iter()
            .map(|s| match s {
                Step::Submit { dl, want } => json!({"op": "submit", "resp": want,
                    "dl": match dl { Dl::Far => json!("far"), Dl::Past => json!("past"), Dl::Us(n) => json!({"us": n}) }}),
                Step::Poll => json!({"op": "poll"}),
                Step::Await(s) => json!({"op": "await", "sub": s}),
                Step::Expire(s) => json!({"op": "expire", "sub": s}),
                Step::Chunk { r, i } => json!({"op": "chunk", "r": r, "i": i}),
                Step::WireError(c) => json!({"op": "wire_error", "code": c}),
                Step::WireAck => json!({"op": "wire_ack"}),
                Step::Close(c) => json!({"op": "close", "status": c}),
            })
            .collect();
        json!({
            "class": class,
            "cfg": {"max_inflight": self.max_inflight, "max_pending": self.max_pending, "queue": self.queue, "channel_id": self.channel_id},
            "responses": responses,
            "steps": steps,
        })
    }

    pub fn from_json(v: &Value) -> Option<Case> {
        let u = |v: &Value| v.as_u64();
        let cfg = v.get("cfg")?;
        let mut responses = Vec::new();
        for r in v.get("responses")?.as_array()? {
            let t = r.get("target")?;
            let target = if let Some(i) = t.get("sub").and_then(u) {
                Target::Sub(i as usize)
            } else if let Some(n) = t.get("id").and_then(u) {
                Target::Id(n as u32)
            } else {
                Target::Next(t.get("next").and_then(u)? as u32)
            };
            let s = r.get("seq")?;
            let seq = if s.as_str() == Some("next") {
                SeqMode::Next
            } else if s.as_str() == Some("stale") {
                SeqMode::Stale
            } else {
                SeqMode::Skip(s.get("skip").and_then(u)? as u32)
            };
            responses.push(RespSpec {
                target,
                chunks: r.get("chunks").and_then(u)? as usize,
                abort: r.get("abort")?.as_bool()?,
                seq,
                handle_of: r.get("handle_of").and_then(u).map(|x| x as usize),
                filler: r.get("filler").and_then(u)? as usize,
                bad_channel: r.get("bad_channel")?.as_bool()?,
            });
        }
        let mut steps = Vec::new();
        for s in v.get("steps")?.as_array()? {
            let op = s.get("op")?.as_str()?;
            steps.push(match op {
                "submit" => {
                    let d = s.get("dl")?;
                    let dl = if d.as_str() == Some("far") {
                        Dl::Far
                    } else if d.as_str() == Some("past") {
                        Dl::Past
                    } else {
                        Dl::Us(d.get("us").and_then(u)?)
                    };
                    Step::Submit { dl, want: s.get("resp")?.as_bool()? }
                }
                "poll" => Step::Poll,
                "await" => Step::Await(s.get("sub").and_then(u)? as usize),
                "expire" => Step::Expire(s.get("sub").and_then(u)? as usize),
                "chunk" => Step::Chunk { r: s.get("r").and_then(u)? as usize, i: s.get("i").and_then(u)? as usize },
                "wire_error" => Step::WireError(s.get("code").and_then(u)? as u32),
                "wire_ack" => Step::WireAck,
                "close" => Step::Close(s.get("status").and_then(u)? as u32),
                _ => return None,
            });
        }
        Some(Case {
            max_inflight: cfg.get("max_inflight").and_then(u)? as usize,
            max_pending: cfg.get("max_pending").and_then(u)? as usize,
            queue: cfg.get("queue").and_then(u)? as usize,
            channel_id: cfg.get("channel_id").and_then(u)? as u32,
            responses,
            steps,
        })
    }
}

// ---------------------------------------------------------------------------------------------
// executor and oracle

#[derive(Clone, Debug, PartialEq)]
enum SubState {
    /// submit() refused it (queue full or transport closed): the session gets its status synchronously
    Rejected,
    /// accepted into the outgoing queue, not yet given a request id
    Queued,
    /// dequeued, has a request id, waits for a response
    Inflight,
    /// dequeued but nobody waits for a response
    NoCallback,
    /// its receiver resolved
    Done,
}

#[derive(Clone, Debug)]
enum Outcome {
    Response(Box<SupportedMessage>),
    Status(StatusCode),
    SenderDropped,
}

struct Sub {
    deadline: Instant,
    state: SubState,
    rx: Option<Completion>,
    id: Option<u32>,
    after_close: bool,
    timed_out: bool,
}

struct Resp {
    built: bool,
    skipped: bool,
    wire_id: u32,
    target_sub: Option<usize>,
    token: u64,
    chunks: Vec<MessageChunk>,
    message: Option<SupportedMessage>,
    first_seq: u32,
    fed: Vec<u32>,
    /// how many intermediate chunk feeds happened while the target was in flight
    intermediates_fed: usize,
    /// some chunk of it was fed while its target was not in flight
    fed_while_not_inflight: bool,
}

#[derive(Default)]
pub struct Stats {
    pub steps: u64,
    pub polls: u64,
    pub awaits: u64,
    pub chunks_fed: u64,
    pub unknown_id_chunks: u64,
    pub delivered: u64,
    pub timeouts: u64,
    pub closed_with_status: u64,
    pub error_completions: u64,
    pub dropped_on_error: u64,
    pub ambiguous_polls: u64,
    pub late_chunks_for_expired: u64,
    pub rejected_submits: u64,
    pub must_deliver_checks: u64,
    pub must_timeout_checks: u64,
    pub must_close_checks: u64,
    pub receivers_checked: u64,
    pub skipped_steps: u64,
    pub unknown_by_kind: BTreeMap<&'static str, u64>,
}

pub struct CaseResult {
    pub violations: Vec<(String, String)>,
    pub features: BTreeSet<&'static str>,
}

fn mk_channel(role: Role, channel_id: u32, token_id: u32) -> SecureChannel {
    let store = Arc::new(RwLock::new(CertificateStore::new(std::path::Path::new(
        "/nonexistent/verif/pki",
    ))));
    let mut sc = SecureChannel::new(store, role, DecodingOptions::default());
    if channel_id != 0 {
        sc.set_security_token(ChannelSecurityToken {
            channel_id,
            token_id,
            created_at: DateTime::now(),
            revised_lifetime: 3_600_000,
        });
    }
    sc
}

fn token_of(msg: &SupportedMessage) -> Option<u64> {
    if let SupportedMessage::ReadResponse(r) = msg {
        if let Some(res) = &r.results {
            if let Some(dv) = res.first() {
                if let Some(Variant::UInt64(t)) = &dv.value {
                    return Some(*t);
                }
            }
        }
    }
    None
}

fn dv(v: Variant) -> DataValue {
    DataValue {
        value: Some(v),
        status: None,
        source_timestamp: None,
        source_picoseconds: None,
        server_timestamp: None,
        server_picoseconds: None,
    }
}

#[derive(Clone, Copy)]
enum Ctx {
    Submit,
    Poll { t_after: Instant },
    Chunk { wire_id: u32, resp: usize, is_last: bool, feed_err: bool },
    Wire,
    Close,
    End,
}

struct Exec<'a> {
    case: &'a Case,
    vts: VerifTransportState,
    sb: SendBuffer,
    server_sc: SecureChannel,
    bad_sc: SecureChannel,
    subs: Vec<Sub>,
    resps: Vec<Resp>,
    ids_used: BTreeMap<u32, usize>,
    last_id: u32,
    srv_seq: u32,
    closed: bool,
    nonce: u64,
    out: CaseResult,
    step_no: usize,
}

impl<'a> Exec<'a> {
    fn viol(&mut self, sig: impl Into<String>, detail: impl Into<String>) {
        let detail = format!("step {}: {}", self.step_no, detail.into());
        self.out.violations.push((sig.into(), detail));
    }

    fn inflight_snapshot(&self) -> Vec<usize> {
        (0..self.subs.len()).filter(|i| self.subs[*i].state == SubState::Inflight).collect()
    }

    /// Which receivers resolved since the last look, and with what
    fn collect(&mut self) -> Vec<(usize, Outcome)> {
        let mut v = Vec::new();
        for (i, s) in self.subs.iter_mut().enumerate() {
            if s.state == SubState::Done {
                continue;
            }
            if let Some(rx) = s.rx.as_mut() {
                use tokio::sync::oneshot::error::TryRecvError;
                match rx.try_recv() {
                    Ok(Ok(m)) => v.push((i, Outcome::Response(Box::new(m)))),
                    Ok(Err(st)) => v.push((i, Outcome::Status(st))),
                    Err(TryRecvError::Closed) => v.push((i, Outcome::SenderDropped)),
                    Err(TryRecvError::Empty) => {}
                }
            }
        }
        v
    }

    /// Judges every resolution that happened in this step against what the property allows there
    fn judge(&mut self, resolved: &[(usize, Outcome)], ctx: Ctx, stats: &mut Stats) {
        for (i, outcome) in resolved {
            let i = *i;
            let prev = self.subs[i].state.clone();
            let sub_deadline = self.subs[i].deadline;
            let sub_id = self.subs[i].id;
            self.subs[i].state = SubState::Done;
            self.subs[i].rx = None;
            stats.receivers_checked += 1;
            if prev == SubState::Queued && !matches!(ctx, Ctx::Close) {
                self.viol(
                    "completed-before-sent",
                    format!("submission {} resolved with {:?} while still in the outgoing queue", i, short(outcome)),
                );
                continue;
            }
            match outcome {
                Outcome::Response(m) => {
                    stats.delivered += 1;
                    self.out.features.insert("delivered");
                    let tok = token_of(m);
                    let ridx = tok.and_then(|t| self.resps.iter().position(|r| r.built && r.token == t));
                    // When the (hostile) peer has sent chunks of more than one message under this request id, the
                    // client assembles whatever it buffered for the id: the result is still a response carrying the
                    // request's id and nothing more can be demanded than that a final chunk for this id triggered it
                    // and that it is not a message meant for another request.
                    let contributors = self
                        .resps
                        .iter()
                        .filter(|r| r.built && Some(r.wire_id) == sub_id && r.fed.iter().any(|c| *c > 0))
                        .count();
                    if contributors > 1 {
                        self.out.features.insert("mixed-messages-for-one-id");
                        let foreign = ridx.map(|r| self.resps[r].target_sub.is_some() && self.resps[r].target_sub != Some(i)).unwrap_or(false);
                        let by_own_final = matches!(ctx, Ctx::Chunk { wire_id, is_last: true, .. } if Some(wire_id) == sub_id);
                        if foreign {
                            self.viol("cross-delivery|response-of-another-request", format!("submission {} (request id {:?}) resolved with response #{:?} built for another submission", i, sub_id, ridx));
                        } else if !by_own_final {
                            self.viol(
                                format!("delivered-at-wrong-step|{}", ctx_name(&ctx)),
                                format!("submission {} resolved with a response at a step that did not feed a final chunk for its request id", i),
                            );
                        }
                        continue;
                    }
                    let Some(ridx) = ridx else {
                        self.viol("delivered-unknown-message", format!("submission {} got a message the harness never sent: {:?}", i, tok));
                        continue;
                    };
                    if self.resps[ridx].target_sub != Some(i) {
                        let kind = match self.resps[ridx].target_sub {
                            Some(_) => "response-of-another-request",
                            None => "response-for-unassigned-id",
                        };
                        self.viol(
                            format!("cross-delivery|{}", kind),
                            format!(
                                "submission {} (request id {:?}) resolved with response #{} built for request id {} of submission {:?}",
                                i, sub_id, ridx, self.resps[ridx].wire_id, self.resps[ridx].target_sub
                            ),
                        );
                        continue;
                    }
                    if self.resps[ridx].message.as_ref() != Some(&**m) {
                        self.viol("delivered-altered-message", format!("submission {} got response #{} with different content", i, ridx));
                    }
                    match ctx {
                        Ctx::Chunk { resp, is_last, .. } if resp == ridx && is_last => {
                            if self.resps[ridx].fed.iter().any(|c| *c == 0) {
                                self.viol("incomplete-response-delivered", format!("response #{} delivered though not every chunk was fed", ridx));
                            }
                        }
                        _ => {
                            self.viol(
                                format!("delivered-at-wrong-step|{}", ctx_name(&ctx)),
                                format!("submission {} resolved with response #{} at a step that did not feed its final chunk", i, ridx),
                            );
                        }
                    }
                }
                Outcome::Status(st) => {
                    let st = *st;
                    match ctx {
                        Ctx::Poll { t_after } => {
                            if st == StatusCode::BadTimeout {
                                stats.timeouts += 1;
                                self.subs[i].timed_out = true;
                                self.out.features.insert("timeout");
                                if sub_deadline > t_after {
                                    self.viol("timeout-before-deadline", format!("submission {} got BadTimeout though its deadline had not passed when the poll returned", i));
                                }
                            } else {
                                self.viol(
                                    format!("deadline-completion-status|{}", st.name()),
                                    format!("submission {} completed with {} at a poll; only BadTimeout is produced by deadline expiry", i, st),
                                );
                            }
                        }
                        Ctx::Close => {
                            stats.closed_with_status += 1;
                            self.out.features.insert(if prev == SubState::Queued { "close-queued" } else { "close-inflight" });
                            if !st.is_bad() {
                                self.viol("close-with-non-bad-status", format!("submission {} completed with {} on close", i, st));
                            }
                        }
                        Ctx::Chunk { wire_id, .. } => {
                            if Some(wire_id) == sub_id {
                                // an error completion caused by a chunk carrying this request's id
                                stats.error_completions += 1;
                                self.out.features.insert(if st == StatusCode::BadEncodingLimitsExceeded {
                                    "too-many-chunks"
                                } else if st == StatusCode::BadCommunicationError {
                                    "abort-chunk"
                                } else {
                                    "error-by-own-chunk"
                                });
                                if st == StatusCode::BadTimeout && sub_deadline > Instant::now() {
                                    self.viol("timeout-before-deadline", format!("submission {} got BadTimeout from a chunk feed before its deadline", i));
                                }
                            } else {
                                self.viol(
                                    "completed-by-foreign-chunk",
                                    format!("submission {} (request id {:?}) completed with {} by a chunk carrying request id {}", i, sub_id, st, wire_id),
                                );
                            }
                        }
                        Ctx::Submit | Ctx::Wire | Ctx::End => {
                            self.viol(
                                format!("completed-at-wrong-step|{}", ctx_name(&ctx)),
                                format!("submission {} completed with {} at a step that cannot complete it", i, st),
                            );
                        }
                    }
                }
                Outcome::SenderDropped => {
                    // Request::send maps a dropped sender to BadConnectionClosed. That is only true to the
                    // property if the transport is in fact closing: at close, or in a feed that returned
                    // an error (the transport closes on it).
                    match ctx {
                        Ctx::Close => {
                            self.out.features.insert("dropped-at-close");
                        }
                        Ctx::Chunk { feed_err: true, .. } => {
                            stats.dropped_on_error += 1;
                            self.out.features.insert("dropped-on-fatal-chunk");
                        }
                        _ => {
                            self.viol(
                                format!("callback-dropped|{}", ctx_name(&ctx)),
                                format!("the sender of submission {} (request id {:?}) was dropped without a result while the transport stays open", i, sub_id),
                            );
                        }
                    }
                }
            }
        }
    }

    async fn do_close(&mut self, status: StatusCode, stats: &mut Stats) {
        let open: Vec<usize> = (0..self.subs.len())
            .filter(|i| self.subs[*i].rx.is_some() && matches!(self.subs[*i].state, SubState::Inflight | SubState::Queued))
            .collect();
        let _ = self.vts.close(status).await;
        self.closed = true;
        let resolved = self.collect();
        self.judge(&resolved, Ctx::Close, stats);
        for i in open {
            stats.must_close_checks += 1;
            if self.subs[i].state != SubState::Done {
                self.viol(
                    "not-completed-on-close",
                    format!("submission {} (request id {:?}) still unresolved after close({})", i, self.subs[i].id, status),
                );
            }
        }
        if !self.vts.pending().is_empty() {
            self.viol("pending-after-close", format!("{:?} still pending after close", self.vts.pending()));
        }
    }

    fn on_dequeued(&mut self, msg: &SupportedMessage, id: u32) {
        let handle = match msg {
            SupportedMessage::ReadRequest(r) => r.request_header.request_handle,
            _ => 0,
        };
        let idx = handle.wrapping_sub(1) as usize;
        if idx >= self.subs.len() {
            self.viol("dequeued-unknown-request", format!("handle {}", handle));
            return;
        }
        if let Some(prev) = self.ids_used.get(&id) {
            let prev = *prev;
            self.viol("request-id-reused", format!("request id {} given to submission {} was already given to submission {}", id, idx, prev));
        }
        self.ids_used.insert(id, idx);
        self.last_id = self.last_id.max(id);
        if self.subs[idx].state != SubState::Queued {
            self.viol("dequeued-twice", format!("submission {} dequeued in state {:?}", idx, self.subs[idx].state));
            return;
        }
        self.subs[idx].id = Some(id);
        self.subs[idx].state = if self.subs[idx].rx.is_some() { SubState::Inflight } else { SubState::NoCallback };
    }

    fn build_resp(&mut self, r: usize) {
        let spec = self.case.responses[r].clone();
        let (wire_id, target_sub) = match spec.target {
            Target::Sub(i) => match self.subs.get(i).and_then(|s| s.id.map(|id| (id, s.rx.is_some() || s.state == SubState::Done))) {
                Some((id, had_cb)) => (id, if had_cb { Some(i) } else { None }),
                None => (3_000_000 + i as u32, None),
            },
            Target::Id(n) => (n, None),
            Target::Next(k) => (self.last_id + 1 + k, None),
        };
        let n = spec.chunks.max(1);
        let first_seq = match spec.seq {
            SeqMode::Next => self.srv_seq + 1,
            SeqMode::Skip(k) => self.srv_seq + 1 + k,
            SeqMode::Stale => 1,
        };
        if spec.seq != SeqMode::Stale {
            self.srv_seq = first_seq + n as u32 - 1;
        }
        let token = (self.nonce << 12) | r as u64;
        let handle = match spec.handle_of {
            Some(j) => j as u32 + 1,
            None => match target_sub {
                Some(i) => i as u32 + 1,
                None => 0,
            },
        };
        let message: SupportedMessage = ReadResponse {
            response_header: ResponseHeader {
                timestamp: DateTime::now(),
                request_handle: handle,
                service_result: StatusCode::Good,
                service_diagnostics: DiagnosticInfo::null(),
                string_table: None,
                additional_header: ExtensionObject::null(),
            },
            results: Some(vec![
                dv(Variant::UInt64(token)),
                dv(Variant::ByteString(ByteString::from(vec![(r as u8) ^ 0x5a; spec.filler]))),
            ]),
            diagnostic_infos: None,
        }
        .into();
        let sc = if spec.bad_channel { &self.bad_sc } else { &self.server_sc };
        // one chunk from the real Chunker, then its body is cut into n pieces with the real chunk constructor
        let whole = Chunker::encode(first_seq, wire_id, 0, 0, sc, &message).expect("encode");
        let mut chunks = Vec::new();
        if n == 1 && !spec.abort {
            chunks = whole;
        } else {
            let info = whole[0].chunk_info(sc).expect("chunk info");
            let body = &whole[0].data[info.body_offset..info.body_offset + info.body_length];
            let piece = (body.len() + n - 1) / n;
            let pieces: Vec<&[u8]> = body.chunks(piece.max(1)).collect();
            let n = pieces.len();
            for (k, p) in pieces.iter().enumerate() {
                let fin = if k + 1 == n {
                    if spec.abort {
                        MessageIsFinalType::FinalError
                    } else {
                        MessageIsFinalType::Final
                    }
                } else {
                    MessageIsFinalType::Intermediate
                };
                chunks.push(MessageChunk::new(first_seq + k as u32, wire_id, MessageChunkType::Message, fin, sc, p).expect("chunk"));
            }
        }
        let n = chunks.len();
        let resp = &mut self.resps[r];
        resp.built = true;
        resp.wire_id = wire_id;
        resp.target_sub = target_sub;
        resp.token = token;
        resp.chunks = chunks;
        resp.message = Some(message);
        resp.first_seq = first_seq;
        resp.fed = vec![0; n];
    }

    async fn run(&mut self, stats: &mut Stats) {
        let steps = self.case.steps.clone();
        for (k, step) in steps.iter().enumerate() {
            self.step_no = k;
            stats.steps += 1;
            match step {
                Step::Submit { dl, want } => {
                    let now = Instant::now();
                    let deadline = match dl {
                        Dl::Far => now + Duration::from_secs(3600),
                        Dl::Past => now.checked_sub(Duration::from_millis(1)).unwrap_or(now),
                        Dl::Us(n) => now + Duration::from_micros(*n),
                    };
                    let handle = self.subs.len() as u32 + 1;
                    let req: SupportedMessage = ReadRequest {
                        request_header: RequestHeader::new(&NodeId::null(), &DateTime::now(), handle),
                        max_age: 0.0,
                        timestamps_to_return: TimestampsToReturn::Both,
                        nodes_to_read: None,
                    }
                    .into();
                    let r = self.vts.submit(req, deadline, *want);
                    let (state, rx) = match r {
                        Ok(rx) => (SubState::Queued, rx),
                        Err(()) => {
                            stats.rejected_submits += 1;
                            self.out.features.insert(if self.closed { "submit-after-close" } else { "queue-full" });
                            (SubState::Rejected, None)
                        }
                    };
                    if !*want {
                        self.out.features.insert("no-response-wanted");
                    }
                    if state == SubState::Queued && self.closed {
                        self.out.features.insert("accepted-after-close");
                    }
                    self.subs.push(Sub { deadline, state, rx, id: None, after_close: self.closed, timed_out: false });
                    let resolved = self.collect();
                    self.judge(&resolved, Ctx::Submit, stats);
                }
                Step::Poll => {
                    stats.polls += 1;
                    let before = self.inflight_snapshot();
                    if before.len() >= self.case.max_inflight {
                        self.out.features.insert("inflight-full");
                    }
                    let t_before = Instant::now();
                    let r = self.vts.wait_for_outgoing_message(&mut self.sb).now_or_never();
                    let t_after = Instant::now();
                    if let Some(Some((msg, id))) = &r {
                        self.on_dequeued(msg, *id);
                    }
                    let resolved = self.collect();
                    self.judge(&resolved, Ctx::Poll { t_after }, stats);
                    for i in before {
                        let d = self.subs[i].deadline;
                        if d <= t_before {
                            stats.must_timeout_checks += 1;
                            if self.subs[i].state != SubState::Done {
                                self.viol(
                                    "deadline-passed-not-timed-out",
                                    format!("submission {} (request id {:?}) was in flight with its deadline in the past when wait_for_outgoing_message was polled, and is still pending", i, self.subs[i].id),
                                );
                            }
                        } else if d <= t_after {
                            stats.ambiguous_polls += 1;
                        }
                    }
                }
                Step::Await(s) => {
                    let Some(sub) = self.subs.get(*s) else { stats.skipped_steps += 1; continue };
                    let dl = sub.deadline;
                    if self.closed || dl > Instant::now() + Duration::from_millis(50) {
                        stats.skipped_steps += 1;
                        continue;
                    }
                    stats.awaits += 1;
                    self.out.features.insert("awaited-expiry");
                    let before = self.inflight_snapshot();
                    let until = dl + Duration::from_millis(2);
                    let mut t_before = Instant::now();
                    let first_before = t_before;
                    loop {
                        let r = tokio::select! {
                            biased;
                            r = self.vts.wait_for_outgoing_message(&mut self.sb) => Some(r),
                            _ = tokio::time::sleep_until(until.into()) => None,
                        };
                        let t_after = Instant::now();
                        let go_on = match &r {
                            Some(Some((msg, id))) => {
                                self.on_dequeued(msg, *id);
                                true
                            }
                            Some(None) => false,
                            None => false,
                        };
                        let resolved = self.collect();
                        self.judge(&resolved, Ctx::Poll { t_after }, stats);
                        let _ = t_before;
                        t_before = t_after;
                        if !go_on {
                            break;
                        }
                    }
                    // every request that was in flight when the wait began and whose deadline lies at least
                    // 2 ms before the moment the wait ended had its own timer fire inside the wait
                    let ended = Instant::now();
                    for i in before {
                        let d = self.subs[i].deadline;
                        if d <= first_before || d + Duration::from_millis(2) <= ended && d <= until - Duration::from_millis(2) {
                            stats.must_timeout_checks += 1;
                            if self.subs[i].state != SubState::Done {
                                self.viol(
                                    "deadline-passed-not-timed-out|awaited",
                                    format!("submission {} was in flight while wait_for_outgoing_message was awaited past its deadline, and is still pending", i),
                                );
                            }
                        }
                    }
                }
                Step::Expire(s) => {
                    let Some(sub) = self.subs.get(*s) else { stats.skipped_steps += 1; continue };
                    let dl = sub.deadline;
                    if dl > Instant::now() + Duration::from_millis(50) {
                        stats.skipped_steps += 1;
                        continue;
                    }
                    while Instant::now() <= dl {
                        std::hint::spin_loop();
                    }
                }
                Step::Chunk { r, i } => {
                    let r = *r;
                    if r >= self.resps.len() {
                        stats.skipped_steps += 1;
                        continue;
                    }
                    if !self.resps[r].built {
                        self.build_resp(r);
                    }
                    let i = (*i).min(self.resps[r].chunks.len() - 1);
                    let wire_id = self.resps[r].wire_id;
                    // who, if anybody, waits for this request id right now
                    let holder = self.subs.iter().position(|s| s.id == Some(wire_id) && s.state == SubState::Inflight);
                    if self.resps[r].target_sub.is_none() {
                        // built for an id nobody had: if somebody got that id since, the chunk would now be a
                        // response "carrying its request id"; do not feed it
                        if self.ids_used.contains_key(&wire_id) {
                            self.resps[r].skipped = true;
                            stats.skipped_steps += 1;
                            continue;
                        }
                    }
                    let is_last = i + 1 == self.resps[r].chunks.len();
                    let chunk = MessageChunk { data: self.resps[r].chunks[i].data.clone() };
                    let pend_before = self.vts.pending();
                    let last_before = self.vts.last_received_sequence_number();
                    let spec = &self.case.responses[r];
                    // is delivery owed at this step?
                    let mut owed = false;
                    if let (Some(h), Some(t)) = (holder, self.resps[r].target_sub) {
                        let resp = &self.resps[r];
                        let inter_now = resp.intermediates_fed;
                        // chunks of another (abandoned or duplicate) response buffered for the same request would be
                        // merged with this one by the client: then nothing is owed
                        let others_buffered = self
                            .resps
                            .iter()
                            .enumerate()
                            .any(|(o, other)| o != r && other.built && other.wire_id == resp.wire_id && other.fed.iter().any(|c| *c > 0));
                        if h == t
                            && !others_buffered
                            && is_last
                            && !spec.abort
                            && !spec.bad_channel
                            && !resp.fed_while_not_inflight
                            && resp.fed[i] == 0
                            && resp.fed[..i].iter().all(|c| *c >= 1)
                            && (self.case.max_pending == 0 || inter_now <= self.case.max_pending)
                            && resp.first_seq > last_before
                        {
                            owed = true;
                        }
                    }
                    if holder.is_none() {
                        self.resps[r].fed_while_not_inflight = true;
                    } else if !is_last {
                        self.resps[r].intermediates_fed += 1;
                    }
                    if let Some(t) = self.resps[r].target_sub {
                        if self.subs[t].timed_out {
                            stats.late_chunks_for_expired += 1;
                            self.out.features.insert("late-chunk-for-expired");
                        } else if self.subs[t].state == SubState::Done {
                            self.out.features.insert(if is_last { "dup-final" } else { "chunk-after-completion" });
                        }
                    }
                    if self.resps[r].chunks.len() > 1 {
                        self.out.features.insert("multi-chunk");
                    }
                    if spec.handle_of.is_some() {
                        self.out.features.insert("foreign-handle");
                    }
                    if spec.seq != SeqMode::Next {
                        self.out.features.insert(if spec.seq == SeqMode::Stale { "stale-seq" } else { "seq-gap" });
                    }
                    self.resps[r].fed[i] += 1;
                    stats.chunks_fed += 1;
                    let res = self.vts.handle_incoming_message(Message::Chunk(chunk));
                    let resolved = self.collect();
                    self.judge(&resolved, Ctx::Chunk { wire_id, resp: r, is_last, feed_err: res.is_err() }, stats);
                    if holder.is_none() {
                        stats.unknown_id_chunks += 1;
                        let why = match (&self.case.responses[r].target, self.resps[r].target_sub) {
                            (Target::Id(_), _) => "chunk-for-literal-id",
                            (Target::Next(_), _) => "chunk-for-future-id",
                            (Target::Sub(_), None) => "chunk-for-request-never-sent-or-without-callback",
                            (Target::Sub(_), Some(t)) => {
                                if self.closed {
                                    "chunk-after-close"
                                } else if self.subs[t].timed_out {
                                    "chunk-for-timed-out-request"
                                } else {
                                    "chunk-for-completed-request"
                                }
                            }
                        };
                        self.out.features.insert(why);
                        *stats.unknown_by_kind.entry(why).or_insert(0) += 1;
                        let pend_after = self.vts.pending();
                        let last_after = self.vts.last_received_sequence_number();
                        if let Err(e) = &res {
                            self.viol("unknown-id-chunk-not-ignored|error", format!("a well-formed chunk for request id {} nobody waits for returned {}", wire_id, e));
                        }
                        if pend_after != pend_before {
                            self.viol("unknown-id-chunk-not-ignored|pending-changed", format!("chunk for request id {}: pending {:?} -> {:?}", wire_id, pend_before, pend_after));
                        }
                        if last_after != last_before {
                            self.viol("unknown-id-chunk-not-ignored|sequence-number-changed", format!("chunk for request id {}: last received sequence number {} -> {}", wire_id, last_before, last_after));
                        }
                        if !resolved.is_empty() {
                            self.viol("unknown-id-chunk-not-ignored|completed-a-request", format!("chunk for request id {} resolved submissions {:?}", wire_id, resolved.iter().map(|r| r.0).collect::<Vec<_>>()));
                        }
                    }
                    if owed {
                        stats.must_deliver_checks += 1;
                        let t = self.resps[r].target_sub.unwrap();
                        if self.subs[t].state != SubState::Done {
                            self.viol(
                                "response-not-delivered",
                                format!("the final chunk of a complete, in-order response #{} for request id {} was fed (result {:?}) and submission {} is still pending", r, wire_id, res, t),
                            );
                        } else if let Err(e) = &res {
                            // delivered or not, an error here closes the transport
                            let _ = e;
                        }
                    }
                    if let Err(e) = res {
                        self.out.features.insert("fatal-chunk");
                        // TcpTransport::poll closes with the status the feed returned
                        self.do_close(e, stats).await;
                    }
                }
                Step::WireError(code) => {
                    let status = StatusCode::from_bits_truncate(*code);
                    let res = self.vts.handle_incoming_message(Message::Error(ErrorMessage::from_status_code(status)));
                    let resolved = self.collect();
                    self.judge(&resolved, Ctx::Wire, stats);
                    self.out.features.insert("wire-error");
                    if let Err(e) = res {
                        self.do_close(e, stats).await;
                    }
                }
                Step::WireAck => {
                    let ack = AcknowledgeMessage {
                        message_header: MessageHeader::new(MessageType::Acknowledge),
                        protocol_version: 0,
                        receive_buffer_size: 65536,
                        send_buffer_size: 65536,
                        max_message_size: 0,
                        max_chunk_count: 0,
                    };
                    let res = self.vts.handle_incoming_message(Message::Acknowledge(ack));
                    let resolved = self.collect();
                    self.judge(&resolved, Ctx::Wire, stats);
                    self.out.features.insert("wire-ack");
                    if let Err(e) = res {
                        self.do_close(e, stats).await;
                    }
                }
                Step::Close(code) => {
                    let status = StatusCode::from_bits_truncate(*code);
                    self.out.features.insert(if self.closed { "close-twice" } else if status.is_good() { "close-good" } else { "close-bad" });
                    self.do_close(status, stats).await;
                }
            }
        }
        // end of history: the transport closes, after which every receiver must have resolved
        self.step_no = steps.len();
        if !self.closed {
            self.do_close(StatusCode::Good, stats).await;
        }
        let resolved = self.collect();
        self.judge(&resolved, Ctx::End, stats);
        for i in 0..self.subs.len() {
            if self.subs[i].rx.is_some() && self.subs[i].state != SubState::Done {
                let kind = if self.subs[i].after_close { "submitted-after-close" } else { "submitted-before-close" };
                self.viol(
                    format!("never-completed|{}", kind),
                    format!("submission {} (request id {:?}, state {:?}) has an unresolved receiver at the end of the history", i, self.subs[i].id, self.subs[i].state),
                );
            }
        }
    }
}

fn ctx_name(c: &Ctx) -> &'static str {
    match c {
        Ctx::Submit => "submit",
        Ctx::Poll { .. } => "poll",
        Ctx::Chunk { .. } => "chunk",
        Ctx::Wire => "wire-message",
        Ctx::Close => "close",
        Ctx::End => "end",
    }
}

fn short(o: &Outcome) -> String {
    match o {
        Outcome::Response(m) => format!("response token {:?}", token_of(m)),
        Outcome::Status(s) => format!("{}", s),
        Outcome::SenderDropped => "sender dropped".into(),
    }
}

pub fn run_case(case: &Case, rt: &tokio::runtime::Runtime, nonce: u64, stats: &mut Stats) -> CaseResult {
    let token_id = 3;
    let client_sc = Arc::new(RwLock::new(mk_channel(Role::Client, case.channel_id, token_id)));
    let vts = VerifTransportState::new(client_sc, case.max_pending, case.max_inflight.max(1), case.queue.max(1));
    let mut ex = Exec {
        case,
        vts,
        sb: SendBuffer::new(65536, 0, 0),
        server_sc: mk_channel(Role::Server, case.channel_id, token_id),
        bad_sc: mk_channel(Role::Server, case.channel_id.wrapping_add(1000), token_id),
        subs: Vec::new(),
        resps: case
            .responses
            .iter()
            .map(|_| Resp {
                built: false,
                skipped: false,
                wire_id: 0,
                target_sub: None,
                token: 0,
                chunks: Vec::new(),
                message: None,
                first_seq: 0,
                fed: Vec::new(),
                intermediates_fed: 0,
                fed_while_not_inflight: false,
            })
            .collect(),
        ids_used: BTreeMap::new(),
        last_id: 1000,
        srv_seq: 0,
        closed: false,
        nonce,
        out: CaseResult { violations: Vec::new(), features: BTreeSet::new() },
        step_no: 0,
    };
    rt.block_on(ex.run(stats));
    let _ = ex.resps.iter().filter(|r| r.skipped).count();
    ex.out
}

// ---------------------------------------------------------------------------------------------
// generator

fn gen_case(rng: &mut Rng) -> Case {
    let max_inflight = *rng.pick(&[1usize, 1, 2, 3, 8]);
    let max_pending = *rng.pick(&[0usize, 1, 2, 5, 5]);
    let queue = *rng.pick(&[1usize, 2, 4, 8, 8]);
    let channel_id = *rng.pick(&[0u32, 7, 7]);
    let mut case = Case { max_inflight, max_pending, queue, channel_id, responses: Vec::new(), steps: Vec::new() };
    let n_steps = 6 + rng.usize(40);
    // generator-side approximation of what exists: (deadline kind, probably dequeued)
    let mut subs: Vec<(Dl, bool)> = Vec::new();
    let mut queued: Vec<usize> = Vec::new();
    let mut answered: BTreeSet<usize> = BTreeSet::new();
    // chunk feeds not yet scheduled: (response, chunk index)
    let mut pool: Vec<(usize, usize)> = Vec::new();
    let mut closed = false;
    let style = rng.below(6); // 0: timeouts heavy, 1: chunks heavy, 2: close heavy, else mixed
    while case.steps.len() < n_steps {
        let roll = rng.below(100);
        let (w_submit, w_poll, w_resp, w_pool, w_exp, w_await, w_close, w_wire) = match style {
            0 => (22, 25, 10, 8, 22, 8, 3, 2),
            1 => (18, 18, 30, 25, 4, 1, 2, 2),
            2 => (25, 20, 15, 10, 8, 2, 15, 5),
            _ => (22, 22, 20, 14, 10, 4, 5, 3),
        };
        let mut acc = 0;
        let mut pickw = |w: u64| {
            acc += w;
            roll < acc
        };
        if pickw(w_submit) {
            let dl = match rng.below(100) {
                0..=44 => Dl::Far,
                45..=84 => Dl::Us(*rng.pick(&[0u64, 50, 200, 600, 1500])),
                _ => Dl::Past,
            };
            let want = !rng.chance(1, 10);
            case.steps.push(Step::Submit { dl: dl.clone(), want });
            queued.push(subs.len());
            subs.push((dl, false));
            if rng.chance(1, 2) {
                case.steps.push(Step::Poll);
                if !queued.is_empty() {
                    let i = queued.remove(0);
                    subs[i].1 = true;
                }
            }
        } else if pickw(w_poll) {
            case.steps.push(Step::Poll);
            if !queued.is_empty() {
                let i = queued.remove(0);
                subs[i].1 = true;
            }
        } else if pickw(w_resp) {
            // a new response
            let dequeued: Vec<usize> = (0..subs.len()).filter(|i| subs[*i].1).collect();
            let fresh: Vec<usize> = dequeued.iter().cloned().filter(|i| !answered.contains(i)).collect();
            if fresh.is_empty() && !closed && rng.chance(4, 5) {
                // nothing waits for an answer: send something first
                case.steps.push(Step::Submit { dl: Dl::Far, want: true });
                case.steps.push(Step::Poll);
                queued.push(subs.len());
                subs.push((Dl::Far, false));
                let i = queued.remove(0);
                subs[i].1 = true;
                continue;
            }
            let target = match rng.below(100) {
                0..=74 if !fresh.is_empty() => Target::Sub(*rng.pick(&fresh)),
                0..=84 if !dequeued.is_empty() => Target::Sub(*rng.pick(&dequeued)),
                0..=89 if !subs.is_empty() => Target::Sub(rng.usize(subs.len())),
                0..=95 => Target::Id(*rng.pick(&[0u32, 1, 999, 1000, 5000, u32::MAX])),
                _ => Target::Next(rng.below(3) as u32),
            };
            if let Target::Sub(i) = &target {
                answered.insert(*i);
            }
            let chunks = match rng.below(100) {
                0..=44 => 1,
                45..=64 => 2,
                65..=79 => 3,
                80..=87 => max_pending + 1,
                88..=94 => max_pending + 2,
                _ => 7,
            }
            .max(1);
            let spec = RespSpec {
                target,
                chunks,
                abort: rng.chance(1, 16),
                seq: match rng.below(100) {
                    0..=87 => SeqMode::Next,
                    88..=96 => SeqMode::Skip(1 + rng.below(5) as u32),
                    _ => SeqMode::Stale,
                },
                handle_of: if rng.chance(1, 5) && !subs.is_empty() { Some(rng.usize(subs.len())) } else { None },
                filler: *rng.pick(&[0usize, 1, 10, 40, 200]),
                bad_channel: rng.chance(1, 40),
            };
            let r = case.responses.len();
            case.responses.push(spec);
            let mut feeds: Vec<(usize, usize)> = (0..chunks).map(|i| (r, i)).collect();
            if chunks > 1 && rng.chance(1, 8) {
                // duplicate an intermediate chunk
                let d = rng.usize(chunks - 1);
                feeds.insert(d + 1, (r, d));
            }
            if chunks > 2 && rng.chance(1, 8) {
                // intermediate chunks out of order (the final one stays last)
                let n = feeds.len();
                rng.shuffle(&mut feeds[..n - 1]);
            }
            if rng.chance(1, 6) {
                // the final chunk again
                feeds.push((r, chunks - 1));
            }
            if rng.chance(1, 12) && feeds.len() > 1 {
                // never complete
                feeds.pop();
            }
            if rng.chance(3, 5) {
                for (r, i) in feeds {
                    case.steps.push(Step::Chunk { r, i });
                }
            } else {
                pool.extend(feeds);
            }
        } else if pickw(w_pool) {
            if !pool.is_empty() {
                // keep per-response order mostly: take the first pooled chunk of a random response
                let r = pool[rng.usize(pool.len())].0;
                let pos = pool.iter().position(|p| p.0 == r).unwrap();
                let (r, i) = pool.remove(pos);
                case.steps.push(Step::Chunk { r, i });
            } else {
                case.steps.push(Step::Poll);
            }
        } else if pickw(w_exp) {
            let short: Vec<usize> = (0..subs.len()).filter(|i| matches!(subs[*i].0, Dl::Us(_))).collect();
            if !short.is_empty() {
                let s = *rng.pick(&short);
                case.steps.push(Step::Expire(s));
                if rng.chance(3, 4) {
                    case.steps.push(Step::Poll);
                }
            }
        } else if pickw(w_await) {
            let short: Vec<usize> = (0..subs.len()).filter(|i| matches!(subs[*i].0, Dl::Us(_))).collect();
            if !short.is_empty() {
                case.steps.push(Step::Await(*rng.pick(&short)));
            }
        } else if pickw(w_close) {
            let code = *rng.pick(&[
                StatusCode::Good.bits(),
                StatusCode::Good.bits(),
                StatusCode::BadConnectionClosed.bits(),
                StatusCode::BadCommunicationError.bits(),
                StatusCode::BadSecurityChecksFailed.bits(),
            ]);
            case.steps.push(Step::Close(code));
            closed = true;
        } else if pickw(w_wire) {
            if rng.bool() {
                case.steps.push(Step::WireError(*rng.pick(&[
                    StatusCode::BadTcpMessageTooLarge.bits(),
                    StatusCode::BadSecureChannelClosed.bits(),
                    0x1234_5678,
                    0,
                ])));
            } else {
                case.steps.push(Step::WireAck);
            }
            closed = true;
        }
        if closed && rng.chance(1, 2) {
            break;
        }
    }
    // mostly let the pooled chunks arrive before the end
    if rng.chance(3, 4) {
        for (r, i) in pool.drain(..) {
            case.steps.push(Step::Chunk { r, i });
        }
    }
    if rng.chance(1, 3) {
        case.steps.push(Step::Poll);
    }
    if closed && rng.chance(1, 2) {
        // life after close
        case.steps.push(Step::Submit { dl: Dl::Far, want: true });
        case.steps.push(Step::Poll);
    }
    case
}

/// A few fixed histories so that every shape named in the property is present whatever the seed
fn fixed_cases() -> Vec<Case> {
    let base = |responses: Vec<RespSpec>, steps: Vec<Step>| Case { max_inflight: 4, max_pending: 5, queue: 4, channel_id: 7, responses, steps };
    let rs = |target: Target, chunks: usize| RespSpec { target, chunks, abort: false, seq: SeqMode::Next, handle_of: None, filler: 20, bad_channel: false };
    let sub = |dl: Dl| Step::Submit { dl, want: true };
    vec![
        // plain response
        base(vec![rs(Target::Sub(0), 1)], vec![sub(Dl::Far), Step::Poll, Step::Chunk { r: 0, i: 0 }]),
        // multi chunk, duplicate final
        base(
            vec![rs(Target::Sub(0), 3)],
            vec![sub(Dl::Far), Step::Poll, Step::Chunk { r: 0, i: 0 }, Step::Chunk { r: 0, i: 1 }, Step::Chunk { r: 0, i: 2 }, Step::Chunk { r: 0, i: 2 }],
        ),
        // deadline expiry, then the late response, then a new request
        base(
            vec![rs(Target::Sub(0), 1), rs(Target::Sub(1), 1)],
            vec![sub(Dl::Us(200)), Step::Poll, Step::Expire(0), Step::Poll, Step::Chunk { r: 0, i: 0 }, sub(Dl::Far), Step::Poll, Step::Chunk { r: 0, i: 0 }, Step::Chunk { r: 1, i: 0 }],
        ),
        // expiry observed by the awaited path
        base(vec![rs(Target::Sub(0), 1)], vec![sub(Dl::Us(600)), Step::Poll, Step::Await(0), Step::Chunk { r: 0, i: 0 }]),
        // response for a request id handed out only later
        base(
            vec![rs(Target::Next(0), 1), rs(Target::Sub(0), 1)],
            vec![Step::Chunk { r: 0, i: 0 }, sub(Dl::Far), Step::Poll, Step::Chunk { r: 1, i: 0 }],
        ),
        // two requests, responses interleaved chunk by chunk, handles swapped
        base(
            vec![
                RespSpec { handle_of: Some(1), ..rs(Target::Sub(0), 2) },
                RespSpec { handle_of: Some(0), ..rs(Target::Sub(1), 2) },
            ],
            vec![sub(Dl::Far), sub(Dl::Far), Step::Poll, Step::Poll, Step::Chunk { r: 0, i: 0 }, Step::Chunk { r: 1, i: 0 }, Step::Chunk { r: 0, i: 1 }, Step::Chunk { r: 1, i: 1 }],
        ),
        // close with one in flight, one queued, one past its deadline
        Case {
            max_inflight: 2,
            ..base(vec![], vec![sub(Dl::Far), sub(Dl::Past), sub(Dl::Far), Step::Poll, Step::Poll, Step::Close(0), sub(Dl::Far), Step::Poll])
        },
        // more intermediate chunks than the client accepts
        Case { max_pending: 2, ..base(vec![rs(Target::Sub(0), 5)], vec![sub(Dl::Far), Step::Poll, Step::Chunk { r: 0, i: 0 }, Step::Chunk { r: 0, i: 1 }, Step::Chunk { r: 0, i: 2 }, Step::Chunk { r: 0, i: 3 }, Step::Chunk { r: 0, i: 4 }]) },
        // abort chunk
        base(vec![RespSpec { abort: true, ..rs(Target::Sub(0), 2) }], vec![sub(Dl::Far), Step::Poll, Step::Chunk { r: 0, i: 0 }, Step::Chunk { r: 0, i: 1 }]),
        // stale sequence number: fatal for the transport
        base(
            vec![rs(Target::Sub(0), 1), RespSpec { seq: SeqMode::Stale, ..rs(Target::Sub(1), 1) }],
            vec![sub(Dl::Far), sub(Dl::Far), sub(Dl::Far), Step::Poll, Step::Poll, Step::Poll, Step::Chunk { r: 0, i: 0 }, Step::Chunk { r: 1, i: 0 }],
        ),
        // inflight limit 1: the second request waits in the queue past its own deadline
        Case {
            max_inflight: 1,
            ..base(
                vec![rs(Target::Sub(0), 1), rs(Target::Sub(1), 1)],
                vec![sub(Dl::Far), sub(Dl::Us(200)), Step::Poll, Step::Poll, Step::Expire(1), Step::Poll, Step::Chunk { r: 0, i: 0 }, Step::Poll, Step::Poll, Step::Chunk { r: 1, i: 0 }],
            )
        },
    ]
}

// ---------------------------------------------------------------------------------------------

fn record(rep: &mut Report, case: &Case, res: Result<CaseResult, PanicInfo>) {
    match res {
        Err(p) => {
            let cj = case.to_json("panic");
            rep.case("panic");
            rep.violation(p.signature(), format!("client transport state panicked: {} at {}:{}", p.msg, p.file, p.line), cj);
        }
        Ok(r) => {
            let class = r.features.iter().cloned().collect::<Vec<_>>().join(",");
            let cj = case.to_json(&class);
            rep.case(&class);
            rep.sample(cj.clone());
            let mut seen = BTreeSet::new();
            for (sig, detail) in r.violations {
                if seen.insert(sig.clone()) {
                    rep.violation(sig, detail, cj.clone());
                }
            }
        }
    }
}

pub fn run(args: &Args, rep: &mut Report) {
    let rt = match tokio::runtime::Builder::new_current_thread().enable_time().build() {
        Ok(rt) => rt,
        Err(e) => {
            rep.inconclusive(format!("cannot build a tokio runtime: {}", e));
            return;
        }
    };
    let mut stats = Stats::default();
    if let Some(path) = &args.replay {
        let v: Value = match std::fs::read(path).ok().and_then(|b| serde_json::from_slice(&b).ok()) {
            Some(v) => v,
            None => {
                rep.inconclusive("cannot read the replay file");
                return;
            }
        };
        let Some(case) = v.get("case").and_then(Case::from_json) else {
            rep.inconclusive("replay file has no usable case");
            return;
        };
        rep.begin_case(&case.to_json("replay"));
        let res = catch(|| run_case(&case, &rt, 1, &mut stats));
        record(rep, &case, res);
        rep.case("replay-marker");
        return;
    }
    let mut rng = Rng::new(args.seed ^ 0xC35 ^ ((args.shard as u64) << 32));
    let mut cases: Vec<Case> = Vec::new();
    if args.shard == 0 {
        cases.extend(fixed_cases());
    }
    let n = args.budget(40_000, 2_400_000);
    for _ in 0..n {
        cases.push(gen_case(&mut rng));
    }
    for (k, case) in cases.iter().enumerate() {
        rep.begin_case(&case.to_json("in-flight"));
        let res = catch(|| run_case(case, &rt, k as u64 + 1, &mut stats));
        record(rep, case, res);
    }
    rep.count("steps", stats.steps);
    rep.count("polls_of_wait_for_outgoing_message", stats.polls);
    rep.count("awaited_expiries", stats.awaits);
    rep.count("chunks_fed", stats.chunks_fed);
    rep.count("chunks_for_ids_nobody_waits_for", stats.unknown_id_chunks);
    for (k, v) in &stats.unknown_by_kind {
        rep.count(&format!("ignored_{}", k.replace('-', "_")), *v);
    }
    rep.count("receivers_resolved_and_judged", stats.receivers_checked);
    rep.count("responses_delivered", stats.delivered);
    rep.count("timeouts_observed", stats.timeouts);
    rep.count("completed_by_close", stats.closed_with_status);
    rep.count("completed_with_error_by_own_chunk", stats.error_completions);
    rep.count("senders_dropped_by_fatal_chunk", stats.dropped_on_error);
    rep.count("submits_rejected", stats.rejected_submits);
    rep.count("obligation_checks_response_must_be_delivered", stats.must_deliver_checks);
    rep.count("obligation_checks_must_have_timed_out", stats.must_timeout_checks);
    rep.count("obligation_checks_must_complete_on_close", stats.must_close_checks);
    rep.count("polls_with_deadline_inside_the_call_either_outcome_accepted", stats.ambiguous_polls);
    rep.count("steps_skipped_not_applicable", stats.skipped_steps);
}
