//! C36: every notification sequence number the client receives is acknowledged exactly once.
//!
//! Live system: the real client `Session` (with its event loop, `SubscriptionEventLoop` and
//! `Session::publish`) talks over loopback TCP to the real server (`ServerBuilder`, listening on
//! 127.0.0.1:P) through a proxy in this harness (listening on 127.0.0.2:P; the server compares endpoint
//! urls ignoring the host, so nothing has to be rewritten). The proxy parses every frame with the
//! repository's codec on a None channel, logs every PublishRequest it reads (with its acknowledgements
//! and what it did with it) and every PublishResponse it hands to the client (with subscription id and
//! sequence number), renumbers server-to-client sequence numbers so that it can answer a request itself,
//! and injects publish failures WITHOUT forwarding the request: a ServiceFault of its own, or silence
//! until the client's publish timeout. The oracle runs over that log only.
use crate::common::*;
use crate::pki;
use bytes::BytesMut;
use futures::StreamExt;
use opcua::client::{ClientBuilder, DataChangeCallback, IdentityToken, Session, SessionPollResult};
use opcua::core::comms::{
    chunker::Chunker,
    message_chunk::{MessageChunk, MessageIsFinalType},
    secure_channel::{Role, SecureChannel},
    tcp_codec::{Message, TcpCodec},
};
use opcua::core::supported_message::SupportedMessage;
use opcua::crypto::CertificateStore;
use opcua::server::prelude::{Server, ServerBuilder, Variable};
use opcua::sync::RwLock;
use opcua::types::*;
use serde_json::{json, Value};
use std::collections::{BTreeMap, HashMap, HashSet};
use std::sync::atomic::{AtomicBool, AtomicU32, AtomicU64, Ordering};
use std::sync::{Arc, Mutex};
use std::time::{Duration, Instant};
use tokio::io::{AsyncReadExt, AsyncWriteExt};
use tokio::net::{TcpListener, TcpStream};
use tokio_util::codec::Decoder;

// ---------------------------------------------------------------------------------------------
// the proxy log

#[derive(Clone, Debug, PartialEq)]
pub enum Fate {
    Forwarded,
    /// the proxy answered with a ServiceFault of its own and did not forward
    Fault(u32),
    /// the proxy said nothing and did not forward; the client runs into its publish timeout
    Swallowed,
    /// as Swallowed, and a ServiceFault for that request id is sent after the client has given up
    SwallowedLateFault(u32),
}

impl Fate {
    fn name(&self) -> String {
        match self {
            Fate::Forwarded => "forwarded".into(),
            Fate::Fault(c) => format!("fault-{}", status_name(*c)),
            Fate::Swallowed => "swallowed".into(),
            Fate::SwallowedLateFault(_) => "swallowed+late-fault".into(),
        }
    }
}

fn status_name(c: u32) -> String {
    StatusCode::from_u32(c).map(|s| s.name().to_string()).unwrap_or_else(|| format!("{:#x}", c))
}

#[derive(Clone, Debug)]
pub enum Ev {
    /// a PublishRequest read from the client
    Req { conn: u32, request_id: u32, acks: Vec<(u32, u32)>, fate: Fate },
    /// a PublishResponse handed to the client
    Resp { conn: u32, request_id: u32, sub: u32, seq: u32, keepalive: bool, more: bool, ack_results: Vec<u32>, dup_follows: bool },
    /// a ServiceFault from the real server for a publish request, handed to the client
    ServerFault { conn: u32, request_id: u32, status: u32 },
    /// the late ServiceFault of a SwallowedLateFault request was sent
    LateFault { conn: u32, request_id: u32, status: u32 },
    Marker(String),
    Conn { conn: u32, open: bool },
}

impl Ev {
    fn to_json(&self, idx: usize) -> Value {
        match self {
            Ev::Req { conn, request_id, acks, fate } => json!({"i": idx, "ev": "publish-request", "conn": conn, "request_id": request_id,
                "acks": acks.iter().map(|a| json!([a.0, a.1])).collect::<Vec<_>>(), "fate": fate.name()}),
            Ev::Resp { conn, request_id, sub, seq, keepalive, more, ack_results, dup_follows } => json!({"i": idx, "ev": "publish-response", "conn": conn,
                "request_id": request_id, "sub": sub, "seq": seq, "keepalive": keepalive, "more": more,
                "ack_results": ack_results.iter().map(|c| status_name(*c)).collect::<Vec<_>>(), "dup_follows": dup_follows}),
            Ev::ServerFault { conn, request_id, status } => json!({"i": idx, "ev": "server-fault", "conn": conn, "request_id": request_id, "status": status_name(*status)}),
            Ev::LateFault { conn, request_id, status } => json!({"i": idx, "ev": "late-fault", "conn": conn, "request_id": request_id, "status": status_name(*status)}),
            Ev::Marker(m) => json!({"i": idx, "ev": "marker", "what": m}),
            Ev::Conn { conn, open } => json!({"i": idx, "ev": if *open { "connection-open" } else { "connection-closed" }, "conn": conn}),
        }
    }

    fn from_json(v: &Value) -> Option<Ev> {
        let u = |k: &str| v.get(k).and_then(|x| x.as_u64());
        let code = |name: &str| -> u32 {
            for c in [
                StatusCode::BadTooManyPublishRequests,
                StatusCode::BadInternalError,
                StatusCode::BadTimeout,
                StatusCode::BadNoSubscription,
                StatusCode::BadServiceUnsupported,
                StatusCode::BadRequestTimeout,
                StatusCode::BadSequenceNumberUnknown,
                StatusCode::BadSubscriptionIdInvalid,
                StatusCode::Good,
            ] {
                if c.name() == name {
                    return c.bits();
                }
            }
            StatusCode::BadUnexpectedError.bits()
        };
        Some(match v.get("ev")?.as_str()? {
            "publish-request" => {
                let f = v.get("fate")?.as_str()?;
                let fate = if f == "forwarded" {
                    Fate::Forwarded
                } else if f == "swallowed" {
                    Fate::Swallowed
                } else if f == "swallowed+late-fault" {
                    Fate::SwallowedLateFault(StatusCode::BadRequestTimeout.bits())
                } else {
                    Fate::Fault(code(f.trim_start_matches("fault-")))
                };
                Ev::Req {
                    conn: u("conn")? as u32,
                    request_id: u("request_id")? as u32,
                    acks: v.get("acks")?.as_array()?.iter().filter_map(|a| Some((a.get(0)?.as_u64()? as u32, a.get(1)?.as_u64()? as u32))).collect(),
                    fate,
                }
            }
            "publish-response" => Ev::Resp {
                conn: u("conn")? as u32,
                request_id: u("request_id")? as u32,
                sub: u("sub")? as u32,
                seq: u("seq")? as u32,
                keepalive: v.get("keepalive")?.as_bool()?,
                more: v.get("more")?.as_bool()?,
                ack_results: v.get("ack_results")?.as_array()?.iter().map(|s| code(s.as_str().unwrap_or(""))).collect(),
                dup_follows: v.get("dup_follows")?.as_bool()?,
            },
            "server-fault" => Ev::ServerFault { conn: u("conn")? as u32, request_id: u("request_id")? as u32, status: code(v.get("status")?.as_str()?) },
            "late-fault" => Ev::LateFault { conn: u("conn")? as u32, request_id: u("request_id")? as u32, status: code(v.get("status")?.as_str()?) },
            "marker" => Ev::Marker(v.get("what")?.as_str()?.to_string()),
            "connection-open" => Ev::Conn { conn: u("conn")? as u32, open: true },
            "connection-closed" => Ev::Conn { conn: u("conn")? as u32, open: false },
            _ => return None,
        })
    }
}

pub const MARK_FAULTS_OFF: &str = "faults-off";
pub const MARK_FAILURES_REPORTED: &str = "client-reported-every-failed-publish";

// ---------------------------------------------------------------------------------------------
// the oracle (pure function of the log)

#[derive(Default)]
pub struct OracleOut {
    pub violations: Vec<(String, String, Value)>,
    /// one class string per judged notification
    pub classes: Vec<String>,
    pub counters: BTreeMap<String, u64>,
}

struct KeyState {
    /// indices of responses that carried this (subscription, sequence number), with keep-alive flag, not yet matched by an ack
    open_data: Vec<usize>,
    open_ka: Vec<usize>,
    responses: Vec<(usize, bool)>,
    /// (request index, successful send?, fate name)
    carriers: Vec<(usize, bool, String)>,
    matched: u32,
    flagged: bool,
}

pub fn oracle(log: &[Ev], max_inflight_publish: usize) -> OracleOut {
    let mut out = OracleOut::default();
    let d_needed = max_inflight_publish + 5;
    // which forwarded requests did the real server answer with a fault / a publish response
    let mut server_fault: HashMap<(u32, u32), (usize, u32)> = HashMap::new();
    let mut answered: HashSet<(u32, u32)> = HashSet::new();
    for (i, e) in log.iter().enumerate() {
        match e {
            Ev::ServerFault { conn, request_id, status } => {
                server_fault.insert((*conn, *request_id), (i, *status));
            }
            Ev::Resp { conn, request_id, .. } => {
                answered.insert((*conn, *request_id));
            }
            _ => {}
        }
    }
    let marker_idx = log.iter().position(|e| matches!(e, Ev::Marker(m) if m == MARK_FAILURES_REPORTED));
    // indices of requests that were forwarded and answered with a PublishResponse
    let good_req_idx: Vec<usize> = log
        .iter()
        .enumerate()
        .filter_map(|(i, e)| match e {
            Ev::Req { conn, request_id, fate: Fate::Forwarded, .. } if answered.contains(&(*conn, *request_id)) => Some(i),
            _ => None,
        })
        .collect();
    let good_after = |base: usize| -> usize { good_req_idx.iter().filter(|i| **i > base).count() };

    let mut keys: BTreeMap<(u32, u32), KeyState> = BTreeMap::new();
    let mut n_req = 0u64;
    let mut n_req_failed_by_proxy = 0u64;
    let mut n_req_failed_by_server = 0u64;
    let mut n_resp_data = 0u64;
    let mut n_resp_ka = 0u64;
    let mut n_acks_seen = 0u64;
    for (i, e) in log.iter().enumerate() {
        match e {
            Ev::Resp { sub, seq, keepalive, .. } => {
                let k = keys.entry((*sub, *seq)).or_insert_with(|| KeyState { open_data: vec![], open_ka: vec![], responses: vec![], carriers: vec![], matched: 0, flagged: false });
                k.responses.push((i, *keepalive));
                if *keepalive {
                    n_resp_ka += 1;
                    k.open_ka.push(i);
                } else {
                    n_resp_data += 1;
                    k.open_data.push(i);
                }
            }
            Ev::Req { conn, request_id, acks, fate } => {
                n_req += 1;
                let sf = server_fault.get(&(*conn, *request_id));
                let (success, fate_name) = match (fate, sf) {
                    (Fate::Forwarded, None) => (true, "forwarded".to_string()),
                    (Fate::Forwarded, Some((_, st))) => {
                        n_req_failed_by_server += 1;
                        (false, format!("server-fault-{}", status_name(*st)))
                    }
                    (f, _) => {
                        n_req_failed_by_proxy += 1;
                        (false, f.name())
                    }
                };
                let mut in_this_request: HashSet<(u32, u32)> = HashSet::new();
                for a in acks {
                    n_acks_seen += 1;
                    if !in_this_request.insert(*a) {
                        out.violations.push((
                            "ack-sent-twice|same-request".into(),
                            format!("publish request #{} (request id {}) carries the acknowledgement (subscription {}, sequence {}) twice", i, request_id, a.0, a.1),
                            json!({"key": [a.0, a.1], "request_index": i}),
                        ));
                        continue;
                    }
                    let k = keys.entry(*a).or_insert_with(|| KeyState { open_data: vec![], open_ka: vec![], responses: vec![], carriers: vec![], matched: 0, flagged: false });
                    let had_success_before = k.carriers.iter().any(|c| c.1);
                    k.carriers.push((i, success, fate_name.clone()));
                    if k.responses.is_empty() {
                        if !k.flagged {
                            k.flagged = true;
                            out.violations.push((
                                "ack-for-notification-never-received".into(),
                                format!("publish request #{} acknowledges (subscription {}, sequence {}) which no publish response had carried so far", i, a.0, a.1),
                                json!({"key": [a.0, a.1], "request_index": i}),
                            ));
                        }
                        continue;
                    }
                    let open = k.open_data.len() + k.open_ka.len();
                    if open == 0 {
                        // every response that carried this number has been acknowledged in a request that succeeded
                        if !k.flagged {
                            k.flagged = true;
                            let prev: Vec<String> = k.carriers.iter().map(|c| format!("#{}:{}", c.0, c.2)).collect();
                            let between_failed = k.carriers.iter().rev().skip(1).take_while(|c| !c.1).count() > 0;
                            let kind = if !success {
                                "second-copy-in-a-request-that-then-failed"
                            } else if between_failed {
                                "after-successful-send-and-a-later-failed-copy"
                            } else {
                                "after-successful-send"
                            };
                            let _ = had_success_before;
                            out.violations.push((
                                format!("ack-sent-twice|{}", kind),
                                format!(
                                    "(subscription {}, sequence {}) was returned to the client {} time(s) (log index {:?}) but publish requests carrying its acknowledgement: {}",
                                    a.0, a.1, k.responses.len(), k.responses.iter().map(|r| r.0).collect::<Vec<_>>(), prev.join(", ")
                                ),
                                json!({"key": [a.0, a.1], "carriers": prev}),
                            ));
                        }
                        continue;
                    }
                    if success {
                        if !k.open_data.is_empty() {
                            k.open_data.remove(0);
                        } else {
                            k.open_ka.remove(0);
                        }
                        k.matched += 1;
                    }
                }
            }
            _ => {}
        }
    }
    // end of history: what is still owed
    let mut exempt = 0u64;
    let mut missing = 0u64;
    for (key, k) in keys.iter() {
        for (ri, (resp_idx, ka)) in k.responses.iter().enumerate() {
            let open = if *ka { k.open_ka.contains(resp_idx) } else { k.open_data.contains(resp_idx) };
            // how the acknowledgement travelled
            let after: Vec<&(usize, bool, String)> = k.carriers.iter().filter(|c| c.0 > *resp_idx).collect();
            let failed_before_success: Vec<String> = after.iter().take_while(|c| !c.1).map(|c| c.2.clone()).collect();
            let mut path = if failed_before_success.is_empty() {
                "direct".to_string()
            } else {
                let mut kinds: Vec<String> = failed_before_success.clone();
                kinds.dedup();
                format!("after {} failed: {}", failed_before_success.len().min(3), kinds.join("+"))
            };
            if let Some(first) = after.first() {
                // how many publish requests the proxy read between the response and the first request carrying the ack
                let gap = log[*resp_idx..first.0].iter().filter(|e| matches!(e, Ev::Req { .. })).count();
                path.push_str(&format!(" gap{}", gap.min(3)));
            }
            let kind = if *ka { "keepalive" } else { "data" };
            if !open {
                out.classes.push(format!("{} acked {} dup{}", kind, path, (k.responses.len() > 1 && ri > 0) as u8));
                continue;
            }
            if *ka {
                // acknowledging the sequence number of a keep-alive is optional
                out.classes.push("keepalive not-acked".into());
                continue;
            }
            // a data notification without a successful acknowledgement: is it due?
            let last_failed = after.iter().rev().find(|c| !c.1).map(|c| {
                // the failure of that request became known to the client after the fault came back
                let (conn, rid) = match &log[c.0] {
                    Ev::Req { conn, request_id, .. } => (*conn, *request_id),
                    _ => (0, 0),
                };
                server_fault.get(&(conn, rid)).map(|f| f.0).unwrap_or(c.0)
            });
            let due = match marker_idx {
                Some(m) => {
                    let base = (*resp_idx).max(m).max(last_failed.unwrap_or(0));
                    good_after(base) >= d_needed
                }
                None => false,
            };
            if !due {
                exempt += 1;
                out.classes.push(format!("data exempt-tail {}", if after.is_empty() { "not-yet-sent" } else { "only-failed-so-far" }));
                continue;
            }
            missing += 1;
            let sig = if failed_before_success.is_empty() && after.is_empty() {
                "ack-never-sent|no-publish-request-carried-it".to_string()
            } else {
                let last = after.last().map(|c| c.2.clone()).unwrap_or_default();
                let generic = if last.starts_with("fault-") || last.starts_with("server-fault-") {
                    "service-fault"
                } else if last.starts_with("swallowed") {
                    "publish-timeout"
                } else {
                    "other"
                };
                format!("ack-lost-after-failed-publish|{}", generic)
            };
            let carriers: Vec<String> = k.carriers.iter().map(|c| format!("#{}:{}", c.0, c.2)).collect();
            out.violations.push((
                sig,
                format!(
                    "(subscription {}, sequence {}) was returned to the client at log index {}; publish requests carrying its acknowledgement: [{}]; none of them succeeded and {} later publish requests were forwarded and answered after every failure had been reported to the client",
                    key.0, key.1, resp_idx, carriers.join(", "), good_after((*resp_idx).max(marker_idx.unwrap_or(0)))
                ),
                json!({"key": [key.0, key.1], "response_index": resp_idx, "carriers": carriers}),
            ));
            out.classes.push(format!("data missing {}", path));
        }
    }
    let c = &mut out.counters;
    c.insert("publish_requests_read_from_client".into(), n_req);
    c.insert("publish_requests_failed_by_proxy_not_forwarded".into(), n_req_failed_by_proxy);
    c.insert("publish_requests_failed_by_server_fault".into(), n_req_failed_by_server);
    c.insert("publish_responses_with_data_returned_to_client".into(), n_resp_data);
    c.insert("publish_responses_keepalive_returned_to_client".into(), n_resp_ka);
    c.insert("acknowledgements_seen_in_requests".into(), n_acks_seen);
    c.insert("notifications_exempt_in_tail".into(), exempt);
    c.insert("notifications_without_successful_ack".into(), missing);
    c.insert("distinct_subscription_sequence_pairs".into(), keys.len() as u64);
    out
}

// ---------------------------------------------------------------------------------------------
// scenario

#[derive(Clone, Debug)]
pub struct Scn {
    pub seed: u64,
    pub max_inflight_publish: usize,
    pub publish_timeout_ms: u64,
    pub min_publish_interval_ms: u64,
    pub subs: Vec<(u64, u32, usize)>, // (publishing interval ms, max keep alive count, items)
    pub fault_pct: u64,
    pub burst_pct: u64,
    pub run_ms: u64,
    pub changes: Vec<String>,
    pub change_every: u64,
}

impl Scn {
    pub fn generate(seed: u64, shard: usize, round: usize, thorough: bool) -> Scn {
        let mut rng = Rng::new(seed ^ 0xC36 ^ ((shard as u64) << 32) ^ ((round as u64) << 48));
        let idx = shard + round * 7;
        let max_inflight_publish = [2usize, 3, 1, 4][idx % 4];
        // With two or more subscriptions the server under test mostly answers with empty notification messages
        // (it drops a notification whenever an interval elapses with no request queued), so three scenarios
        // in four use one subscription at a time, where data keeps flowing, and change it while running.
        let multi = idx % 4 == 3;
        let n_subs = if multi { 2 } else { 1 };
        let subs = (0..n_subs).map(|_| (100u64, *rng.pick(&[2u32, 2, 3]), 1 + rng.usize(3))).collect();
        let mut changes: Vec<String> = Vec::new();
        let pool: &[&str] = if multi {
            &["create", "delete", "modify", "pubmode-off", "replace", "create"]
        } else {
            &["replace", "modify", "replace", "modify", "replace"]
        };
        while changes.len() < (if thorough { 14 } else { 8 }) {
            let c = rng.pick(pool).to_string();
            let off = c == "pubmode-off";
            changes.push(c);
            if off {
                changes.push("pubmode-on".into());
            }
        }
        Scn {
            seed: rng.next_u64(),
            max_inflight_publish,
            publish_timeout_ms: *rng.pick(&[1200u64, 1500, 2000]),
            min_publish_interval_ms: *rng.pick(&[20u64, 50, 100]),
            subs,
            fault_pct: if max_inflight_publish == 1 { *rng.pick(&[6u64, 10, 14]) } else { *rng.pick(&[8u64, 12, 16, 20]) },
            burst_pct: *rng.pick(&[0u64, 25, 40]),
            run_ms: if thorough { 50_000 } else { 18_000 },
            changes,
            change_every: 0,
        }
    }

    pub fn to_json(&self) -> Value {
        json!({
            "seed": self.seed.to_string(), "max_inflight_publish": self.max_inflight_publish, "publish_timeout_ms": self.publish_timeout_ms,
            "min_publish_interval_ms": self.min_publish_interval_ms,
            "subs": self.subs.iter().map(|s| json!([s.0, s.1, s.2])).collect::<Vec<_>>(),
            "fault_pct": self.fault_pct, "burst_pct": self.burst_pct, "run_ms": self.run_ms, "changes": self.changes, "change_every": self.change_every,
        })
    }

    pub fn from_json(v: &Value) -> Option<Scn> {
        let u = |k: &str| v.get(k).and_then(|x| x.as_u64());
        Some(Scn {
            seed: v.get("seed")?.as_str()?.parse().ok()?,
            max_inflight_publish: u("max_inflight_publish")? as usize,
            publish_timeout_ms: u("publish_timeout_ms")?,
            min_publish_interval_ms: u("min_publish_interval_ms")?,
            subs: v.get("subs")?.as_array()?.iter().filter_map(|s| Some((s.get(0)?.as_u64()?, s.get(1)?.as_u64()? as u32, s.get(2)?.as_u64()? as usize))).collect(),
            fault_pct: u("fault_pct")?,
            burst_pct: u("burst_pct")?,
            run_ms: u("run_ms")?,
            changes: v.get("changes")?.as_array()?.iter().filter_map(|s| s.as_str().map(|s| s.to_string())).collect(),
            change_every: u("change_every")?,
        })
    }
}

// ---------------------------------------------------------------------------------------------
// the proxy

struct FaultState {
    rng: Rng,
    burst_left: u32,
}

struct Shared {
    log: Mutex<Vec<Ev>>,
    times: Mutex<Vec<u64>>,
    t0: Instant,
    faults_on: AtomicBool,
    fault: Mutex<FaultState>,
    fault_pct: u64,
    burst_pct: u64,
    publish_timeout_ms: u64,
    n_data: AtomicU64,
    n_good_responses: AtomicU64,
    n_failed_expected: AtomicU64,
    n_timeouts_expected: AtomicU64,
    n_conns: AtomicU32,
    n_conns_closed: AtomicU32,
    problems: Mutex<Vec<String>>,
    stop: AtomicBool,
}

impl Shared {
    fn push(&self, e: Ev) -> usize {
        let mut l = self.log.lock().unwrap();
        l.push(e);
        // wall-clock stamps are kept next to the log for reading it; the oracle never sees them
        self.times.lock().unwrap().push(self.t0.elapsed().as_millis() as u64);
        l.len() - 1
    }
    fn problem(&self, s: String) {
        let mut p = self.problems.lock().unwrap();
        if p.len() < 20 {
            p.push(s);
        }
    }
    fn decide(&self) -> Fate {
        if !self.faults_on.load(Ordering::SeqCst) {
            return Fate::Forwarded;
        }
        let mut f = self.fault.lock().unwrap();
        let hit = if f.burst_left > 0 {
            f.burst_left -= 1;
            true
        } else if f.rng.below(100) < self.fault_pct {
            if f.rng.below(100) < self.burst_pct {
                f.burst_left = 1 + f.rng.below(3) as u32;
            }
            true
        } else {
            false
        };
        if !hit {
            return Fate::Forwarded;
        }
        match f.rng.below(12) {
            0 | 1 => Fate::Swallowed,
            2 => Fate::SwallowedLateFault(StatusCode::BadRequestTimeout.bits()),
            3 | 4 | 5 => Fate::Fault(StatusCode::BadTooManyPublishRequests.bits()),
            6 | 7 => Fate::Fault(StatusCode::BadInternalError.bits()),
            8 => Fate::Fault(StatusCode::BadTimeout.bits()),
            9 => Fate::Fault(StatusCode::BadNoSubscription.bits()),
            _ => Fate::Fault(StatusCode::BadServiceUnsupported.bits()),
        }
    }
}

fn plain_channel() -> SecureChannel {
    let store = Arc::new(RwLock::new(CertificateStore::new(std::path::Path::new("/nonexistent/verif/pki"))));
    SecureChannel::new(store, Role::Server, DecodingOptions::default())
}

async fn read_frame<R: AsyncReadExt + Unpin>(r: &mut R) -> std::io::Result<Option<Vec<u8>>> {
    let mut hdr = [0u8; 8];
    match r.read_exact(&mut hdr).await {
        Ok(_) => {}
        Err(e) if e.kind() == std::io::ErrorKind::UnexpectedEof => return Ok(None),
        Err(e) => return Err(e),
    }
    let size = u32::from_le_bytes([hdr[4], hdr[5], hdr[6], hdr[7]]) as usize;
    if !(8..=64 * 1024 * 1024).contains(&size) {
        return Err(std::io::Error::new(std::io::ErrorKind::InvalidData, "frame size"));
    }
    let mut buf = vec![0u8; size];
    buf[..8].copy_from_slice(&hdr);
    r.read_exact(&mut buf[8..]).await?;
    Ok(Some(buf))
}

fn decode_frame(buf: &[u8]) -> Option<Message> {
    let mut codec = TcpCodec::new(DecodingOptions::default());
    let mut b = BytesMut::from(buf);
    codec.decode(&mut b).ok().flatten()
}

struct Down {
    w: tokio::net::tcp::OwnedWriteHalf,
    next_seq: u32,
}

struct ConnState {
    conn: u32,
    sc: Mutex<SecureChannel>,
    down: tokio::sync::Mutex<Down>,
    dup_ids: Mutex<HashSet<u32>>,
    /// request ids of publish requests that were forwarded
    publish_ids: Mutex<HashSet<u32>>,
}

/// Sends a message of the proxy's own to the client, as one chunk with the next downstream sequence number
async fn send_own(shared: &Shared, cs: &ConnState, request_id: u32, msg: SupportedMessage, ev: Option<Ev>) -> bool {
    let mut down = cs.down.lock().await;
    let seq = down.next_seq;
    let chunks = {
        let sc = cs.sc.lock().unwrap();
        Chunker::encode(seq, request_id, 0, 0, &sc, &msg)
    };
    let Ok(chunks) = chunks else {
        shared.problem("proxy could not encode its own fault".into());
        return false;
    };
    down.next_seq += chunks.len() as u32;
    if let Some(ev) = ev {
        shared.push(ev);
    }
    for c in chunks {
        if down.w.write_all(&c.data).await.is_err() {
            return false;
        }
    }
    true
}

fn fault_message(request_header: &RequestHeader, status: u32) -> SupportedMessage {
    ServiceFault { response_header: ResponseHeader::new_service_result(request_header, StatusCode::from_bits_truncate(status)) }.into()
}

async fn pump_c2s(shared: Arc<Shared>, cs: Arc<ConnState>, mut cr: tokio::net::tcp::OwnedReadHalf, mut sw: tokio::net::tcp::OwnedWriteHalf) {
    let mut partial: HashMap<u32, Vec<MessageChunk>> = HashMap::new();
    loop {
        let frame = match read_frame(&mut cr).await {
            Ok(Some(f)) => f,
            _ => break,
        };
        let mut forward = true;
        if let Some(Message::Chunk(chunk)) = decode_frame(&frame) {
            let info = {
                let sc = cs.sc.lock().unwrap();
                chunk.chunk_info(&sc)
            };
            if let Ok(info) = info {
                let rid = info.sequence_header.request_id;
                let list = partial.entry(rid).or_default();
                list.push(chunk);
                if info.message_header.is_final != MessageIsFinalType::Intermediate {
                    let chunks = partial.remove(&rid).unwrap_or_default();
                    let single = chunks.len() == 1;
                    let msg = if info.message_header.is_final == MessageIsFinalType::Final {
                        let sc = cs.sc.lock().unwrap();
                        Chunker::decode(&chunks, &sc, None).ok()
                    } else {
                        None
                    };
                    if let Some(SupportedMessage::PublishRequest(req)) = msg {
                        let acks: Vec<(u32, u32)> = req
                            .subscription_acknowledgements
                            .as_ref()
                            .map(|a| a.iter().map(|x| (x.subscription_id, x.sequence_number)).collect())
                            .unwrap_or_default();
                        let fate = if single { shared.decide() } else { Fate::Forwarded };
                        match &fate {
                            Fate::Forwarded => {
                                cs.publish_ids.lock().unwrap().insert(rid);
                                // one forwarded request in 40 gets its response delivered twice
                                if shared.faults_on.load(Ordering::SeqCst) && shared.fault.lock().unwrap().rng.below(40) == 0 {
                                    cs.dup_ids.lock().unwrap().insert(rid);
                                }
                                shared.push(Ev::Req { conn: cs.conn, request_id: rid, acks, fate: fate.clone() });
                            }
                            Fate::Fault(status) => {
                                forward = false;
                                shared.n_failed_expected.fetch_add(1, Ordering::SeqCst);
                                if *status == StatusCode::BadTimeout.bits() {
                                    shared.n_timeouts_expected.fetch_add(1, Ordering::SeqCst);
                                }
                                shared.push(Ev::Req { conn: cs.conn, request_id: rid, acks, fate: fate.clone() });
                                let m = fault_message(&req.request_header, *status);
                                if !send_own(&shared, &cs, rid, m, None).await {
                                    break;
                                }
                            }
                            Fate::Swallowed | Fate::SwallowedLateFault(_) => {
                                forward = false;
                                shared.n_failed_expected.fetch_add(1, Ordering::SeqCst);
                                shared.n_timeouts_expected.fetch_add(1, Ordering::SeqCst);
                                shared.push(Ev::Req { conn: cs.conn, request_id: rid, acks, fate: fate.clone() });
                                if let Fate::SwallowedLateFault(status) = fate {
                                    let shared2 = shared.clone();
                                    let cs2 = cs.clone();
                                    let hdr = req.request_header.clone();
                                    let wait = Duration::from_millis(shared.publish_timeout_ms + 400);
                                    tokio::spawn(async move {
                                        tokio::time::sleep(wait).await;
                                        if shared2.stop.load(Ordering::SeqCst) {
                                            return;
                                        }
                                        let m = fault_message(&hdr, status);
                                        let ev = Ev::LateFault { conn: cs2.conn, request_id: rid, status };
                                        let _ = send_own(&shared2, &cs2, rid, m, Some(ev)).await;
                                    });
                                }
                            }
                        }
                    }
                }
            }
        }
        if forward && sw.write_all(&frame).await.is_err() {
            break;
        }
    }
    let _ = sw.shutdown().await;
}

async fn pump_s2c(shared: Arc<Shared>, cs: Arc<ConnState>, mut sr: tokio::net::tcp::OwnedReadHalf) {
    let mut partial: HashMap<u32, Vec<(Vec<u8>, usize)>> = HashMap::new();
    loop {
        let frame = match read_frame(&mut sr).await {
            Ok(Some(f)) => f,
            _ => break,
        };
        let msg = decode_frame(&frame);
        let Some(Message::Chunk(chunk)) = msg else {
            // ACK / ERR: as is
            let mut down = cs.down.lock().await;
            if down.w.write_all(&frame).await.is_err() {
                break;
            }
            continue;
        };
        let info = {
            let sc = cs.sc.lock().unwrap();
            chunk.chunk_info(&sc)
        };
        let Ok(info) = info else {
            shared.problem("proxy could not parse a chunk from the server".into());
            let mut down = cs.down.lock().await;
            if down.w.write_all(&frame).await.is_err() {
                break;
            }
            continue;
        };
        let rid = info.sequence_header.request_id;
        partial.entry(rid).or_default().push((frame, info.sequence_header_offset));
        if info.message_header.is_final == MessageIsFinalType::Intermediate {
            continue;
        }
        let frames = partial.remove(&rid).unwrap_or_default();
        let decoded = if info.message_header.is_final == MessageIsFinalType::Final {
            let chunks: Vec<MessageChunk> = frames.iter().map(|f| MessageChunk { data: f.0.clone() }).collect();
            let sc = cs.sc.lock().unwrap();
            Chunker::decode(&chunks, &sc, None).ok()
        } else {
            None
        };
        let mut ev = None;
        let mut dup = false;
        match &decoded {
            Some(SupportedMessage::OpenSecureChannelResponse(r)) => {
                let mut sc = cs.sc.lock().unwrap();
                sc.set_security_token(r.security_token.clone());
            }
            Some(SupportedMessage::PublishResponse(r)) => {
                let keepalive = r.notification_message.notification_data.as_ref().map(|d| d.is_empty()).unwrap_or(true);
                dup = cs.dup_ids.lock().unwrap().remove(&rid);
                ev = Some(Ev::Resp {
                    conn: cs.conn,
                    request_id: rid,
                    sub: r.subscription_id,
                    seq: r.notification_message.sequence_number,
                    keepalive,
                    more: r.more_notifications,
                    ack_results: r.results.as_ref().map(|v| v.iter().map(|s| s.bits()).collect()).unwrap_or_default(),
                    dup_follows: dup,
                });
                if !keepalive {
                    shared.n_data.fetch_add(1, Ordering::SeqCst);
                }
                shared.n_good_responses.fetch_add(1, Ordering::SeqCst);
            }
            Some(SupportedMessage::ServiceFault(f)) => {
                if cs.publish_ids.lock().unwrap().contains(&rid) {
                    let status = f.response_header.service_result.bits();
                    ev = Some(Ev::ServerFault { conn: cs.conn, request_id: rid, status });
                    shared.n_failed_expected.fetch_add(1, Ordering::SeqCst);
                    if status == StatusCode::BadTimeout.bits() {
                        shared.n_timeouts_expected.fetch_add(1, Ordering::SeqCst);
                    }
                }
            }
            _ => {}
        }
        cs.publish_ids.lock().unwrap().remove(&rid);
        // hand the whole message to the client under one lock, renumbered
        let mut down = cs.down.lock().await;
        let rounds = if dup { 2 } else { 1 };
        let mut failed = false;
        for round in 0..rounds {
            if round == 0 {
                if let Some(ev) = ev.take() {
                    shared.push(ev);
                }
            }
            for (f, off) in frames.iter() {
                let mut f = f.clone();
                let seq = down.next_seq;
                down.next_seq += 1;
                f[*off..*off + 4].copy_from_slice(&seq.to_le_bytes());
                if down.w.write_all(&f).await.is_err() {
                    failed = true;
                    break;
                }
            }
        }
        if failed {
            break;
        }
    }
    let mut down = cs.down.lock().await;
    let _ = down.w.shutdown().await;
}

async fn proxy_task(shared: Arc<Shared>, listener: TcpListener, upstream: std::net::SocketAddr) {
    loop {
        let Ok((client, _)) = listener.accept().await else { break };
        if shared.stop.load(Ordering::SeqCst) {
            break;
        }
        let _ = client.set_nodelay(true);
        let server = match TcpStream::connect(upstream).await {
            Ok(s) => s,
            Err(e) => {
                shared.problem(format!("proxy cannot reach the server: {}", e));
                continue;
            }
        };
        let _ = server.set_nodelay(true);
        let conn = shared.n_conns.fetch_add(1, Ordering::SeqCst) + 1;
        shared.push(Ev::Conn { conn, open: true });
        let (cr, cw) = client.into_split();
        let (sr, sw) = server.into_split();
        let cs = Arc::new(ConnState {
            conn,
            sc: Mutex::new(plain_channel()),
            down: tokio::sync::Mutex::new(Down { w: cw, next_seq: 1 }),
            dup_ids: Mutex::new(HashSet::new()),
            publish_ids: Mutex::new(HashSet::new()),
        });
        let shared2 = shared.clone();
        tokio::spawn(async move {
            let a = tokio::spawn(pump_c2s(shared2.clone(), cs.clone(), cr, sw));
            let b = tokio::spawn(pump_s2c(shared2.clone(), cs.clone(), sr));
            let _ = a.await;
            let _ = b.await;
            shared2.n_conns_closed.fetch_add(1, Ordering::SeqCst);
            shared2.push(Ev::Conn { conn, open: false });
        });
    }
}

// ---------------------------------------------------------------------------------------------
// running one scenario

pub struct ScnResult {
    pub log: Vec<Ev>,
    pub times: Vec<u64>,
    pub inconclusive: Vec<String>,
    pub notes: Vec<String>,
    pub client_failed: u64,
    pub client_timeouts: u64,
    pub client_ok: u64,
    pub changes_done: Vec<String>,
}

#[derive(Default)]
struct ClientEvents {
    ok: AtomicU64,
    failed: AtomicU64,
    timeouts: AtomicU64,
    timeoutish: AtomicU64,
    lost: AtomicU64,
    ended: AtomicBool,
}

fn pick_port() -> Option<(u16, std::net::TcpListener)> {
    for _ in 0..20 {
        let probe = std::net::TcpListener::bind("127.0.0.1:0").ok()?;
        let port = probe.local_addr().ok()?.port();
        match std::net::TcpListener::bind(("127.0.0.2", port)) {
            Ok(l) => {
                drop(probe);
                return Some((port, l));
            }
            Err(_) => continue,
        }
    }
    None
}

async fn wait_until(cap: Duration, mut cond: impl FnMut() -> bool) -> bool {
    let t0 = Instant::now();
    while t0.elapsed() < cap {
        if cond() {
            return true;
        }
        tokio::time::sleep(Duration::from_millis(25)).await;
    }
    cond()
}

async fn add_subscription(session: &Arc<Session>, spec: (u64, u32, usize), nodes: &[NodeId], next_node: &mut usize) -> Result<u32, StatusCode> {
    let id = session
        .create_subscription(Duration::from_millis(spec.0), 3000, spec.1, 0, 0, true, DataChangeCallback::new(|_, _| {}))
        .await?;
    let items: Vec<MonitoredItemCreateRequest> = (0..spec.2)
        .map(|_| {
            let n = nodes[*next_node % nodes.len()].clone();
            *next_node += 1;
            n.into()
        })
        .collect();
    session.create_monitored_items(id, TimestampsToReturn::Both, items).await?;
    Ok(id)
}

pub fn run_scenario(scn: &Scn, tag: &str) -> ScnResult {
    let mut res = ScnResult { log: vec![], times: vec![], inconclusive: vec![], notes: vec![], client_failed: 0, client_timeouts: 0, client_ok: 0, changes_done: vec![] };
    let Some((port, std_listener)) = pick_port() else {
        res.inconclusive.push("loopback sockets unavailable: could not bind 127.0.0.1:P and 127.0.0.2:P".into());
        return res;
    };
    let rt = match tokio::runtime::Builder::new_multi_thread().worker_threads(4).enable_all().build() {
        Ok(rt) => rt,
        Err(e) => {
            res.inconclusive.push(format!("cannot build a tokio runtime: {}", e));
            return res;
        }
    };
    let scratch = pki::scratch_dir(&format!("c36_{}", tag));
    // the real server
    let server = ServerBuilder::new_anonymous("verif-c36")
        .application_uri("urn:verif:c36:server")
        .create_sample_keypair(false)
        .pki_dir(scratch.join("server_pki"))
        .discovery_server_url(None)
        .host_and_port("127.0.0.1", port)
        .discovery_urls(vec![format!("opc.tcp://127.0.0.1:{}/", port)])
        .server();
    let Some(server) = server else {
        res.inconclusive.push("server configuration rejected".into());
        let _ = std::fs::remove_dir_all(&scratch);
        return res;
    };
    let address_space = server.address_space();
    let nodes: Vec<NodeId> = {
        let mut a = address_space.write();
        let ns = a.register_namespace("urn:verif:c36").unwrap_or(2);
        let folder = a.add_folder("verif", "verif", &NodeId::objects_folder_id()).unwrap_or_else(|_| NodeId::objects_folder_id());
        let nodes: Vec<NodeId> = (0..6).map(|i| NodeId::new(ns, format!("v{}", i))).collect();
        let vars = nodes.iter().enumerate().map(|(i, n)| Variable::new(n, format!("v{}", i), format!("v{}", i), 0i32)).collect();
        let _ = a.add_variables(vars, &folder);
        nodes
    };
    let server = Arc::new(RwLock::new(server));
    let shared = Arc::new(Shared {
        log: Mutex::new(Vec::new()),
        times: Mutex::new(Vec::new()),
        t0: Instant::now(),
        faults_on: AtomicBool::new(false),
        fault: Mutex::new(FaultState { rng: Rng::new(scn.seed ^ 0xFA17), burst_left: 0 }),
        fault_pct: scn.fault_pct,
        burst_pct: scn.burst_pct,
        publish_timeout_ms: scn.publish_timeout_ms,
        n_data: AtomicU64::new(0),
        n_good_responses: AtomicU64::new(0),
        n_failed_expected: AtomicU64::new(0),
        n_timeouts_expected: AtomicU64::new(0),
        n_conns: AtomicU32::new(0),
        n_conns_closed: AtomicU32::new(0),
        problems: Mutex::new(Vec::new()),
        stop: AtomicBool::new(false),
    });
    let cev = Arc::new(ClientEvents::default());
    let scn2 = scn.clone();
    let shared2 = shared.clone();
    let cev2 = cev.clone();
    let server2 = server.clone();
    let scratch2 = scratch.clone();
    let outcome: Result<(Vec<String>, Vec<String>), String> = rt.block_on(async move {
        let scn = scn2;
        let shared = shared2;
        let cev = cev2;
        // server task; it panics if it cannot bind, which shows up as the client not connecting
        let server_task = tokio::spawn(Server::new_server_task(server2.clone()));
        // proxy
        std_listener.set_nonblocking(true).map_err(|e| format!("listener: {}", e))?;
        let listener = TcpListener::from_std(std_listener).map_err(|e| format!("listener: {}", e))?;
        let upstream: std::net::SocketAddr = format!("127.0.0.1:{}", port).parse().unwrap();
        let proxy = tokio::spawn(proxy_task(shared.clone(), listener, upstream));
        // wait for the server to listen
        let mut up = false;
        for _ in 0..100 {
            if TcpStream::connect(upstream).await.is_ok() {
                up = true;
                break;
            }
            tokio::time::sleep(Duration::from_millis(50)).await;
        }
        if !up {
            return Err("the server did not start listening on loopback".into());
        }
        // the real client
        let client = ClientBuilder::new()
            .application_name("verif-c36-client")
            .application_uri("urn:verif:c36:client")
            .pki_dir(scratch2.join("client_pki"))
            .create_sample_keypair(false)
            .trust_server_certs(true)
            .session_retry_limit(1)
            .session_timeout(120_000)
            .keep_alive_interval(Duration::from_secs(5))
            .request_timeout(Duration::from_secs(8))
            .publish_timeout(Duration::from_millis(scn.publish_timeout_ms))
            .min_publish_interval(Duration::from_millis(scn.min_publish_interval_ms))
            .max_inflight_publish(scn.max_inflight_publish)
            .client();
        let Some(mut client) = client else { return Err("client configuration rejected".into()) };
        let url = format!("opc.tcp://127.0.0.2:{}/", port);
        let endpoint: EndpointDescription = (url.as_str(), "None", MessageSecurityMode::None, UserTokenPolicy::anonymous()).into();
        let (session, event_loop) = client.new_session_from_info((endpoint, IdentityToken::Anonymous)).map_err(|e| format!("session: {}", e))?;
        let cev3 = cev.clone();
        let loop_task = tokio::spawn(async move {
            let stream = event_loop.enter();
            tokio::pin!(stream);
            while let Some(r) = stream.next().await {
                match r {
                    Ok(SessionPollResult::Subscription(a)) => {
                        let s = format!("{:?}", a);
                        if s.starts_with("PublishFailed") {
                            cev3.failed.fetch_add(1, Ordering::SeqCst);
                            // the activity type cannot be named from outside the crate; compare its Debug form
                            let is = |st: StatusCode| s == format!("PublishFailed({:?})", st);
                            if is(StatusCode::BadTimeout) {
                                cev3.timeouts.fetch_add(1, Ordering::SeqCst);
                            }
                            if is(StatusCode::BadTimeout) || is(StatusCode::BadRequestTimeout) {
                                cev3.timeoutish.fetch_add(1, Ordering::SeqCst);
                            }
                            if std::env::var("VERIF_C36_DEBUG").is_ok() {
                                eprintln!("client event {}", s);
                            }
                        } else {
                            cev3.ok.fetch_add(1, Ordering::SeqCst);
                        }
                    }
                    Ok(SessionPollResult::ConnectionLost(_)) => {
                        cev3.lost.fetch_add(1, Ordering::SeqCst);
                    }
                    Ok(_) => {}
                    Err(_) => break,
                }
            }
            cev3.ended.store(true, Ordering::SeqCst);
        });
        let connected = tokio::time::timeout(Duration::from_secs(15), session.wait_for_connection()).await;
        if !matches!(connected, Ok(true)) {
            return Err("the client session did not connect through the proxy within 15 s".into());
        }
        let mut next_node = 0usize;
        let mut live: Vec<u32> = Vec::new();
        let mut items_of: HashMap<u32, usize> = HashMap::new();
        for s in &scn.subs {
            match add_subscription(&session, *s, &nodes, &mut next_node).await {
                Ok(id) => {
                    live.push(id);
                    items_of.insert(id, s.2);
                }
                Err(e) => return Err(format!("initial subscription could not be created: {}", e)),
            }
        }
        // the values change all the time
        let writer_stop = Arc::new(AtomicBool::new(false));
        let ws = writer_stop.clone();
        let nodes2 = nodes.clone();
        let writer = tokio::spawn(async move {
            let mut v = 0i32;
            while !ws.load(Ordering::SeqCst) {
                v = v.wrapping_add(1);
                {
                    let mut a = address_space.write();
                    let now = DateTime::now();
                    for n in &nodes2 {
                        let ok = a.set_variable_value(n.clone(), v, &now, &now);
                        if v == 1 && std::env::var("VERIF_C36_DEBUG").is_ok() {
                            eprintln!("set_variable_value {:?} -> {}", n, ok);
                        }
                    }
                }
                tokio::time::sleep(Duration::from_millis(40)).await;
            }
        });
        shared.faults_on.store(true, Ordering::SeqCst);
        // workload phase: the wall clock bounds it and spaces the subscription changes (it decides no verdict)
        let t0 = Instant::now();
        let mut rng = Rng::new(scn.seed ^ 0xC4A6);
        let mut changes = scn.changes.clone().into_iter();
        let change_gap = Duration::from_millis(scn.run_ms / (scn.changes.len() as u64 + 2));
        let mut next_change_at = change_gap;
        let mut changes_done: Vec<String> = Vec::new();
        let mut notes: Vec<String> = Vec::new();
        let mut disabled: Vec<u32> = Vec::new();
        while t0.elapsed() < Duration::from_millis(scn.run_ms) {
            tokio::time::sleep(Duration::from_millis(20)).await;
            if cev.lost.load(Ordering::SeqCst) > 0 || cev.ended.load(Ordering::SeqCst) {
                break;
            }
            if t0.elapsed() >= next_change_at {
                next_change_at += change_gap;
                let Some(op) = changes.next() else { continue };
                let r: Result<String, StatusCode> = match op.as_str() {
                    "create" if live.len() < 3 => {
                        let spec = (100u64, *rng.pick(&[2u32, 3]), 1 + rng.usize(2));
                        match add_subscription(&session, spec, &nodes, &mut next_node).await {
                            Ok(id) => {
                                live.push(id);
                                items_of.insert(id, spec.2);
                                Ok(format!("create:{}", id))
                            }
                            Err(e) => Err(e),
                        }
                    }
                    "delete" if live.len() > 1 => {
                        let id = live.remove(rng.usize(live.len()));
                        disabled.retain(|d| *d != id);
                        session.delete_subscription(id).await.map(|_| format!("delete:{}", id))
                    }
                    "modify" if !live.is_empty() => {
                        let id = *rng.pick(&live);
                        let interval = *rng.pick(&[100.0f64, 100.0, 150.0]);
                        session.modify_subscription(id, interval, 3000, 2, 0, 0).await.map(|_| format!("modify:{}", id))
                    }
                    // with nothing left enabled the client would publish only once per lifetime
                    "pubmode-off" if live.len() > disabled.len() + 1 => {
                        let enabled: Vec<u32> = live.iter().cloned().filter(|i| !disabled.contains(i)).collect();
                        let id = *rng.pick(&enabled);
                        disabled.push(id);
                        session.set_publishing_mode(&[id], false).await.map(|_| format!("pubmode-off:{}", id))
                    }
                    "pubmode-on" if !disabled.is_empty() => {
                        let ids = std::mem::take(&mut disabled);
                        session.set_publishing_mode(&ids, true).await.map(|_| format!("pubmode-on:{:?}", ids))
                    }
                    "replace" if !live.is_empty() => {
                        // monitored item ids are not known here; deleting the subscription's items is done by
                        // re-creating the subscription instead
                        let id = live.remove(rng.usize(live.len()));
                        disabled.retain(|d| *d != id);
                        let _ = session.delete_subscription(id).await;
                        let spec = (100u64, 2u32, 1usize);
                        match add_subscription(&session, spec, &nodes, &mut next_node).await {
                            Ok(nid) => {
                                live.push(nid);
                                Ok(format!("replace:{}->{}", id, nid))
                            }
                            Err(e) => Err(e),
                        }
                    }
                    other => Ok(format!("skipped:{}", other)),
                };
                match r {
                    Ok(s) => {
                        shared.push(Ev::Marker(format!("change {}", s)));
                        changes_done.push(s);
                    }
                    Err(e) => notes.push(format!("subscription change {} failed with {}", op, e)),
                }
            }
        }
        // drain: no more failures, publishing re-enabled, values keep changing so that requests keep flowing
        shared.faults_on.store(false, Ordering::SeqCst);
        shared.push(Ev::Marker(MARK_FAULTS_OFF.into()));
        if !disabled.is_empty() {
            let _ = session.set_publishing_mode(&disabled, true).await;
        }
        let cap = Duration::from_millis(2 * scn.publish_timeout_ms + 3000);
        // every request the proxy failed must have surfaced at the client as a failed publish, and every withheld one
        // as a timeout: only then has the client put the acknowledgements they carried back into its queue
        let all_reported = wait_until(cap, || {
            cev.failed.load(Ordering::SeqCst) >= shared.n_failed_expected.load(Ordering::SeqCst)
                && cev.timeoutish.load(Ordering::SeqCst) >= shared.n_timeouts_expected.load(Ordering::SeqCst)
        })
        .await;
        if all_reported {
            shared.push(Ev::Marker(MARK_FAILURES_REPORTED.into()));
            let base = shared.n_good_responses.load(Ordering::SeqCst);
            let want = (scn.max_inflight_publish as u64 + 5) * 2 + 2;
            let _ = wait_until(Duration::from_secs(8), || shared.n_good_responses.load(Ordering::SeqCst) >= base + want).await;
        } else {
            notes.push(format!(
                "drain: the client reported {} failed publishes, the proxy failed {}",
                cev.failed.load(Ordering::SeqCst),
                shared.n_failed_expected.load(Ordering::SeqCst)
            ));
        }
        shared.push(Ev::Marker("end".into()));
        shared.stop.store(true, Ordering::SeqCst);
        writer_stop.store(true, Ordering::SeqCst);
        let _ = writer.await;
        let _ = tokio::time::timeout(Duration::from_secs(3), session.disconnect()).await;
        loop_task.abort();
        {
            let mut s = server2.write();
            s.abort();
        }
        proxy.abort();
        let _ = tokio::time::timeout(Duration::from_secs(2), server_task).await;
        Ok((changes_done, notes))
    });
    rt.shutdown_timeout(Duration::from_secs(2));
    let _ = std::fs::remove_dir_all(&scratch);
    res.log = shared.log.lock().unwrap().clone();
    res.times = shared.times.lock().unwrap().clone();
    res.client_failed = cev.failed.load(Ordering::SeqCst);
    res.client_timeouts = cev.timeouts.load(Ordering::SeqCst);
    res.client_ok = cev.ok.load(Ordering::SeqCst);
    match outcome {
        Ok((changes, notes)) => {
            res.changes_done = changes;
            res.notes = notes;
        }
        Err(e) => res.inconclusive.push(e),
    }
    for p in shared.problems.lock().unwrap().iter() {
        res.notes.push(format!("proxy: {}", p));
    }
    if cev.lost.load(Ordering::SeqCst) > 0 || shared.n_conns.load(Ordering::SeqCst) > 1 {
        res.inconclusive.push("the connection between client and proxy was lost during the run; acknowledgement accounting across reconnects is not judged".into());
    }
    let expected_timeouts = shared.n_timeouts_expected.load(Ordering::SeqCst);
    if res.client_timeouts > expected_timeouts {
        res.inconclusive.push(format!(
            "the client timed out {} publish requests but the proxy only withheld {}: a forwarded request timed out at the client, so 'received by the server' and 'failed at the client' overlap",
            res.client_timeouts, expected_timeouts
        ));
    }
    res
}

// ---------------------------------------------------------------------------------------------

fn judge(rep: &mut Report, scn: &Scn, r: &ScnResult, min_data: u64) {
    let o = oracle(&r.log, scn.max_inflight_publish);
    let data = *o.counters.get("publish_responses_with_data_returned_to_client").unwrap_or(&0);
    let marker = r.log.iter().any(|e| matches!(e, Ev::Marker(m) if m == MARK_FAILURES_REPORTED));
    for (k, v) in &o.counters {
        rep.count(k, *v);
    }
    rep.count("client_publish_ok_events", r.client_ok);
    rep.count("client_publish_failed_events", r.client_failed);
    rep.count("subscription_changes_done", r.changes_done.iter().filter(|c| !c.starts_with("skipped")).count() as u64);
    rep.count("scenarios_run", 1);
    for n in &r.notes {
        rep.note(n.clone());
    }
    if let Some(p) = take_uncaught_panic() {
        // server or client tasks run on the scenario's runtime; a panic there is not this property's business
        // but explains a lost connection
        rep.note(format!("a task panicked during the run: {} at {}:{}", p.msg, p.file, p.line));
    }
    let usable = r.inconclusive.is_empty();
    for i in &r.inconclusive {
        rep.inconclusive(i.clone());
    }
    if !usable {
        return;
    }
    let empty = *o.counters.get("publish_responses_keepalive_returned_to_client").unwrap_or(&0);
    if scn.subs.len() > 1 {
        // the server under test answers several subscriptions mostly with empty messages
        if data + empty < 3 * min_data {
            rep.inconclusive(format!("too few publish responses observed: {} (minimum {})", data + empty, 3 * min_data));
        }
    } else if data < min_data {
        rep.inconclusive(format!("too few notifications observed: {} (minimum {})", data, min_data));
    }
    if !marker {
        rep.inconclusive("the drain phase did not reach the point where the client had reported every failed publish; missing acknowledgements cannot be judged".to_string());
    }
    for c in &o.classes {
        rep.case(&format!("k{} {}", scn.max_inflight_publish, c));
    }
    rep.sample(json!({"scenario": scn.to_json(), "changes": r.changes_done, "log_events": r.log.len()}));
    for (sig, detail, w) in o.violations {
        // the witness: the scenario plus the part of the log that mentions the key
        let key = w.get("key").cloned().unwrap_or(Value::Null);
        let (ks, kq) = (key.get(0).and_then(|x| x.as_u64()).unwrap_or(0) as u32, key.get(1).and_then(|x| x.as_u64()).unwrap_or(0) as u32);
        let mut excerpt: Vec<Value> = Vec::new();
        for (i, e) in r.log.iter().enumerate() {
            let hit = match e {
                Ev::Resp { sub, seq, .. } => *sub == ks && *seq == kq,
                Ev::Req { acks, .. } => acks.contains(&(ks, kq)),
                Ev::Marker(_) => true,
                _ => false,
            };
            if hit && excerpt.len() < 40 {
                excerpt.push(e.to_json(i));
            }
        }
        rep.violation(sig, detail, json!({"class": "live-run", "scenario": scn.to_json(), "witness": w, "log_excerpt": excerpt}));
    }
}

fn write_log(args: &Args, tag: &str, log: &[Ev], times: &[u64]) {
    let path = format!("{}.{}.log.jsonl", args.out, tag);
    let mut s = String::new();
    for (i, e) in log.iter().enumerate() {
        let mut j = e.to_json(i);
        if let (Some(t), Some(o)) = (times.get(i), j.as_object_mut()) {
            o.insert("t_ms".into(), json!(t));
        }
        s.push_str(&j.to_string());
        s.push('\n');
    }
    let _ = std::fs::write(path, s);
}

pub fn run(args: &Args, rep: &mut Report) {
    if let Some(path) = &args.replay {
        let v: Option<Value> = std::fs::read(path).ok().and_then(|b| serde_json::from_slice(&b).ok());
        let case = v.as_ref().and_then(|v| v.get("case"));
        // a replay file may carry a complete log (offline re-judgement) or just the scenario (live re-run)
        if let Some(events) = case.and_then(|c| c.get("full_log")).and_then(|l| l.as_array()) {
            let log: Vec<Ev> = events.iter().filter_map(Ev::from_json).collect();
            let k = case.and_then(|c| c.get("scenario")).and_then(|s| s.get("max_inflight_publish")).and_then(|x| x.as_u64()).unwrap_or(2) as usize;
            let o = oracle(&log, k);
            for c in &o.classes {
                rep.case(c);
            }
            for (sig, detail, w) in o.violations {
                rep.violation(sig, detail, w);
            }
            return;
        }
        let Some(scn) = case.and_then(|c| c.get("scenario")).and_then(Scn::from_json) else {
            rep.inconclusive("replay file has no scenario");
            return;
        };
        rep.begin_case(&json!({"class": "live-run", "scenario": scn.to_json()}));
        let r = run_scenario(&scn, &format!("replay_{}", args.shard));
        write_log(args, "replay", &r.log, &r.times);
        judge(rep, &scn, &r, 1);
        return;
    }
    let rounds = if args.thorough() { 2 } else { 1 };
    for round in 0..rounds {
        let scn = Scn::generate(args.seed, args.shard, round, args.thorough());
        rep.begin_case(&json!({"class": "live-run", "scenario": scn.to_json()}));
        let r = run_scenario(&scn, &format!("s{}_r{}", args.shard, round));
        write_log(args, &format!("r{}", round), &r.log, &r.times);
        judge(rep, &scn, &r, 25);
    }
}
