//! Client-side workloads: C35 (every request completes exactly once) and C36 (every received
//! notification sequence number is acknowledged exactly once).
#[allow(unused_imports)]
pub(crate) use vh_common::{common, gen, pki};
pub mod c35;
pub mod c36;
pub mod p_client;
pub use p_client::dispatch;
