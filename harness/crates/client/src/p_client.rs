//! Dispatch for the client group.
use crate::common::*;

pub fn dispatch(args: &Args, rep: &mut Report) -> bool {
    match args.prop.as_str() {
        "C35" => c35(args, rep),
        "C36" => c36(args, rep),
        _ => return false,
    }
    true
}

/// C35: every client request completes exactly once (scripted interleavings over the real
/// client `TransportState`)
pub fn c35(args: &Args, rep: &mut Report) {
    crate::c35::run(args, rep)
}

/// C36: every received notification sequence number is acknowledged exactly once (real client
/// `Session` against the real server through a logging, fault-injecting proxy)
pub fn c36(args: &Args, rep: &mut Report) {
    crate::c36::run(args, rep)
}
