// Scans the repository's generated service types so that every type with a binary encoding is
// exercised without listing them by hand.
use std::io::Write;
fn main() {
    let dir = "/repo/lib/src/types/service_types";
    println!("cargo:rerun-if-changed={}", dir);
    let mut names: Vec<String> = Vec::new();
    if let Ok(rd) = std::fs::read_dir(dir) {
        let mut files: Vec<_> = rd.flatten().map(|e| e.path()).collect();
        files.sort();
        for p in files {
            if p.extension().map(|e| e != "rs").unwrap_or(true) {
                continue;
            }
            let fname = p.file_name().unwrap().to_string_lossy().to_string();
            if fname == "mod.rs" || fname == "impls.rs" {
                continue;
            }
            if let Ok(src) = std::fs::read_to_string(&p) {
                for line in src.lines() {
                    let l = line.trim();
                    if let Some(rest) = l.strip_prefix("impl BinaryEncoder<") {
                        if let Some(end) = rest.find('>') {
                            let n = &rest[..end];
                            if n.chars().all(|c| c.is_alphanumeric() || c == '_') {
                                names.push(n.to_string());
                            }
                        }
                    }
                }
            }
        }
    }
    names.sort();
    names.dedup();
    let out = std::path::Path::new(&std::env::var("OUT_DIR").unwrap()).join("all_types.rs");
    let mut f = std::fs::File::create(out).unwrap();
    writeln!(f, "macro_rules! for_each_service_type {{ ($m:ident) => {{ $m!(").unwrap();
    for n in &names {
        writeln!(f, "    {},", n).unwrap();
    }
    writeln!(f, ") }} }}").unwrap();
}
