//! Workloads and oracles for the binary codec properties (C01-C03).
#[allow(unused_imports)]
pub(crate) use vh_common::{common, gen, pki};
pub mod p_codec;
pub use p_codec::{child, dispatch};
