//! C01, C02, C03: binary codec round trip, totality and limits.
use crate::common::*;
use crate::gen::{self, BiasedReader};
use opcua::core::supported_message::SupportedMessage;
use opcua::types::service_types::*;
use opcua::types::*;
use opcua::types::service_types::Argument; // both globs export it; nightly rejects the ambiguity
use serde_json::json;
use std::convert::TryFrom;
use std::fmt::Debug;
use std::io::Cursor;
use std::sync::Arc;

include!(concat!(env!("OUT_DIR"), "/all_types.rs"));

pub fn child(name: &str, rest: &[String]) -> Option<i32> {
    match name {
        "codec-bomb" => Some(child_bomb(rest)),
        _ => None,
    }
}

pub fn dispatch(args: &Args, rep: &mut Report) -> bool {
    match args.prop.as_str() {
        "C01" => c01(args, rep),
        "C02" => c02(args, rep),
        "C03" => c03(args, rep),
        _ => return false,
    }
    true
}

fn fresh_options() -> DecodingOptions {
    DecodingOptions::default()
}

fn options_with(max_str: usize, max_bs: usize, max_arr: usize, depth: u64) -> DecodingOptions {
    DecodingOptions {
        max_string_length: max_str,
        max_byte_string_length: max_bs,
        max_array_length: max_arr,
        decoding_depth_gauge: Arc::new(DepthGauge::new(depth)),
        ..DecodingOptions::default()
    }
}

fn dbg<T: Debug>(v: &T) -> String {
    format!("{:?}", v)
}

fn short(s: &str, n: usize) -> String {
    if s.len() <= n {
        s.to_string()
    } else {
        let mut e = n;
        while !s.is_char_boundary(e) {
            e -= 1;
        }
        format!("{}…", &s[..e])
    }
}

/// Outcome of the round-trip oracle on one value
enum Rt {
    Ok { normalised: bool, len: usize },
    Bad { kind: &'static str, detail: String },
}

/// The round-trip oracle. `expected` is what decode(encode(v)) must equal (v after the documented
/// normalisations), or None when only canonical-form stability is demanded (decode-driven values).
fn round_trip<T>(v: &T, expected: Option<&T>) -> Rt
where
    T: BinaryEncoder<T> + Debug + PartialEq,
{
    let opts = fresh_options();
    // 1. predicted length equals bytes written
    let predicted = match catch(|| v.byte_len()) {
        Ok(n) => n,
        Err(p) => {
            return Rt::Bad {
                kind: "byte_len-panic",
                detail: format!("{} at {}:{}", p.msg, p.file, p.line),
            }
        }
    };
    let mut buf = Cursor::new(Vec::new());
    let written = match catch(|| v.encode(&mut buf)) {
        Ok(Ok(n)) => n,
        Ok(Err(e)) => {
            return Rt::Bad {
                kind: "encode-error",
                detail: format!("encode returned {:?}", e),
            }
        }
        Err(p) => {
            return Rt::Bad {
                kind: "encode-panic",
                detail: format!("{} at {}:{}", p.msg, p.file, p.line),
            }
        }
    };
    let b1 = buf.into_inner();
    if written != b1.len() || predicted != b1.len() {
        return Rt::Bad {
            kind: "length-mismatch",
            detail: format!("byte_len()={} encode returned {} bytes written {}", predicted, written, b1.len()),
        };
    }
    // 2. decoder consumes exactly those bytes (a sentinel tail follows)
    let mut with_tail = b1.clone();
    with_tail.extend_from_slice(&[0xA5, 0x5A, 0xA5, 0x5A, 0xA5, 0x5A, 0xA5, 0x5A, 0xA5, 0x5A, 0xA5, 0x5A]);
    let mut cur = Cursor::new(&with_tail[..]);
    let v2 = match catch(|| T::decode(&mut cur, &opts)) {
        Ok(Ok(v2)) => v2,
        Ok(Err(e)) => {
            return Rt::Bad {
                kind: "decode-of-own-encoding-failed",
                detail: format!("decode returned {:?}", e),
            }
        }
        Err(p) => {
            return Rt::Bad {
                kind: "decode-panic",
                detail: format!("{} at {}:{}", p.msg, p.file, p.line),
            }
        }
    };
    let consumed = cur.position() as usize;
    if consumed != b1.len() {
        return Rt::Bad {
            kind: "stream-desync",
            detail: format!("encoded {} bytes, decoder consumed {}", b1.len(), consumed),
        };
    }
    // 3. value equality (NaN tolerant through Debug text)
    let mut normalised = false;
    match expected {
        Some(e) => {
            if v2 != *e && dbg(&v2) != dbg(e) {
                return Rt::Bad {
                    kind: "value-changed",
                    detail: format!("expected {} got {}", short(&dbg(e), 300), short(&dbg(&v2), 300)),
                };
            }
        }
        None => {
            if v2 != *v && dbg(&v2) != dbg(v) {
                normalised = true;
            }
        }
    }
    // 4. the decoded value is itself a fixed point of encode/decode (it is already normalised, so
    //    this time equality is exact) and again predicts its length and consumes exactly its bytes
    let r2 = catch(|| {
        let predicted = v2.byte_len();
        let mut c = Cursor::new(Vec::new());
        let written = v2.encode(&mut c).map_err(|e| format!("re-encode error {:?}", e))?;
        let mut b2 = c.into_inner();
        if predicted != b2.len() || written != b2.len() {
            return Err(format!("second generation: byte_len()={} returned {} written {}", predicted, written, b2.len()));
        }
        let n = b2.len();
        b2.extend_from_slice(&[0x5A; 8]);
        let mut cur = Cursor::new(&b2[..]);
        let v3 = T::decode(&mut cur, &opts).map_err(|e| format!("second generation decode failed {:?}", e))?;
        if cur.position() as usize != n {
            return Err(format!("second generation: encoded {} bytes, decoder consumed {}", n, cur.position()));
        }
        if v3 != v2 && dbg(&v3) != dbg(&v2) {
            return Err(format!("second generation value changed: {} -> {}", short(&dbg(&v2), 200), short(&dbg(&v3), 200)));
        }
        Ok(())
    });
    match r2 {
        Ok(Ok(())) => {}
        Ok(Err(e)) => {
            let kind = if e.contains("consumed") {
                "stream-desync-of-decoded-value"
            } else if e.contains("byte_len") {
                "length-mismatch-of-decoded-value"
            } else {
                "decoded-value-not-stable"
            };
            return Rt::Bad { kind, detail: e };
        }
        Err(p) => {
            return Rt::Bad {
                kind: "re-encode-panic",
                detail: format!("{} at {}:{}", p.msg, p.file, p.line),
            }
        }
    }
    Rt::Ok {
        normalised,
        len: b1.len(),
    }
}

// ---------------------------------------------------------------------------------------------
// expected-side normalisation for the built-in types (the documented ones only)

fn norm_lt(l: &LocalizedText) -> LocalizedText {
    let f = |s: &UAString| if s.is_empty() { UAString::null() } else { s.clone() };
    LocalizedText {
        locale: f(&l.locale),
        text: f(&l.text),
    }
}

fn norm_dv(d: &DataValue) -> DataValue {
    let mut d = d.clone();
    d.value = d.value.as_ref().map(norm_variant);
    d
}

/// Equality for values that may contain empty arrays: their dimensions are not compared
fn dv_eq_mod_empty_dims(a: &DataValue, b: &DataValue) -> bool {
    variant_eq_mod_empty_dims(&Variant::DataValue(Box::new(a.clone())), &Variant::DataValue(Box::new(b.clone())))
}

fn norm_variant(v: &Variant) -> Variant {
    match v {
        Variant::LocalizedText(l) => Variant::LocalizedText(Box::new(norm_lt(l))),
        Variant::Variant(inner) => Variant::Variant(Box::new(norm_variant(inner))),
        Variant::DataValue(d) => Variant::DataValue(Box::new(norm_dv(d))),
        Variant::Array(a) => {
            let values: Vec<Variant> = a.values.iter().map(norm_variant).collect();
            let dimensions = if values.is_empty() {
                // documented: dimensions of empty arrays are not preserved
                Some(Vec::new())
            } else {
                a.dimensions.clone()
            };
            Variant::Array(Box::new(Array {
                value_type: a.value_type,
                values,
                dimensions,
            }))
        }
        other => other.clone(),
    }
}

/// For an empty array any dimensions are acceptable after the round trip
fn variant_eq_mod_empty_dims(a: &Variant, b: &Variant) -> bool {
    fn strip(v: &Variant) -> Variant {
        match v {
            Variant::Array(a) if a.values.is_empty() => Variant::Array(Box::new(Array {
                value_type: a.value_type,
                values: vec![],
                dimensions: None,
            })),
            Variant::Array(a) => Variant::Array(Box::new(Array {
                value_type: a.value_type,
                values: a.values.iter().map(strip).collect(),
                dimensions: a.dimensions.clone(),
            })),
            Variant::Variant(i) => Variant::Variant(Box::new(strip(i))),
            Variant::DataValue(d) => {
                let mut d = (**d).clone();
                d.value = d.value.as_ref().map(strip);
                Variant::DataValue(Box::new(d))
            }
            o => o.clone(),
        }
    }
    dbg(&strip(a)) == dbg(&strip(b))
}

// ---------------------------------------------------------------------------------------------
// C01

type DrivenFn = fn(&mut Rng, &mut Report) -> Option<(String, String, serde_json::Value)>;

/// Let the real decoder of T pull bytes from the biased generator; every value it accepts is a
/// valid value of T with arbitrary field contents, which must then round trip.
fn driven<T>(rng: &mut Rng, rep: &mut Report) -> Option<(String, String, serde_json::Value)>
where
    T: BinaryEncoder<T> + Debug + PartialEq,
{
    let name = std::any::type_name::<T>().rsplit("::").next().unwrap_or("?").to_string();
    let opts = fresh_options();
    let mut rd = BiasedReader::new(rng.fork(1), 4096);
    let v1 = match catch(|| T::decode(&mut rd, &opts)) {
        Ok(Ok(v)) => v,
        Ok(Err(_)) => {
            rep.count("driven_rejected", 1);
            return None;
        }
        Err(p) => {
            // decoder panics are C02's business, but they still stop this case
            rep.count("driven_decode_panics", 1);
            let _ = p;
            return None;
        }
    };
    let bytes = rd.produced.clone();
    let case = json!({"mode": "decode-driven", "type": name, "bytes": hex(&bytes), "class": format!("driven:{}", name)});
    rep.begin_case(&case);
    let out = round_trip(&v1, None);
    match out {
        Rt::Ok { normalised, len } => {
            let bucket = if len < 8 { 0 } else if len < 64 { 1 } else if len < 512 { 2 } else { 3 };
            rep.case(&format!("driven:{}:{}:{}", name, bucket, normalised as u8));
            if normalised {
                rep.count("driven_values_normalised_by_round_trip", 1);
            }
            rep.count("driven_values_round_tripped", 1);
            rep.sample(json!({"mode": "decode-driven", "type": name, "encoded_len": len, "value": short(&dbg(&v1), 200)}));
            None
        }
        Rt::Bad { kind, detail } => Some((format!("roundtrip|{}|{}", kind, name), detail, case)),
    }
}

macro_rules! driven_table {
    ($($t:ident,)*) => { &[ $( (stringify!($t), driven::<$t> as DrivenFn), )* ] };
}

fn driven_types() -> &'static [(&'static str, DrivenFn)] {
    for_each_service_type!(driven_table)
}

const BUILTIN_DRIVEN: &[(&str, DrivenFn)] = &[
    ("Variant", driven::<Variant> as DrivenFn),
    ("DataValue", driven::<DataValue> as DrivenFn),
    ("DiagnosticInfo", driven::<DiagnosticInfo> as DrivenFn),
    ("ExtensionObject", driven::<ExtensionObject> as DrivenFn),
    ("NodeId", driven::<NodeId> as DrivenFn),
    ("ExpandedNodeId", driven::<ExpandedNodeId> as DrivenFn),
    ("LocalizedText", driven::<LocalizedText> as DrivenFn),
    ("QualifiedName", driven::<QualifiedName> as DrivenFn),
    ("RequestHeader", driven::<RequestHeader> as DrivenFn),
    ("ResponseHeader", driven::<ResponseHeader> as DrivenFn),
    ("Argument", driven::<Argument> as DrivenFn),
];

fn direct_check<T>(rep: &mut Report, tname: &str, shape: &str, v: &T, expected: &T)
where
    T: BinaryEncoder<T> + Debug + PartialEq,
{
    let case = json!({"mode": "direct", "type": tname, "shape": shape, "value": short(&dbg(v), 400),
        "class": format!("direct:{}:{}", tname, shape)});
    rep.begin_case(&case);
    match round_trip(v, Some(expected)) {
        Rt::Ok { len, .. } => {
            let bucket = if len < 8 { 0 } else if len < 64 { 1 } else { 2 };
            rep.case(&format!("direct:{}:{}:{}", tname, shape, bucket));
            rep.sample(json!({"mode": "direct", "type": tname, "shape": shape, "encoded_len": len, "value": short(&dbg(v), 160)}));
        }
        Rt::Bad { kind, detail } => {
            rep.case(&format!("direct:{}:{}", tname, shape));
            rep.violation(format!("roundtrip|{}|{}|{}", kind, tname, coarse_shape(shape)), detail, case);
        }
    }
}

fn variant_shape(v: &Variant) -> String {
    match v {
        Variant::Array(a) => format!(
            "array[{:?};{}{}]",
            a.value_type,
            if a.values.is_empty() { "empty" } else if a.values.len() == 1 { "one" } else { "many" },
            match &a.dimensions {
                None => "".to_string(),
                Some(d) => format!(";dims{}", d.len()),
            }
        ),
        Variant::Variant(i) => format!("variant<{}>", variant_shape(i)),
        Variant::DataValue(d) => format!(
            "datavalue<{}>",
            d.value.as_ref().map(variant_shape).unwrap_or_else(|| "none".into())
        ),
        Variant::ExtensionObject(e) => format!(
            "extobj<{}>",
            match e.body {
                ExtensionObjectEncoding::None => "none",
                ExtensionObjectEncoding::ByteString(_) => "bytes",
                ExtensionObjectEncoding::XmlElement(_) => "xml",
            }
        ),
        Variant::DiagnosticInfo(d) => format!("diag<inner={}>", d.inner_diagnostic_info.is_some()),
        o => format!("{:?}", o.type_id()),
    }
}

/// The shape with element types removed: what a violation signature is keyed on
fn coarse_shape(shape: &str) -> String {
    let mut out = String::new();
    let mut skip = false;
    for c in shape.chars() {
        match c {
            '[' => {
                out.push('[');
                skip = true;
            }
            ';' | ']' if skip => {
                skip = false;
                out.push(c);
            }
            _ if skip => {}
            _ => out.push(c),
        }
    }
    out
}

/// Sentinel embedding: [A, v, B] written to one buffer must read back as [A, v', B]
fn embedded_check(rep: &mut Report, rng: &mut Rng, v: &Variant) {
    let a = gen::ua_string(rng, 10);
    let b = (rng.next_u32(), gen::node_id(rng));
    let case = json!({"mode": "embedded", "value": short(&dbg(v), 400), "class": format!("embedded:{}", variant_shape(v))});
    rep.begin_case(&case);
    let r = catch(|| {
        let mut c = Cursor::new(Vec::new());
        a.encode(&mut c).ok()?;
        v.encode(&mut c).ok()?;
        b.0.encode(&mut c).ok()?;
        b.1.encode(&mut c).ok()?;
        let bytes = c.into_inner();
        let opts = fresh_options();
        let mut r = Cursor::new(&bytes[..]);
        let a2 = UAString::decode(&mut r, &opts).ok()?;
        let _v2 = Variant::decode(&mut r, &opts).ok()?;
        let b0 = u32::decode(&mut r, &opts).ok();
        let b1 = NodeId::decode(&mut r, &opts).ok();
        Some((a2 == a, b0 == Some(b.0) && b1.as_ref() == Some(&b.1), r.position() as usize == bytes.len()))
    });
    rep.case(&format!("embedded:{}", variant_shape(v)));
    match r {
        Ok(Some((true, true, true))) => {}
        Ok(Some((_, false, _))) | Ok(Some((_, _, false))) => {
            rep.violation(
                format!("roundtrip|embedded-desync|{}", coarse_shape(&variant_shape(v))),
                "a value written after the variant did not read back: the variant's decoder left the stream at the wrong position",
                case,
            );
        }
        Ok(_) => {
            rep.violation(
                format!("roundtrip|embedded-failed|{}", coarse_shape(&variant_shape(v))),
                "encoding or decoding the embedded sequence failed",
                case,
            );
        }
        Err(p) => rep.violation(p.signature(), format!("{} at {}:{}", p.msg, p.file, p.line), case),
    }
}

pub fn c01(args: &Args, rep: &mut Report) {
    let mut rng = Rng::new(args.seed ^ 0xC01 ^ ((args.shard as u64) << 32));
    rep.max_samples = 8;

    // (a) direct generators for every built-in type
    let n_direct = args.budget(400_000, 6_000_000);
    for i in 0..n_direct {
        match i % 14 {
            0 => {
                let v = gen::ua_string(&mut rng, 64);
                let shape = if v.is_null() { "null" } else if v.is_empty() { "empty" } else { "text" };
                direct_check(rep, "String", shape, &v, &v);
            }
            1 => {
                let v = gen::byte_string(&mut rng, 64);
                let shape = if v.is_null() { "null" } else if v.is_empty() { "empty" } else { "bytes" };
                direct_check(rep, "ByteString", shape, &v, &v);
            }
            2 => {
                let v = gen::date_time(&mut rng);
                let t = v.ticks();
                let shape = if t == 0 { "epoch" } else if t >= DateTime::endtimes_ticks() { "endtimes" } else { "mid" };
                direct_check(rep, "DateTime", shape, &v, &v);
            }
            3 => {
                let v = gen::guid(&mut rng);
                direct_check(rep, "Guid", "guid", &v, &v);
            }
            4 => {
                let v = gen::node_id(&mut rng);
                let shape = format!(
                    "{}:{}",
                    match v.identifier {
                        Identifier::Numeric(n) => if n < 256 { "num8" } else if n < 65536 { "num16" } else { "num32" },
                        Identifier::String(_) => "str",
                        Identifier::Guid(_) => "guid",
                        Identifier::ByteString(_) => "bytes",
                    },
                    if v.namespace == 0 { "ns0" } else if v.namespace < 256 { "ns8" } else { "ns16" }
                );
                direct_check(rep, "NodeId", &shape, &v, &v);
            }
            5 => {
                let v = gen::expanded_node_id(&mut rng);
                let shape = format!("uri{}:srv{}", !v.namespace_uri.is_null() as u8, (v.server_index != 0) as u8);
                direct_check(rep, "ExpandedNodeId", &shape, &v, &v);
            }
            6 => {
                let v = gen::qualified_name(&mut rng);
                direct_check(rep, "QualifiedName", if v.name.is_null() { "null" } else { "name" }, &v, &v);
            }
            7 => {
                let v = gen::localized_text(&mut rng);
                let shape = format!(
                    "loc{}:text{}",
                    if v.locale.is_null() { "null" } else if v.locale.is_empty() { "empty" } else { "set" },
                    if v.text.is_null() { "null" } else if v.text.is_empty() { "empty" } else { "set" }
                );
                let e = norm_lt(&v);
                direct_check(rep, "LocalizedText", &shape, &v, &e);
            }
            8 => {
                let v = gen::status_code(&mut rng);
                direct_check(rep, "StatusCode", if v.is_good() { "good" } else { "other" }, &v, &v);
            }
            9 => {
                let v = gen::extension_object(&mut rng, 2);
                let shape = variant_shape(&Variant::ExtensionObject(Box::new(v.clone())));
                direct_check(rep, "ExtensionObject", &shape, &v, &v);
            }
            10 => {
                let v = gen::diagnostic_info(&mut rng, 4);
                let mut depth = 0;
                let mut cur = &v;
                while let Some(i) = &cur.inner_diagnostic_info {
                    depth += 1;
                    cur = i;
                }
                direct_check(rep, "DiagnosticInfo", &format!("depth{}", depth), &v, &v);
            }
            11 => {
                let v = gen::data_value(&mut rng, 2);
                let e = norm_dv(&v);
                let shape = format!(
                    "v{}s{}t{}{}{}{}:{}",
                    v.value.is_some() as u8,
                    v.status.is_some() as u8,
                    v.source_timestamp.is_some() as u8,
                    v.source_picoseconds.is_some() as u8,
                    v.server_timestamp.is_some() as u8,
                    v.server_picoseconds.is_some() as u8,
                    v.value.as_ref().map(variant_shape).unwrap_or_default()
                );
                let case = json!({"mode": "direct", "type": "DataValue", "shape": shape, "value": short(&dbg(&v), 400),
                    "class": format!("direct:DataValue:{}", shape)});
                rep.begin_case(&case);
                rep.case(&format!("direct:DataValue:{}", shape));
                match round_trip(&v, None) {
                    Rt::Ok { .. } => {
                        let v2 = DataValue::decode(&mut Cursor::new(v.encode_to_vec()), &fresh_options()).unwrap();
                        if !dv_eq_mod_empty_dims(&v2, &e) {
                            rep.violation(
                                format!("roundtrip|value-changed|DataValue|{}", coarse_shape(&shape)),
                                format!("expected {} got {}", short(&dbg(&e), 300), short(&dbg(&v2), 300)),
                                case,
                            );
                        }
                    }
                    Rt::Bad { kind, detail } => {
                        rep.violation(format!("roundtrip|{}|DataValue|{}", kind, coarse_shape(&shape)), detail, case);
                    }
                }
            }
            _ => {
                let v = gen::variant(&mut rng, 3);
                let e = norm_variant(&v);
                let shape = variant_shape(&v);
                // empty arrays: any dimensions are acceptable on the way back
                let case = json!({"mode": "direct", "type": "Variant", "shape": shape, "value": short(&dbg(&v), 400),
                    "class": format!("direct:Variant:{}", shape)});
                rep.begin_case(&case);
                match round_trip(&v, None) {
                    Rt::Ok { len, .. } => {
                        // value check against the normalised expectation
                        let mut c = Cursor::new(v.encode_to_vec());
                        let v2 = Variant::decode(&mut c, &fresh_options()).unwrap();
                        rep.case(&format!("direct:Variant:{}:{}", shape, len.min(64) / 16));
                        if v2 != e && dbg(&v2) != dbg(&e) && !variant_eq_mod_empty_dims(&v2, &e) {
                            rep.violation(
                                format!("roundtrip|value-changed|Variant|{}", coarse_shape(&shape)),
                                format!("expected {} got {}", short(&dbg(&e), 300), short(&dbg(&v2), 300)),
                                case,
                            );
                        } else {
                            rep.sample(json!({"mode": "direct", "type": "Variant", "shape": shape, "encoded_len": len}));
                        }
                    }
                    Rt::Bad { kind, detail } => {
                        rep.case(&format!("direct:Variant:{}", shape));
                        rep.violation(format!("roundtrip|{}|Variant|{}", kind, coarse_shape(&shape)), detail, case);
                    }
                }
                if i % 28 == 12 {
                    embedded_check(rep, &mut rng, &v);
                }
            }
        }
    }

    // numeric scalars: exact
    for _ in 0..args.budget(2_000, 50_000) {
        macro_rules! num {
            ($name:expr, $v:expr) => {{
                let v = $v;
                direct_check(rep, $name, "num", &v, &v);
            }};
        }
        num!("Boolean", rng.bool());
        num!("SByte", gen::i8_i(&mut rng));
        num!("Byte", gen::u8_i(&mut rng));
        num!("Int16", gen::i16_i(&mut rng));
        num!("UInt16", gen::u16_i(&mut rng));
        num!("Int32", gen::i32_i(&mut rng));
        num!("UInt32", gen::u32_i(&mut rng));
        num!("Int64", gen::i64_i(&mut rng));
        num!("UInt64", gen::u64_i(&mut rng));
        num!("Float", gen::f32_interesting(&mut rng));
        num!("Double", gen::f64_interesting(&mut rng));
    }

    // (b) decode-driven values of every generated structure and of the built-in containers
    let types = driven_types();
    rep.count("generated_types_enumerated", types.len() as u64);
    let per_type = args.budget(800, 12_000);
    for (_name, f) in types.iter().chain(BUILTIN_DRIVEN.iter()) {
        for _ in 0..per_type {
            if let Some((sig, detail, case)) = f(&mut rng, rep) {
                rep.case(&sig);
                rep.violation(sig, detail, case);
            }
        }
    }

    // (c) every message the stack can decode by object id, through SupportedMessage
    let ids = supported_object_ids();
    rep.count("supported_message_types", ids.len() as u64);
    let per_msg = args.budget(1_600, 24_000);
    for (oid_num, oid) in ids {
        for _ in 0..per_msg {
            let opts = fresh_options();
            let mut rd = BiasedReader::new(rng.fork(2), 8192);
            let m1 = match catch(|| SupportedMessage::decode_by_object_id(&mut rd, oid, &opts)) {
                Ok(Ok(m)) => m,
                _ => {
                    rep.count("message_rejected", 1);
                    continue;
                }
            };
            let bytes = rd.produced.clone();
            let name = dbg(&m1).split('(').next().unwrap_or("?").to_string();
            let case = json!({"mode": "message", "object_id": oid_num, "type": name, "bytes": hex(&bytes), "class": format!("msg:{}", name)});
            rep.begin_case(&case);
            // encode through the SupportedMessage facade, decode by object id again
            let r = catch(|| {
                let predicted = m1.byte_len();
                let mut c = Cursor::new(Vec::new());
                let written = m1.encode(&mut c).map_err(|e| format!("encode error {:?}", e))?;
                let b1 = c.into_inner();
                if predicted != b1.len() || written != b1.len() {
                    return Err(format!("length-mismatch byte_len={} returned={} written={}", predicted, written, b1.len()));
                }
                let mut tail = b1.clone();
                tail.extend_from_slice(&[0xA5; 9]);
                let mut cur = Cursor::new(&tail[..]);
                let m2 = SupportedMessage::decode_by_object_id(&mut cur, oid, &opts)
                    .map_err(|e| format!("decode-of-own-encoding-failed {:?}", e))?;
                if cur.position() as usize != b1.len() {
                    return Err(format!("stream-desync encoded {} consumed {}", b1.len(), cur.position()));
                }
                let b2 = m2.encode_to_vec();
                let mut t2 = b2.clone();
                t2.extend_from_slice(&[0x5A; 9]);
                let mut cur = Cursor::new(&t2[..]);
                let m3 = SupportedMessage::decode_by_object_id(&mut cur, oid, &opts)
                    .map_err(|e| format!("decode-of-own-encoding-failed second {:?}", e))?;
                if cur.position() as usize != b2.len() {
                    return Err(format!("stream-desync-of-decoded-value encoded {} consumed {}", b2.len(), cur.position()));
                }
                if m3 != m2 && dbg(&m3) != dbg(&m2) {
                    return Err("decoded-value-not-stable".to_string());
                }
                Ok(b1.len())
            });
            match r {
                Ok(Ok(len)) => {
                    rep.case(&format!("msg:{}:{}", name, if len < 64 { 0 } else if len < 512 { 1 } else { 2 }));
                    rep.count("messages_round_tripped", 1);
                }
                Ok(Err(e)) => {
                    let kind = e.split(' ').next().unwrap_or("?").to_string();
                    rep.case(&format!("msg:{}", name));
                    rep.violation(format!("roundtrip|{}|{}", kind, name), e, case);
                }
                Err(p) => {
                    rep.case(&format!("msg:{}", name));
                    rep.violation(format!("{}|{}", p.signature(), name), format!("{} at {}:{}", p.msg, p.file, p.line), case);
                }
            }
        }
    }
}

/// Object ids for which decode_by_object_id knows a decoder (it answers Invalid for the others
/// without touching the stream)
fn supported_object_ids() -> Vec<(u32, ObjectId)> {
    let opts = fresh_options();
    let mut v = Vec::new();
    for n in 0u32..30000 {
        if let Ok(oid) = ObjectId::try_from(n) {
            let mut empty = Cursor::new(&[][..]);
            match catch(|| SupportedMessage::decode_by_object_id(&mut empty, oid, &opts)) {
                Ok(Ok(SupportedMessage::Invalid(_))) => {}
                _ => v.push((n, oid)),
            }
        }
    }
    v
}

// ---------------------------------------------------------------------------------------------
// C02

type DecodeFn = fn(&[u8], &DecodingOptions) -> Result<bool, PanicInfo>;

fn decode_as<T>(bytes: &[u8], opts: &DecodingOptions) -> Result<bool, PanicInfo>
where
    T: BinaryEncoder<T>,
{
    catch(|| {
        let mut c = Cursor::new(bytes);
        T::decode(&mut c, opts).is_ok()
    })
}

macro_rules! decode_table {
    ($($t:ident,)*) => { &[ $( (stringify!($t), decode_as::<$t> as DecodeFn), )* ] };
}

macro_rules! max_size_of {
    ($($t:ident,)*) => { { let mut m = std::mem::size_of::<Variant>().max(std::mem::size_of::<DataValue>()); $( m = m.max(std::mem::size_of::<$t>()); )* m } };
}

/// size_of the largest decodable structure: what one array slot can cost
fn largest_element_size() -> usize {
    for_each_service_type!(max_size_of)
}

fn decode_types() -> Vec<(&'static str, DecodeFn)> {
    let mut v: Vec<(&'static str, DecodeFn)> = vec![
        ("Boolean", decode_as::<bool> as DecodeFn),
        ("SByte", decode_as::<i8> as DecodeFn),
        ("Byte", decode_as::<u8> as DecodeFn),
        ("Int16", decode_as::<i16> as DecodeFn),
        ("UInt16", decode_as::<u16> as DecodeFn),
        ("Int32", decode_as::<i32> as DecodeFn),
        ("UInt32", decode_as::<u32> as DecodeFn),
        ("Int64", decode_as::<i64> as DecodeFn),
        ("UInt64", decode_as::<u64> as DecodeFn),
        ("Float", decode_as::<f32> as DecodeFn),
        ("Double", decode_as::<f64> as DecodeFn),
        ("String", decode_as::<UAString> as DecodeFn),
        ("DateTime", decode_as::<DateTime> as DecodeFn),
        ("Guid", decode_as::<Guid> as DecodeFn),
        ("ByteString", decode_as::<ByteString> as DecodeFn),
        ("NodeId", decode_as::<NodeId> as DecodeFn),
        ("ExpandedNodeId", decode_as::<ExpandedNodeId> as DecodeFn),
        ("StatusCode", decode_as::<StatusCode> as DecodeFn),
        ("QualifiedName", decode_as::<QualifiedName> as DecodeFn),
        ("LocalizedText", decode_as::<LocalizedText> as DecodeFn),
        ("ExtensionObject", decode_as::<ExtensionObject> as DecodeFn),
        ("DataValue", decode_as::<DataValue> as DecodeFn),
        ("Variant", decode_as::<Variant> as DecodeFn),
        ("DiagnosticInfo", decode_as::<DiagnosticInfo> as DecodeFn),
        ("RequestHeader", decode_as::<RequestHeader> as DecodeFn),
        ("ResponseHeader", decode_as::<ResponseHeader> as DecodeFn),
        ("Argument", decode_as::<Argument> as DecodeFn),
    ];
    let gen_types: &[(&'static str, DecodeFn)] = for_each_service_type!(decode_table);
    v.extend_from_slice(gen_types);
    v
}

fn decode_header_kinds(bytes: &[u8], opts: &DecodingOptions) -> Result<u32, PanicInfo> {
    use opcua::core::comms::message_chunk::{MessageChunk, MessageChunkHeader};
    use opcua::core::comms::tcp_types::{AcknowledgeMessage, ErrorMessage, HelloMessage, MessageHeader};
    catch(|| {
        let mut ok = 0u32;
        ok += MessageHeader::decode(&mut Cursor::new(bytes), opts).is_ok() as u32;
        ok += HelloMessage::decode(&mut Cursor::new(bytes), opts).is_ok() as u32;
        ok += AcknowledgeMessage::decode(&mut Cursor::new(bytes), opts).is_ok() as u32;
        ok += ErrorMessage::decode(&mut Cursor::new(bytes), opts).is_ok() as u32;
        ok += MessageChunkHeader::decode(&mut Cursor::new(bytes), opts).is_ok() as u32;
        if let Ok(chunk) = MessageChunk::decode(&mut Cursor::new(bytes), opts) {
            ok += 1;
            ok += chunk.message_header(opts).is_ok() as u32;
            ok += chunk.security_header(opts).is_ok() as u32;
        }
        ok
    })
}

fn decode_via_codec(bytes: &[u8], opts: &DecodingOptions) -> Result<u32, PanicInfo> {
    use bytes::BytesMut;
    use opcua::core::comms::tcp_codec::TcpCodec;
    use tokio_util::codec::Decoder;
    catch(|| {
        let mut codec = TcpCodec::new(opts.clone());
        let mut buf = BytesMut::from(bytes);
        let mut frames = 0;
        for _ in 0..64 {
            match codec.decode(&mut buf) {
                Ok(Some(_)) => frames += 1,
                _ => break,
            }
        }
        frames
    })
}

/// Mutations of a valid encoding
fn mutate(rng: &mut Rng, b: &mut Vec<u8>) {
    if b.is_empty() {
        b.extend_from_slice(&rng.bytes(4));
        return;
    }
    for _ in 0..1 + rng.usize(3) {
        let i = rng.usize(b.len());
        match rng.below(8) {
            0 => b[i] ^= 1 << rng.below(8),
            1 => b[i] = rng.next_u32() as u8,
            2 => b.truncate(i),
            3 => {
                let n = rng.usize(8);
                let extra = rng.bytes(n);
                b.extend_from_slice(&extra);
            }
            4 => {
                // splice a length field
                let v: i32 = *rng.pick(&[-1, -2, 0, 1, i32::MAX, i32::MIN, 65535, 65536, 1000, 1001, 0x7fff_fff0]);
                if i + 4 <= b.len() {
                    b[i..i + 4].copy_from_slice(&v.to_le_bytes());
                }
            }
            5 => {
                // repeat a prefix
                let p: Vec<u8> = b[..i.min(16)].to_vec();
                let reps = 1 + rng.usize(20);
                let mut n = Vec::new();
                for _ in 0..reps {
                    n.extend_from_slice(&p);
                }
                n.extend_from_slice(b);
                *b = n;
            }
            6 => b[i] = *rng.pick(&[0x00, 0xff, 0x80, 0x7f, 0x40, 0xC0, 0x16, 0x17, 0x18, 0x19]),
            _ => {
                let j = rng.usize(b.len());
                b.swap(i, j);
            }
        }
        if b.is_empty() {
            break;
        }
    }
}

/// Upper bound on what one decode of `len` input bytes may allocate under `opts`. The decoders
/// reserve `declared length x size_of(element)` for an array whose length passed the
/// max_array_length check, before reading the elements; structures nest a bounded number of
/// levels (no recursion through arrays of structures beyond the decoding depth), and everything
/// retained past a failed element is proportional to the bytes actually present.
fn alloc_bound(len: usize, opts: &DecodingOptions, elem: usize) -> usize {
    let levels = 8 + opts.decoding_depth_gauge.max_depth() as usize;
    let arrays = levels * opts.max_array_length.max(1) * elem;
    let strings = 2 * opts.max_string_length.max(opts.max_byte_string_length);
    (1 << 20) + arrays + strings + len * 1024
}

pub fn c02(args: &Args, rep: &mut Report) {
    let mut rng = Rng::new(args.seed ^ 0xC02 ^ ((args.shard as u64) << 32));
    let types = decode_types();
    let elem = largest_element_size();
    rep.count("largest_element_size_of", elem as u64);
    rep.count("decoders_exercised", types.len() as u64 + 9);
    let ids = supported_object_ids();
    let optsets: Vec<(&str, DecodingOptions)> = vec![
        ("default", DecodingOptions::default()),
        ("minimal", DecodingOptions::minimal()),
    ];

    // corpus of valid encodings to mutate
    let mut corpus: Vec<Vec<u8>> = Vec::new();
    let slow = cfg!(miri);
    for _ in 0..(if slow { 8 } else { 200 }) {
        corpus.push(gen::variant(&mut rng, 3).encode_to_vec());
        corpus.push(gen::data_value(&mut rng, 2).encode_to_vec());
        corpus.push(gen::diagnostic_info(&mut rng, 3).encode_to_vec());
        corpus.push(gen::extension_object(&mut rng, 2).encode_to_vec());
        corpus.push(gen::expanded_node_id(&mut rng).encode_to_vec());
    }
    for (k, (_, oid)) in ids.iter().enumerate() {
        if slow && (k as u64 + args.shard as u64) % 16 != 0 {
            continue;
        }
        for _ in 0..(if slow { 1 } else { 3 }) {
            let mut rd = BiasedReader::new(rng.fork(3), 4096);
            if let Ok(Ok(m)) = catch(|| SupportedMessage::decode_by_object_id(&mut rd, *oid, &optsets[0].1)) {
                corpus.push(m.encode_to_vec());
            }
        }
    }
    rep.count("valid_corpus_entries", corpus.len() as u64);

    let n = args.budget(150_000, 3_000_000);
    for i in 0..n {
        let (oname, opts) = &optsets[(i % 2) as usize];
        // fresh depth gauge per case: a leaked depth lock would otherwise poison later cases
        let opts = DecodingOptions {
            decoding_depth_gauge: Arc::new(DepthGauge::new(opts.decoding_depth_gauge.max_depth())),
            ..opts.clone()
        };
        let (kind, bytes) = match rng.below(10) {
            0 => {
                let n = rng.usize(64);
                ("random", rng.bytes(n))
            }
            1 => {
                let n = rng.usize(600);
                ("random-long", rng.bytes(n))
            }
            2..=3 => {
                let mut rd = BiasedReader::new(rng.fork(4), 2048);
                let mut b = vec![0u8; rng.usize(300)];
                // pull structured-looking bytes in mixed read sizes
                let mut off = 0;
                while off < b.len() {
                    let sz = *rng.pick(&[1usize, 1, 4, 4, 8, 2, 16]);
                    let end = (off + sz).min(b.len());
                    let _ = std::io::Read::read(&mut rd, &mut b[off..end]);
                    off = end;
                }
                ("biased", b)
            }
            _ => {
                let mut b = rng.pick(&corpus).clone();
                mutate(&mut rng, &mut b);
                ("mutated", b)
            }
        };
        let which = rng.below(12);
        let (target, outcome): (String, Result<bool, PanicInfo>) = if which < 8 {
            let (tn, f) = types[rng.usize(types.len())];
            let case = json!({"kind": kind, "as": tn, "opts": oname, "bytes": hex(&bytes), "class": format!("{}:{}", kind, tn)});
            rep.begin_case(&case);
            let start = alloc_count::window_start();
            let r = f(&bytes, &opts);
            let (peak, largest) = alloc_count::window_end(start);
            let bound = alloc_bound(bytes.len(), &opts, elem);
            if peak > bound {
                rep.violation(
                    format!("over-allocation|{}", tn),
                    format!("decoding {} input bytes as {} allocated {} bytes (largest request {}), bound {}", bytes.len(), tn, peak, largest, bound),
                    case.clone(),
                );
            }
            (tn.to_string(), r)
        } else if which < 10 {
            let (n, oid) = ids[rng.usize(ids.len())];
            let case = json!({"kind": kind, "as": format!("object_id:{}", n), "opts": oname, "bytes": hex(&bytes), "class": format!("{}:msg", kind)});
            rep.begin_case(&case);
            let start = alloc_count::window_start();
            let r = catch(|| SupportedMessage::decode_by_object_id(&mut Cursor::new(&bytes[..]), oid, &opts).is_ok());
            let (peak, largest) = alloc_count::window_end(start);
            let bound = alloc_bound(bytes.len(), &opts, elem);
            if peak > bound {
                rep.violation(
                    format!("over-allocation|message:{:?}", oid),
                    format!("decoding {} input bytes allocated {} bytes (largest {}), bound {}", bytes.len(), peak, largest, bound),
                    case.clone(),
                );
            }
            (format!("message:{:?}", oid), r)
        } else if which == 10 {
            let case = json!({"kind": kind, "as": "headers", "opts": oname, "bytes": hex(&bytes), "class": format!("{}:headers", kind)});
            rep.begin_case(&case);
            ("headers".to_string(), decode_header_kinds(&bytes, &opts).map(|n| n > 0))
        } else {
            let case = json!({"kind": kind, "as": "tcp-codec", "opts": oname, "bytes": hex(&bytes), "class": format!("{}:codec", kind)});
            rep.begin_case(&case);
            ("tcp-codec".to_string(), decode_via_codec(&bytes, &opts).map(|n| n > 0))
        };
        let accepted = matches!(outcome, Ok(true));
        rep.case(&format!("{}:{}:{}:{}", kind, target, oname, accepted as u8));
        if accepted {
            rep.count("inputs_accepted", 1);
        } else {
            rep.count("inputs_rejected", 1);
        }
        if i % 5000 == 0 {
            rep.sample(json!({"kind": kind, "as": target, "opts": oname, "len": bytes.len(), "accepted": accepted, "bytes": short(&hex(&bytes), 80)}));
        }
        if let Err(p) = outcome {
            let case = json!({"kind": kind, "as": target, "opts": oname, "bytes": hex(&bytes)});
            rep.violation(
                format!("{}|decode-as:{}", p.signature(), target.split(':').next().unwrap_or("")),
                format!("decoding as {} panicked: {} at {}:{}", target, p.msg, p.file, p.line),
                case,
            );
        }
        // the depth gauge must be back at zero: a leak would make later messages fail or pass wrongly
        let _ = opts;
    }

    // nesting bombs, each in its own process on a 2 MB stack (the tokio worker default)
    // (not under Miri, which cannot spawn processes, nor in other instrumented passes: the plain pass decides these)
    if instrumented().is_none() && (args.shard == 0 || args.thorough()) {
        bombs(args, rep);
    }
}

/// (name, head, repeated prefix, terminator, decoder name)
fn bomb_patterns() -> Vec<(&'static str, Vec<u8>, Vec<u8>, Vec<u8>, &'static str)> {
    vec![
        // DiagnosticInfo: mask 0x40 = has inner diagnostic info
        ("diag-inner", vec![], vec![0x40], vec![0x00], "DiagnosticInfo"),
        // Variant holding a Variant: type id 24
        ("variant-in-variant", vec![], vec![24], vec![1, 1], "Variant"),
        // Variant holding a DataValue (23) whose mask 0x01 says it has a value
        ("datavalue-in-variant", vec![], vec![23, 0x01], vec![1, 1], "Variant"),
        // DataValue with value = Variant(DataValue)
        ("variant-in-datavalue", vec![], vec![0x01, 23], vec![0x00], "DataValue"),
        // Variant holding a DiagnosticInfo (25) with a chain of inner infos
        ("diag-in-variant", vec![25], vec![0x40], vec![0x00], "Variant"),
        // Variant array of variants, 1 element each: mask 0x80|24, len 1
        ("variant-array-nest", vec![], vec![0x80 | 24, 1, 0, 0, 0], vec![1, 1], "Variant"),
        // ExtensionObject body is opaque bytes, so it cannot recurse by itself; a Variant holding an
        // ExtensionObject (22) with an empty body terminates at once: covered by the random inputs
    ]
}

fn bombs(args: &Args, rep: &mut Report) {
    let default_max = DecodingOptions::default().max_message_size;
    let depths: Vec<usize> = if args.thorough() {
        vec![1, 5, 9, 10, 11, 12, 50, 100, 1000, 5000, 20_000, 60_000, 100_000, 200_000, default_max - 16]
    } else {
        vec![9, 10, 11, 100, 5000, 60_000, default_max - 16]
    };
    let mut idx = 0usize;
    for (name, _head, prefix, term, dec) in bomb_patterns() {
        for &d in &depths {
            for optname in ["default", "minimal"] {
                idx += 1;
                if args.thorough() && idx % args.shards != args.shard {
                    continue;
                }
                let reps = (d.min(default_max - 16)) / prefix.len().max(1);
                let reps = if d <= 12 { d } else { reps.max(1) };
                let case = json!({"bomb": name, "nesting": reps, "decoder": dec, "opts": optname, "class": format!("bomb:{}:{}", name, if reps <= 12 { "shallow" } else { "deep" })});
                rep.begin_case(&case);
                let sub = vec![
                    "codec-bomb".to_string(),
                    name.to_string(),
                    reps.to_string(),
                    dec.to_string(),
                    optname.to_string(),
                ];
                let r = run_child(&sub, &[], 120_000, 4096);
                rep.case(&format!("bomb:{}:{}:{}", name, optname, if reps <= 9 { "within-depth" } else if reps <= 12 { "just-over" } else { "deep" }));
                rep.count("nesting_bombs_run", 1);
                let _ = (&prefix, &term);
                if r.timed_out {
                    rep.inconclusive(format!("bomb {} depth {} timed out", name, reps));
                    continue;
                }
                if let Some(sig) = r.signal {
                    let what = if r.stderr_tail.contains("overflowed its stack") { "stack-overflow" } else { "signal" };
                    rep.violation(
                        format!("crash|{}|bomb:{}|decoder:{}", what, name, dec),
                        format!("child died on signal {} decoding {} levels of {} as {} with {} options; stderr: {}", sig, reps, name, dec, optname, short(&r.stderr_tail, 200)),
                        case,
                    );
                    continue;
                }
                match r.exit_code {
                    Some(0) => {
                        // child prints: accepted=<bool> max_depth=<n>
                        let accepted = r.stdout.contains("accepted=true");
                        let limit: usize = if optname == "default" { 10 } else { 1 };
                        // levels of recursive structure presented to the decoder
                        let levels = reps;
                        if accepted && levels > limit + 1 {
                            rep.violation(
                                format!("depth-not-enforced|bomb:{}|decoder:{}", name, dec),
                                format!("{} nested levels of {} were accepted although the decoding depth limit is {}", levels, name, limit),
                                case,
                            );
                        } else {
                            rep.count(if accepted { "bombs_accepted_within_depth" } else { "bombs_rejected" }, 1);
                        }
                    }
                    Some(3) => {
                        rep.violation(
                            format!("panic|bomb:{}|decoder:{}", name, dec),
                            format!("decoder panicked on {} levels: {}", reps, short(&r.stdout, 300)),
                            case,
                        );
                    }
                    other => rep.inconclusive(format!("bomb child exit {:?}: {}", other, short(&r.stderr_tail, 200))),
                }
            }
        }
    }
}

fn child_bomb(rest: &[String]) -> i32 {
    let name = rest.first().cloned().unwrap_or_default();
    let reps: usize = rest.get(1).and_then(|s| s.parse().ok()).unwrap_or(1);
    let dec = rest.get(2).cloned().unwrap_or_default();
    let optname = rest.get(3).cloned().unwrap_or_default();
    let (head, prefix, term) = match bomb_patterns().into_iter().find(|p| p.0 == name) {
        Some(p) => (p.1, p.2, p.3),
        None => return 2,
    };
    let mut bytes = Vec::with_capacity(reps * prefix.len() + term.len() + head.len());
    bytes.extend_from_slice(&head);
    for _ in 0..reps {
        bytes.extend_from_slice(&prefix);
    }
    bytes.extend_from_slice(&term);
    let opts = if optname == "minimal" { DecodingOptions::minimal() } else { DecodingOptions::default() };
    // decode on a thread with the stack a tokio worker has
    let h = std::thread::Builder::new()
        .stack_size(2 * 1024 * 1024)
        .spawn(move || {
            let r = catch(|| match dec.as_str() {
                "DiagnosticInfo" => DiagnosticInfo::decode(&mut Cursor::new(&bytes[..]), &opts).is_ok(),
                "DataValue" => DataValue::decode(&mut Cursor::new(&bytes[..]), &opts).is_ok(),
                _ => Variant::decode(&mut Cursor::new(&bytes[..]), &opts).is_ok(),
            });
            match r {
                Ok(a) => {
                    println!("accepted={}", a);
                    0
                }
                Err(p) => {
                    println!("panic {} at {}:{}", p.msg, p.file, p.line);
                    3
                }
            }
        })
        .unwrap();
    h.join().unwrap_or(4)
}

// ---------------------------------------------------------------------------------------------
// C03

#[derive(Clone, Copy, Debug, PartialEq)]
enum Kind {
    Str,
    Bytes,
    ArrI32,
    VariantArr,
    VariantArrMulti,
    ArrStruct,
}

#[derive(Clone, Copy, Debug, PartialEq)]
enum Nest {
    Top,
    InVariant,
    InDataValue,
    InArrayElement,
    InStructField,
    InExtensionObjectBody,
}

/// Encodes an item of `kind` declaring length `l` with a full body of max(l,0) elements
fn item_bytes(kind: Kind, l: i64) -> Vec<u8> {
    let n = l.max(0) as usize;
    let mut b = Vec::with_capacity(n * 4 + 16);
    let li = l as i32;
    match kind {
        Kind::Str => {
            b.extend_from_slice(&li.to_le_bytes());
            b.extend(std::iter::repeat(b'x').take(n));
        }
        Kind::Bytes => {
            b.extend_from_slice(&li.to_le_bytes());
            b.extend(std::iter::repeat(0x42u8).take(n));
        }
        Kind::ArrI32 => {
            b.extend_from_slice(&li.to_le_bytes());
            for i in 0..n {
                b.extend_from_slice(&(i as i32).to_le_bytes());
            }
        }
        Kind::ArrStruct => {
            // array of ReadValueId-like small structs is awkward to hand-encode; use NodeId (2 bytes each: 0x00, id)
            b.extend_from_slice(&li.to_le_bytes());
            for i in 0..n {
                b.push(0x00);
                b.push(i as u8);
            }
        }
        Kind::VariantArr => {
            b.push(0x80 | 6); // array of Int32
            b.extend_from_slice(&li.to_le_bytes());
            for i in 0..n {
                b.extend_from_slice(&(i as i32).to_le_bytes());
            }
        }
        Kind::VariantArrMulti => {
            b.push(0xC0 | 6);
            b.extend_from_slice(&li.to_le_bytes());
            for i in 0..n {
                b.extend_from_slice(&(i as i32).to_le_bytes());
            }
            // one dimension equal to the length
            b.extend_from_slice(&1i32.to_le_bytes());
            b.extend_from_slice(&(n as i32).to_le_bytes());
        }
    }
    b
}

/// Decodes the item at the given nesting position; Ok(true) = accepted
fn decode_item(kind: Kind, nest: Nest, body: &[u8], opts: &DecodingOptions) -> Result<Result<(), StatusCode>, PanicInfo> {
    // wrap the item bytes so that the real decoder of the enclosing type meets them at that position
    let mut w: Vec<u8> = Vec::with_capacity(body.len() + 32);
    let top = |kind: Kind, bytes: &[u8], opts: &DecodingOptions| -> Result<(), StatusCode> {
        let mut c = Cursor::new(bytes);
        match kind {
            Kind::Str => UAString::decode(&mut c, opts).map(|_| ()),
            Kind::Bytes => ByteString::decode(&mut c, opts).map(|_| ()),
            Kind::ArrI32 => read_array::<_, i32>(&mut c, opts).map(|_| ()),
            Kind::ArrStruct => read_array::<_, NodeId>(&mut c, opts).map(|_| ()),
            Kind::VariantArr | Kind::VariantArrMulti => Variant::decode(&mut c, opts).map(|_| ()),
        }
    };
    let variant_type_byte = |kind: Kind| -> Option<u8> {
        match kind {
            Kind::Str => Some(12),
            Kind::Bytes => Some(15),
            _ => None,
        }
    };
    catch(|| match nest {
        Nest::Top => top(kind, body, opts),
        Nest::InVariant => match kind {
            Kind::Str | Kind::Bytes => {
                w.push(variant_type_byte(kind).unwrap());
                w.extend_from_slice(body);
                Variant::decode(&mut Cursor::new(&w[..]), opts).map(|_| ())
            }
            Kind::VariantArr | Kind::VariantArrMulti => {
                // variant array inside a DataValue inside a Variant
                w.push(23);
                w.push(0x01);
                w.extend_from_slice(body);
                Variant::decode(&mut Cursor::new(&w[..]), opts).map(|_| ())
            }
            _ => top(kind, body, opts),
        },
        Nest::InDataValue => match kind {
            Kind::Str | Kind::Bytes => {
                w.push(0x01);
                w.push(variant_type_byte(kind).unwrap());
                w.extend_from_slice(body);
                DataValue::decode(&mut Cursor::new(&w[..]), opts).map(|_| ())
            }
            Kind::VariantArr | Kind::VariantArrMulti => {
                w.push(0x01);
                w.extend_from_slice(body);
                DataValue::decode(&mut Cursor::new(&w[..]), opts).map(|_| ())
            }
            _ => top(kind, body, opts),
        },
        Nest::InArrayElement => match kind {
            Kind::Str | Kind::Bytes => {
                // variant array with one element of this kind
                w.push(0x80 | variant_type_byte(kind).unwrap());
                w.extend_from_slice(&1i32.to_le_bytes());
                w.extend_from_slice(body);
                Variant::decode(&mut Cursor::new(&w[..]), opts).map(|_| ())
            }
            _ => top(kind, body, opts),
        },
        Nest::InStructField => match kind {
            Kind::Str => {
                // QualifiedName { u16 ns, String name }
                w.extend_from_slice(&7u16.to_le_bytes());
                w.extend_from_slice(body);
                QualifiedName::decode(&mut Cursor::new(&w[..]), opts).map(|_| ())
            }
            Kind::Bytes => {
                // SignatureData { String algorithm, ByteString signature }
                w.extend_from_slice(&(-1i32).to_le_bytes());
                w.extend_from_slice(body);
                SignatureData::decode(&mut Cursor::new(&w[..]), opts).map(|_| ())
            }
            Kind::ArrStruct => {
                // UnregisterNodesRequest { RequestHeader, NodeId[] }
                let rh = RequestHeader::dummy();
                w.extend_from_slice(&rh.encode_to_vec());
                w.extend_from_slice(body);
                UnregisterNodesRequest::decode(&mut Cursor::new(&w[..]), opts).map(|_| ())
            }
            Kind::ArrI32 => {
                // DeleteSubscriptionsRequest { RequestHeader, UInt32[] }
                let rh = RequestHeader::dummy();
                w.extend_from_slice(&rh.encode_to_vec());
                w.extend_from_slice(body);
                DeleteSubscriptionsRequest::decode(&mut Cursor::new(&w[..]), opts).map(|_| ())
            }
            Kind::VariantArr | Kind::VariantArrMulti => {
                // WriteValue { NodeId, u32 attr, String range, DataValue }
                w.extend_from_slice(&[0x00, 0x01]);
                w.extend_from_slice(&13u32.to_le_bytes());
                w.extend_from_slice(&(-1i32).to_le_bytes());
                w.push(0x01);
                w.extend_from_slice(body);
                WriteValue::decode(&mut Cursor::new(&w[..]), opts).map(|_| ())
            }
        },
        Nest::InExtensionObjectBody => match kind {
            Kind::Bytes => {
                // ExtensionObject: NodeId (two byte), encoding 1, ByteString body
                w.extend_from_slice(&[0x00, 0x00, 0x01]);
                w.extend_from_slice(body);
                ExtensionObject::decode(&mut Cursor::new(&w[..]), opts).map(|_| ())
            }
            Kind::Str => {
                // XML body
                w.extend_from_slice(&[0x00, 0x00, 0x02]);
                w.extend_from_slice(body);
                ExtensionObject::decode(&mut Cursor::new(&w[..]), opts).map(|_| ())
            }
            _ => top(kind, body, opts),
        },
    })
}

pub fn c03(args: &Args, rep: &mut Report) {
    let kinds = [Kind::Str, Kind::Bytes, Kind::ArrI32, Kind::ArrStruct, Kind::VariantArr, Kind::VariantArrMulti];
    let nests = [
        Nest::Top,
        Nest::InVariant,
        Nest::InDataValue,
        Nest::InArrayElement,
        Nest::InStructField,
        Nest::InExtensionObjectBody,
    ];
    let def = DecodingOptions::default();
    let mut limits: Vec<usize> = vec![0, 1, 7, 100, 8192];
    let mut idx = 0usize;
    for &kind in &kinds {
        let deflimit = match kind {
            Kind::Str => def.max_string_length,
            Kind::Bytes => def.max_byte_string_length,
            _ => def.max_array_length,
        };
        limits.push(deflimit);
        limits.sort();
        limits.dedup();
        for &limit in &limits {
            let opts = match kind {
                Kind::Str => options_with(limit, 1 << 20, 1 << 20, 10),
                Kind::Bytes => options_with(1 << 20, limit, 1 << 20, 10),
                _ => options_with(1 << 20, 1 << 20, limit, 10),
            };
            let mut lens: Vec<i64> = vec![-2, -1, 0, 1, limit as i64 - 1, limit as i64, limit as i64 + 1, limit as i64 + 2, i32::MAX as i64, i32::MIN as i64];
            lens.retain(|l| *l >= i32::MIN as i64);
            lens.sort();
            lens.dedup();
            for &l in &lens {
                for &nest in &nests {
                    idx += 1;
                    if idx % args.shards != args.shard {
                        continue;
                    }
                    // body supplied in full unless that would be absurd (then the decoder must
                    // reject on the declared length alone, before reading a body)
                    let body_len = if l > (1 << 21) { 0 } else { l };
                    let mut body = item_bytes(kind, body_len);
                    if l != body_len {
                        // patch declared length
                        let off = match kind {
                            Kind::VariantArr | Kind::VariantArrMulti => 1,
                            _ => 0,
                        };
                        body[off..off + 4].copy_from_slice(&(l as i32).to_le_bytes());
                    }
                    let case = json!({"kind": format!("{:?}", kind), "nest": format!("{:?}", nest), "limit": limit, "declared_len": l,
                        "class": format!("{:?}:{:?}", kind, nest)});
                    rep.begin_case(&case);
                    let start = alloc_count::window_start();
                    let r = decode_item(kind, nest, &body, &opts);
                    let (peak, _) = alloc_count::window_end(start);
                    let rel = if l < -1 { "neg" } else if l == -1 { "null" } else if (l as usize) < limit { "below" } else if l as usize == limit { "at" } else { "above" };
                    rep.case(&format!("{:?}:{:?}:limit{}:{}", kind, nest, limit, rel));
                    rep.sample(case.clone());
                    // expectation from the property: within the maximum => accepted, above => rejected.
                    // -1 is the null encoding (accepted); other negatives are malformed (rejected).
                    let expect_accept = if l == -1 {
                        true
                    } else if l < -1 {
                        // variant arrays treat any non-positive length as the null/empty array; strings reject
                        match kind {
                            Kind::VariantArr | Kind::VariantArrMulti | Kind::ArrI32 | Kind::ArrStruct => false,
                            _ => false,
                        }
                    } else {
                        (l as usize) <= limit
                    };
                    match r {
                        Err(p) => rep.violation(
                            format!("{}|limit:{:?}:{:?}", p.signature(), kind, nest),
                            format!("panic: {} at {}:{}", p.msg, p.file, p.line),
                            case,
                        ),
                        Ok(res) => {
                            let accepted = res.is_ok();
                            if l > (1 << 21) && peak > (8 << 20) {
                                rep.violation(
                                    format!("limit|allocated-before-check|{:?}:{:?}", kind, nest),
                                    format!("declared length {} made the decoder allocate {} bytes", l, peak),
                                    case.clone(),
                                );
                            }
                            if accepted != expect_accept {
                                // multi-dimensional empty array: dimensions [0] are rejected by design of the
                                // encoding (a zero dimension), not by the limit; exclude l == 0 there
                                if kind == Kind::VariantArrMulti && l <= 0 {
                                    continue;
                                }
                                if l < -1 {
                                    // malformed negative lengths: the property only speaks of exceeding /
                                    // within the maximum; record but do not judge
                                    rep.count(if accepted { "negative_length_accepted" } else { "negative_length_rejected" }, 1);
                                    continue;
                                }
                                rep.violation(
                                    format!("limit|{}|{:?}:{:?}", if accepted { "over-limit-accepted" } else { "within-limit-rejected" }, kind, nest),
                                    format!("declared length {} with limit {}: {:?}", l, limit, res.err()),
                                    case,
                                );
                            } else {
                                rep.count(if accepted { "accepted_within_limit" } else { "rejected_over_limit" }, 1);
                            }
                        }
                    }
                }
            }
        }
        limits.retain(|l| *l != deflimit || [0, 1, 7, 100, 8192].contains(l));
    }

    // chunk size: declared message_size around max_message_size, with a counting reader
    chunk_limits(args, rep);
}

struct CountingReader<'a> {
    inner: Cursor<&'a [u8]>,
    pulled: usize,
}

impl<'a> std::io::Read for CountingReader<'a> {
    fn read(&mut self, buf: &mut [u8]) -> std::io::Result<usize> {
        let n = self.inner.read(buf)?;
        self.pulled += n;
        Ok(n)
    }
}

fn chunk_limits(args: &Args, rep: &mut Report) {
    use bytes::BytesMut;
    use opcua::core::comms::message_chunk::{MessageChunk, MESSAGE_CHUNK_HEADER_SIZE};
    use opcua::core::comms::tcp_codec::TcpCodec;
    use tokio_util::codec::Decoder;
    if args.shard != 0 {
        return;
    }
    for &max in &[0usize, 64, 100, 8192, 65535, 327675] {
        for delta in [-2i64, -1, 0, 1, 2, 1000, i32::MAX as i64] {
            let declared: u64 = if delta == i32::MAX as i64 { u32::MAX as u64 } else { (max as i64 + delta).max(12) as u64 };
            if max == 0 && delta != 1 && delta != i32::MAX as i64 {
                continue;
            }
            let opts = DecodingOptions {
                max_message_size: max,
                ..DecodingOptions::default()
            };
            // a MSG F chunk with that declared size; body present in full when small enough
            let body_len = if declared > (1 << 20) { 64 } else { declared as usize - 12 };
            let mut b = Vec::with_capacity(12 + body_len);
            b.extend_from_slice(b"MSGF");
            b.extend_from_slice(&(declared as u32).to_le_bytes());
            b.extend_from_slice(&1u32.to_le_bytes());
            b.extend(std::iter::repeat(0u8).take(body_len));
            let case = json!({"chunk": true, "max_message_size": max, "declared": declared, "class": "chunk-size"});
            rep.begin_case(&case);
            let mut rd = CountingReader { inner: Cursor::new(&b[..]), pulled: 0 };
            let r = catch(|| MessageChunk::decode(&mut rd, &opts).map(|_| ()));
            let pulled = rd.pulled;
            let rel = if max == 0 { "unlimited" } else if declared as usize <= max { "within" } else { "above" };
            rep.case(&format!("chunk:max{}:{}", max, rel));
            let expect_accept = max == 0 && declared < (1 << 20) || (max > 0 && declared as usize <= max);
            match r {
                Err(p) => rep.violation(format!("{}|chunk-size", p.signature()), format!("{} at {}:{}", p.msg, p.file, p.line), case.clone()),
                Ok(res) => {
                    if res.is_ok() && max > 0 && declared as usize > max {
                        rep.violation("limit|over-limit-accepted|chunk", format!("declared {} > max {}", declared, max), case.clone());
                    } else if res.is_err() && expect_accept {
                        rep.violation("limit|within-limit-rejected|chunk", format!("declared {} <= max {}: {:?}", declared, max, res.err()), case.clone());
                    } else if res.is_err() && max > 0 && declared as usize > max && pulled > MESSAGE_CHUNK_HEADER_SIZE {
                        rep.violation(
                            "limit|body-read-before-rejection|chunk",
                            format!("declared {} > max {} but {} bytes were pulled from the stream before rejecting", declared, max, pulled),
                            case.clone(),
                        );
                    } else {
                        rep.count("chunk_size_cases_ok", 1);
                    }
                }
            }
            // same frame through the framing codec
            let mut codec = TcpCodec::new(opts.clone());
            let mut buf = BytesMut::from(&b[..]);
            let r = catch(|| codec.decode(&mut buf));
            rep.case(&format!("codec:max{}:{}", max, rel));
            match r {
                Err(p) => rep.violation(format!("{}|codec-size", p.signature()), format!("{} at {}:{}", p.msg, p.file, p.line), case),
                Ok(Ok(Some(_))) if max > 0 && declared as usize > max => {
                    rep.violation("limit|over-limit-accepted|codec", format!("declared {} > max {}", declared, max), case)
                }
                Ok(Ok(None)) if max > 0 && declared as usize > max => rep.violation(
                    "limit|over-limit-awaited|codec",
                    format!("codec keeps waiting for a frame of declared size {} > max {}", declared, max),
                    case,
                ),
                Ok(Err(_)) if expect_accept => rep.violation("limit|within-limit-rejected|codec", format!("declared {} max {}", declared, max), case),
                _ => rep.count("codec_size_cases_ok", 1),
            }
        }
    }
}
