//! Shared infrastructure for all workloads: PRNG, reporting, panic capture, sub-process cases.
#![allow(dead_code)]

use serde_json::{json, Value};
use std::collections::{BTreeMap, HashSet};
use std::io::Write;
use std::panic::{self, AssertUnwindSafe};
use std::sync::Mutex;

/// splitmix64 / xorshift based PRNG. Deterministic per (seed, shard, stream).
#[derive(Clone)]
pub struct Rng(pub u64);

impl Rng {
    pub fn new(seed: u64) -> Rng {
        let mut r = Rng(seed ^ 0x9E37_79B9_7F4A_7C15);
        r.next_u64();
        r
    }
    pub fn fork(&mut self, stream: u64) -> Rng {
        Rng::new(self.next_u64() ^ stream.wrapping_mul(0xD6E8_FEB8_6659_FD93))
    }
    pub fn next_u64(&mut self) -> u64 {
        self.0 = self.0.wrapping_add(0x9E37_79B9_7F4A_7C15);
        let mut z = self.0;
        z = (z ^ (z >> 30)).wrapping_mul(0xBF58_476D_1CE4_E5B9);
        z = (z ^ (z >> 27)).wrapping_mul(0x94D0_49BB_1331_11EB);
        z ^ (z >> 31)
    }
    pub fn next_u32(&mut self) -> u32 {
        (self.next_u64() >> 32) as u32
    }
    /// uniform in 0..n (n > 0)
    pub fn below(&mut self, n: u64) -> u64 {
        if n == 0 {
            0
        } else {
            self.next_u64() % n
        }
    }
    pub fn usize(&mut self, n: usize) -> usize {
        self.below(n as u64) as usize
    }
    /// inclusive range
    pub fn range(&mut self, lo: i64, hi: i64) -> i64 {
        if hi <= lo {
            return lo;
        }
        let span = (hi as i128 - lo as i128 + 1) as u128;
        (lo as i128 + (self.next_u64() as u128 % span) as i128) as i64
    }
    pub fn bool(&mut self) -> bool {
        self.next_u64() & 1 == 1
    }
    /// true with probability num/den
    pub fn chance(&mut self, num: u64, den: u64) -> bool {
        self.below(den) < num
    }
    pub fn pick<'a, T>(&mut self, v: &'a [T]) -> &'a T {
        &v[self.usize(v.len())]
    }
    pub fn bytes(&mut self, n: usize) -> Vec<u8> {
        let mut v = Vec::with_capacity(n);
        while v.len() < n {
            let x = self.next_u64().to_le_bytes();
            let take = (n - v.len()).min(8);
            v.extend_from_slice(&x[..take]);
        }
        v
    }
    pub fn f64_unit(&mut self) -> f64 {
        (self.next_u64() >> 11) as f64 / (1u64 << 53) as f64
    }
    pub fn shuffle<T>(&mut self, v: &mut [T]) {
        for i in (1..v.len()).rev() {
            let j = self.usize(i + 1);
            v.swap(i, j);
        }
    }
}

pub fn fnv64(data: &[u8]) -> u64 {
    let mut h: u64 = 0xcbf29ce484222325;
    for b in data {
        h ^= *b as u64;
        h = h.wrapping_mul(0x100000001b3);
    }
    h
}

pub fn hex(b: &[u8]) -> String {
    let mut s = String::with_capacity(b.len() * 2);
    for x in b {
        s.push_str(&format!("{:02x}", x));
    }
    s
}

pub fn unhex(s: &str) -> Vec<u8> {
    let s = s.as_bytes();
    let mut v = Vec::with_capacity(s.len() / 2);
    let d = |c: u8| -> u8 {
        match c {
            b'0'..=b'9' => c - b'0',
            b'a'..=b'f' => c - b'a' + 10,
            b'A'..=b'F' => c - b'A' + 10,
            _ => 0,
        }
    };
    let mut i = 0;
    while i + 1 < s.len() {
        v.push(d(s[i]) << 4 | d(s[i + 1]));
        i += 2;
    }
    v
}

/// Replace every run of digits by '#', so messages carrying lengths and indices compare equal
pub fn normalize_msg(s: &str) -> String {
    let mut out = String::new();
    let mut in_digits = false;
    for c in s.chars() {
        if c.is_ascii_digit() {
            if !in_digits {
                out.push('#');
                in_digits = true;
            }
        } else {
            in_digits = false;
            out.push(if c == '\n' { ' ' } else { c });
        }
        if out.len() >= 100 {
            break;
        }
    }
    out
}

#[derive(Clone, Debug)]
pub struct PanicInfo {
    pub file: String,
    pub line: u32,
    pub msg: String,
}

impl PanicInfo {
    /// file without line plus normalised message: stable across unrelated edits to the file
    pub fn signature(&self) -> String {
        let mut file = self
            .file
            .strip_prefix("/repo/")
            .unwrap_or(&self.file)
            .to_string();
        if file.starts_with("/rustc/") {
            // drop the toolchain hash
            file = format!("rustc:{}", file.splitn(4, '/').nth(3).unwrap_or(""));
        }
        if let Some(idx) = file.find("/registry/src/") {
            file = format!("dep:{}", file[idx + 14..].splitn(2, '/').nth(1).unwrap_or(""));
        }
        format!("panic|{}|{}", file, normalize_msg(&self.msg))
    }
}

static LAST_PANIC: Mutex<Option<PanicInfo>> = Mutex::new(None);

thread_local! {
    static CAPTURE: std::cell::Cell<bool> = std::cell::Cell::new(false);
    static TL_PANIC: std::cell::RefCell<Option<PanicInfo>> = std::cell::RefCell::new(None);
}

pub fn install_panic_hook() {
    let default = panic::take_hook();
    panic::set_hook(Box::new(move |info| {
        let loc = info.location();
        let msg = if let Some(s) = info.payload().downcast_ref::<&str>() {
            s.to_string()
        } else if let Some(s) = info.payload().downcast_ref::<String>() {
            s.clone()
        } else {
            "<non-string panic>".to_string()
        };
        let pi = PanicInfo {
            file: loc.map(|l| l.file().to_string()).unwrap_or_default(),
            line: loc.map(|l| l.line()).unwrap_or(0),
            msg,
        };
        let capturing = CAPTURE.with(|c| c.get());
        if capturing {
            TL_PANIC.with(|p| *p.borrow_mut() = Some(pi));
        } else {
            *LAST_PANIC.lock().unwrap() = Some(pi);
            default(info);
        }
    }));
}

/// Runs f, turning a panic on this thread into Err(PanicInfo)
pub fn catch<T>(f: impl FnOnce() -> T) -> Result<T, PanicInfo> {
    let prev = CAPTURE.with(|c| c.replace(true));
    TL_PANIC.with(|p| *p.borrow_mut() = None);
    let r = panic::catch_unwind(AssertUnwindSafe(f));
    CAPTURE.with(|c| c.set(prev));
    match r {
        Ok(v) => Ok(v),
        Err(_) => Err(TL_PANIC.with(|p| p.borrow_mut().take()).unwrap_or(PanicInfo {
            file: "?".into(),
            line: 0,
            msg: "panic without info".into(),
        })),
    }
}

/// The last panic that happened on any thread outside `catch` (e.g. a spawned task)
pub fn take_uncaught_panic() -> Option<PanicInfo> {
    LAST_PANIC.lock().unwrap().take()
}

#[derive(Clone, Debug)]
pub struct Violation {
    pub signature: String,
    pub detail: String,
    pub replay: Value,
}

pub struct Args {
    pub prop: String,
    pub tier: String,
    pub seed: u64,
    pub shard: usize,
    pub shards: usize,
    pub out: String,
    pub replay: Option<String>,
    pub extra: Vec<String>,
}

impl Args {
    pub fn thorough(&self) -> bool {
        self.tier == "thorough"
    }
    /// pick budget by tier
    pub fn budget(&self, quick: u64, thorough: u64) -> u64 {
        let total = if self.thorough() { thorough } else { quick };
        // instrumented passes (Miri, ASan, valgrind) run the same workload on a fraction of the budget
        let total = match budget_scale() {
            Some(f) => ((total as f64) * f).ceil() as u64,
            None => total,
        };
        // spread across shards, at least 1
        ((total + self.shards as u64 - 1) / self.shards as u64).max(1)
    }
}

/// VERIF_BUDGET_SCALE=<fraction>: set by the driver for passes under slow instrumentation
pub fn budget_scale() -> Option<f64> {
    std::env::var("VERIF_BUDGET_SCALE").ok().and_then(|s| s.parse::<f64>().ok()).filter(|f| *f > 0.0 && *f <= 1.0)
}

/// Name of the instrumentation this process runs under, if the driver said so (miri, asan, valgrind)
pub fn instrumented() -> Option<String> {
    if cfg!(miri) {
        return Some("miri".into());
    }
    std::env::var("VERIF_INSTRUMENT").ok().filter(|s| !s.is_empty())
}

/// What a workload accumulates and finally writes as its shard report
pub struct Report {
    pub prop: String,
    pub evaluations: u64,
    pub distinct: HashSet<u64>,
    pub samples: Vec<Value>,
    pub violations: Vec<Violation>,
    pub counters: BTreeMap<String, u64>,
    pub notes: Vec<String>,
    pub inconclusive: Vec<String>,
    pub max_samples: usize,
    pub max_violations: usize,
    pub sample_stride: u64,
    pub sample_seen: u64,
    progress: Option<std::fs::File>,
}

impl Report {
    pub fn new(args: &Args) -> Report {
        let progress = std::fs::File::create(format!("{}.progress", args.out)).ok();
        Report {
            prop: args.prop.clone(),
            evaluations: 0,
            distinct: HashSet::new(),
            samples: Vec::new(),
            violations: Vec::new(),
            counters: BTreeMap::new(),
            notes: Vec::new(),
            inconclusive: Vec::new(),
            max_samples: 6,
            max_violations: 40,
            sample_stride: 1,
            sample_seen: 0,
            progress,
        }
    }

    /// Record that a case is about to run, so that a crash can be attributed to it
    pub fn begin_case(&mut self, case: &Value) {
        if let Some(f) = self.progress.as_mut() {
            use std::io::Seek;
            let _ = f.seek(std::io::SeekFrom::Start(0));
            let _ = f.set_len(0);
            let _ = f.write_all(case.to_string().as_bytes());
            let _ = f.flush();
        }
    }

    /// Count one evaluated case. `class` identifies the distinct non-trivial class of the case.
    pub fn case(&mut self, class: &str) {
        self.evaluations += 1;
        self.distinct.insert(fnv64(class.as_bytes()));
    }

    pub fn case_trivial(&mut self) {
        self.evaluations += 1;
    }

    pub fn count(&mut self, key: &str, n: u64) {
        *self.counters.entry(key.to_string()).or_insert(0) += n;
    }

    /// Keeps a spread of samples: the 1st, 2nd, 4th, 8th ... offered case
    pub fn sample(&mut self, v: Value) {
        self.sample_seen += 1;
        if self.samples.len() < self.max_samples && self.sample_seen >= self.sample_stride {
            self.sample_stride = self.sample_stride.saturating_mul(4);
            self.samples.push(v);
        }
    }

    pub fn violation(&mut self, signature: impl Into<String>, detail: impl Into<String>, replay: Value) {
        let signature = signature.into();
        self.count("violations_total", 1);
        // keep at most 3 witnesses per signature
        let same = self.violations.iter().filter(|v| v.signature == signature).count();
        if same >= 3 || self.violations.len() >= self.max_violations {
            return;
        }
        self.violations.push(Violation {
            signature,
            detail: detail.into(),
            replay,
        });
    }

    pub fn note(&mut self, s: impl Into<String>) {
        self.notes.push(s.into());
    }

    pub fn inconclusive(&mut self, s: impl Into<String>) {
        self.inconclusive.push(s.into());
    }

    pub fn write(&self, args: &Args) {
        let mut distinct: Vec<u64> = self.distinct.iter().cloned().collect();
        distinct.sort();
        distinct.truncate(300_000);
        let v = json!({
            "prop": self.prop,
            "shard": args.shard,
            "seed": args.seed,
            "evaluations": self.evaluations,
            "distinct": distinct.iter().map(|d| format!("{:x}", d)).collect::<Vec<_>>(),
            "distinct_count": self.distinct.len(),
            "samples": self.samples,
            "violations": self.violations.iter().map(|v| json!({
                "signature": v.signature, "detail": v.detail, "replay": v.replay})).collect::<Vec<_>>(),
            "counters": self.counters,
            "notes": self.notes,
            "inconclusive": self.inconclusive,
            "complete": true,
        });
        let tmp = format!("{}.tmp", args.out);
        std::fs::write(&tmp, serde_json::to_vec(&v).unwrap()).unwrap();
        std::fs::rename(&tmp, &args.out).unwrap();
    }
}

/// Result of running an isolated case in a child process of this same binary
pub struct ChildResult {
    pub exit_code: Option<i32>,
    pub signal: Option<i32>,
    pub timed_out: bool,
    pub stdout: String,
    pub stderr_tail: String,
}

/// Re-executes this binary with `sub` arguments; used for cases that may overflow the stack or
/// exhaust memory, which catch_unwind cannot contain.
pub fn run_child(sub: &[String], stdin_data: &[u8], timeout_ms: u64, mem_limit_mb: u64) -> ChildResult {
    use std::os::unix::process::{CommandExt, ExitStatusExt};
    use std::process::{Command, Stdio};
    let exe = std::env::current_exe().unwrap();
    let mut cmd = Command::new(exe);
    cmd.arg("--child").args(sub);
    cmd.stdin(Stdio::piped()).stdout(Stdio::piped()).stderr(Stdio::piped());
    if mem_limit_mb > 0 {
        let lim = mem_limit_mb * 1024 * 1024;
        unsafe {
            cmd.pre_exec(move || {
                let rl = libc::rlimit { rlim_cur: lim, rlim_max: lim };
                libc::setrlimit(libc::RLIMIT_AS, &rl);
                // no core dumps
                let z = libc::rlimit { rlim_cur: 0, rlim_max: 0 };
                libc::setrlimit(libc::RLIMIT_CORE, &z);
                Ok(())
            });
        }
    }
    let mut child = cmd.spawn().expect("spawn child");
    {
        let mut si = child.stdin.take().unwrap();
        let _ = si.write_all(stdin_data);
    }
    let start = std::time::Instant::now();
    let mut timed_out = false;
    // read stdout/stderr on threads to avoid pipe deadlock
    let mut so = child.stdout.take().unwrap();
    let mut se = child.stderr.take().unwrap();
    let t1 = std::thread::spawn(move || {
        let mut s = Vec::new();
        let _ = std::io::Read::read_to_end(&mut so, &mut s);
        s
    });
    let t2 = std::thread::spawn(move || {
        let mut s = Vec::new();
        let _ = std::io::Read::read_to_end(&mut se, &mut s);
        s
    });
    let status = loop {
        match child.try_wait() {
            Ok(Some(st)) => break st,
            Ok(None) => {
                if start.elapsed().as_millis() as u64 > timeout_ms {
                    timed_out = true;
                    let _ = child.kill();
                    break child.wait().unwrap();
                }
                std::thread::sleep(std::time::Duration::from_millis(2));
            }
            Err(_) => break child.wait().unwrap(),
        }
    };
    let stdout = String::from_utf8_lossy(&t1.join().unwrap_or_default()).to_string();
    let stderr = String::from_utf8_lossy(&t2.join().unwrap_or_default()).to_string();
    let tail: String = stderr.chars().rev().take(600).collect::<String>().chars().rev().collect();
    ChildResult {
        exit_code: status.code(),
        signal: status.signal(),
        timed_out,
        stdout,
        stderr_tail: tail,
    }
}

pub fn read_stdin() -> Vec<u8> {
    let mut v = Vec::new();
    let _ = std::io::Read::read_to_end(&mut std::io::stdin(), &mut v);
    v
}

/// Peak resident set size of this process in kB
pub fn peak_rss_kb() -> u64 {
    if let Ok(s) = std::fs::read_to_string("/proc/self/status") {
        for l in s.lines() {
            if let Some(r) = l.strip_prefix("VmHWM:") {
                return r.trim().trim_end_matches("kB").trim().parse().unwrap_or(0);
            }
        }
    }
    0
}

/// Allocation accounting: bytes currently allocated, high-water mark and largest single request
pub mod alloc_count {
    use std::alloc::{GlobalAlloc, Layout, System};
    use std::sync::atomic::{AtomicUsize, Ordering};

    pub struct Counting;
    static CUR: AtomicUsize = AtomicUsize::new(0);
    static PEAK: AtomicUsize = AtomicUsize::new(0);
    static LARGEST: AtomicUsize = AtomicUsize::new(0);

    unsafe impl GlobalAlloc for Counting {
        unsafe fn alloc(&self, l: Layout) -> *mut u8 {
            let p = System.alloc(l);
            if !p.is_null() {
                let c = CUR.fetch_add(l.size(), Ordering::Relaxed) + l.size();
                PEAK.fetch_max(c, Ordering::Relaxed);
                LARGEST.fetch_max(l.size(), Ordering::Relaxed);
            }
            p
        }
        unsafe fn dealloc(&self, p: *mut u8, l: Layout) {
            System.dealloc(p, l);
            CUR.fetch_sub(l.size(), Ordering::Relaxed);
        }
        unsafe fn realloc(&self, p: *mut u8, l: Layout, new: usize) -> *mut u8 {
            let q = System.realloc(p, l, new);
            if !q.is_null() {
                if new > l.size() {
                    let c = CUR.fetch_add(new - l.size(), Ordering::Relaxed) + (new - l.size());
                    PEAK.fetch_max(c, Ordering::Relaxed);
                    LARGEST.fetch_max(new, Ordering::Relaxed);
                } else {
                    CUR.fetch_sub(l.size() - new, Ordering::Relaxed);
                }
            }
            q
        }
    }

    /// Start a measurement window: peak := current, largest := 0. Returns current.
    pub fn window_start() -> usize {
        let c = CUR.load(Ordering::Relaxed);
        PEAK.store(c, Ordering::Relaxed);
        LARGEST.store(0, Ordering::Relaxed);
        c
    }
    /// (bytes above the window start at the high-water mark, largest single request)
    pub fn window_end(start: usize) -> (usize, usize) {
        (
            PEAK.load(Ordering::Relaxed).saturating_sub(start),
            LARGEST.load(Ordering::Relaxed),
        )
    }
}
