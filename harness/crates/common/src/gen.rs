//! Structure-aware value generators shared by the workloads.
#![allow(dead_code)]

use crate::common::Rng;
use opcua::types::*;
use std::io::Read;

pub const INTERESTING_STR: &[&str] = &[
    "",
    "a",
    "Hello world",
    "ns=1;s=x",
    "héllo wörld",
    "日本語テキスト",
    "😀 emoji 🎉",
    " leading and trailing ",
    "line\nbreak\ttab",
    "quote\"s and 'apostrophes'",
    "& / . < > : # ! % _ [ ] ^ \\",
    "null",
    "~",
    "0123456789",
    "\u{0}",
    "\u{feff}bom",
];

pub fn string(rng: &mut Rng, max_len: usize) -> String {
    match rng.below(10) {
        0..=2 => rng.pick(INTERESTING_STR).to_string(),
        3..=5 => {
            let n = rng.usize(max_len.min(12) + 1);
            (0..n).map(|_| (b'a' + rng.below(26) as u8) as char).collect()
        }
        6 => {
            let n = rng.usize(max_len + 1);
            (0..n).map(|_| (0x20 + rng.below(0x5f) as u8) as char).collect()
        }
        7 => {
            // arbitrary unicode scalar values
            let n = rng.usize(max_len.min(16) + 1);
            (0..n)
                .map(|_| loop {
                    let c = match rng.below(4) {
                        0 => rng.below(0x80) as u32,
                        1 => rng.below(0x800) as u32,
                        2 => rng.below(0x10000) as u32,
                        _ => rng.below(0x110000) as u32,
                    };
                    if let Some(c) = char::from_u32(c) {
                        break c;
                    }
                })
                .collect()
        }
        _ => {
            let n = rng.usize(max_len.min(40) + 1);
            let alpha = "abcXYZ019 _-.:/&<>#!%[]^\\éß漢";
            let chars: Vec<char> = alpha.chars().collect();
            (0..n).map(|_| *rng.pick(&chars)).collect()
        }
    }
}

pub fn ua_string(rng: &mut Rng, max_len: usize) -> UAString {
    if rng.chance(1, 8) {
        UAString::null()
    } else {
        UAString::from(string(rng, max_len))
    }
}

pub fn non_empty_string(rng: &mut Rng, max_len: usize) -> String {
    loop {
        let s = string(rng, max_len);
        if !s.is_empty() {
            return s;
        }
    }
}

pub fn byte_string(rng: &mut Rng, max_len: usize) -> ByteString {
    match rng.below(8) {
        0 => ByteString::null(),
        1 => ByteString::from(Vec::<u8>::new()),
        2 => ByteString::from(vec![0u8; rng.usize(max_len + 1)]),
        _ => {
            let n = rng.usize(max_len + 1);
            ByteString::from(rng.bytes(n))
        }
    }
}

pub fn guid(rng: &mut Rng) -> Guid {
    match rng.below(6) {
        0 => Guid::null(),
        1 => Guid::from_bytes([0xff; 16]),
        _ => {
            let b = rng.bytes(16);
            let mut a = [0u8; 16];
            a.copy_from_slice(&b);
            Guid::from_bytes(a)
        }
    }
}

/// Ticks (100ns since 1601) inside the representable range, with boundary emphasis
pub fn date_time_ticks(rng: &mut Rng) -> i64 {
    let end = DateTime::endtimes_ticks();
    match rng.below(10) {
        0 => 0,
        1 => 1,
        2 => end,
        3 => end - 1,
        4 => DateTime::now().ticks(),
        5 => rng.range(0, 10_000_000),
        _ => rng.range(0, end),
    }
}

pub fn date_time(rng: &mut Rng) -> DateTime {
    DateTime::from(date_time_ticks(rng))
}

pub fn status_code(rng: &mut Rng) -> StatusCode {
    match rng.below(6) {
        0 => StatusCode::Good,
        1 => StatusCode::BadUnexpectedError,
        2 => StatusCode::UncertainLastUsableValue,
        3 => StatusCode::BadTimeout,
        _ => StatusCode::from_bits_truncate(rng.next_u32()),
    }
}

pub fn ns_index(rng: &mut Rng) -> u16 {
    match rng.below(8) {
        0 => 0,
        1 => 1,
        2 => 2,
        3 => *rng.pick(&[9u16, 10, 99, 100, 255, 256, 65534, 65535]),
        _ => rng.next_u32() as u16,
    }
}

pub fn node_id(rng: &mut Rng) -> NodeId {
    let ns = ns_index(rng);
    match rng.below(8) {
        0 => NodeId::null(),
        1 => NodeId::new(ns, rng.below(256) as u32),
        2 => NodeId::new(ns, rng.below(65536) as u32),
        3 => NodeId::new(ns, rng.next_u32()),
        4 => NodeId::new(ns, ua_string(rng, 20)),
        5 => NodeId::new(ns, guid(rng)),
        6 => NodeId::new(ns, byte_string(rng, 20)),
        _ => NodeId::new(0, rng.below(20000) as u32),
    }
}

pub fn expanded_node_id(rng: &mut Rng) -> ExpandedNodeId {
    ExpandedNodeId {
        node_id: node_id(rng),
        namespace_uri: if rng.chance(1, 3) {
            UAString::from(non_empty_string(rng, 20))
        } else {
            UAString::null()
        },
        server_index: if rng.chance(1, 3) {
            match rng.below(3) {
                0 => 1,
                1 => u32::MAX,
                _ => rng.next_u32(),
            }
        } else {
            0
        },
    }
}

pub fn qualified_name(rng: &mut Rng) -> QualifiedName {
    QualifiedName {
        namespace_index: ns_index(rng),
        name: ua_string(rng, 20),
    }
}

pub fn localized_text(rng: &mut Rng) -> LocalizedText {
    LocalizedText {
        locale: if rng.bool() {
            UAString::null()
        } else {
            UAString::from(*rng.pick(&["", "en", "en-US", "de", "zh-Hans"]))
        },
        text: ua_string(rng, 30),
    }
}

pub fn extension_object(rng: &mut Rng, depth: u32) -> ExtensionObject {
    match rng.below(5) {
        0 => ExtensionObject::null(),
        1 => ExtensionObject {
            node_id: node_id(rng),
            body: ExtensionObjectEncoding::None,
        },
        2 => ExtensionObject {
            node_id: node_id(rng),
            body: ExtensionObjectEncoding::XmlElement(ua_string(rng, 30)),
        },
        3 if depth > 0 => {
            // a real encodable body
            let v = variant(rng, depth - 1);
            ExtensionObject {
                node_id: node_id(rng),
                body: ExtensionObjectEncoding::ByteString(ByteString::from(v.encode_to_vec())),
            }
        }
        _ => ExtensionObject {
            node_id: node_id(rng),
            body: ExtensionObjectEncoding::ByteString(byte_string(rng, 40)),
        },
    }
}

pub fn diagnostic_info(rng: &mut Rng, depth: u32) -> DiagnosticInfo {
    let opt_i32 = |rng: &mut Rng| if rng.bool() { Some(rng.next_u32() as i32) } else { None };
    DiagnosticInfo {
        symbolic_id: opt_i32(rng),
        namespace_uri: opt_i32(rng),
        locale: opt_i32(rng),
        localized_text: opt_i32(rng),
        additional_info: if rng.bool() { Some(ua_string(rng, 20)) } else { None },
        inner_status_code: if rng.bool() { Some(status_code(rng)) } else { None },
        inner_diagnostic_info: if depth > 0 && rng.chance(1, 3) {
            Some(Box::new(diagnostic_info(rng, depth - 1)))
        } else {
            None
        },
    }
}

/// Picoseconds are only generated together with their timestamp: Part 6 says they are ignored
/// otherwise, so a value carrying them alone is not a valid value to round trip.
pub fn data_value(rng: &mut Rng, depth: u32) -> DataValue {
    let source_timestamp = if rng.bool() { Some(date_time(rng)) } else { None };
    let server_timestamp = if rng.bool() { Some(date_time(rng)) } else { None };
    DataValue {
        value: if rng.chance(3, 4) { Some(variant(rng, depth)) } else { None },
        status: if rng.bool() { Some(status_code(rng)) } else { None },
        source_picoseconds: if source_timestamp.is_some() && rng.bool() { Some(rng.next_u32() as u16) } else { None },
        source_timestamp,
        server_picoseconds: if server_timestamp.is_some() && rng.bool() { Some(rng.next_u32() as u16) } else { None },
        server_timestamp,
    }
}

pub fn f64_interesting(rng: &mut Rng) -> f64 {
    match rng.below(12) {
        0 => 0.0,
        1 => -0.0,
        2 => f64::NAN,
        3 => f64::INFINITY,
        4 => f64::NEG_INFINITY,
        5 => f64::MIN_POSITIVE / 2.0,
        6 => f64::MAX,
        7 => f64::MIN,
        8 => rng.range(-1000, 1000) as f64 + 0.5,
        9 => f64::from_bits(rng.next_u64()),
        _ => (rng.f64_unit() - 0.5) * 10f64.powi(rng.range(-5, 20) as i32),
    }
}

pub fn f32_interesting(rng: &mut Rng) -> f32 {
    match rng.below(10) {
        0 => 0.0,
        1 => -0.0,
        2 => f32::NAN,
        3 => f32::INFINITY,
        4 => f32::NEG_INFINITY,
        5 => f32::MAX,
        6 => f32::MIN,
        7 => f32::from_bits(rng.next_u32()),
        _ => ((rng.f64_unit() - 0.5) * 10f64.powi(rng.range(-5, 12) as i32)) as f32,
    }
}

macro_rules! int_interesting {
    ($name:ident, $t:ty) => {
        pub fn $name(rng: &mut Rng) -> $t {
            match rng.below(8) {
                0 => <$t>::MIN,
                1 => <$t>::MAX,
                2 => 0 as $t,
                3 => 1 as $t,
                4 => <$t>::MAX - 1,
                5 => <$t>::MIN + 1,
                _ => rng.next_u64() as $t,
            }
        }
    };
}
int_interesting!(i8_i, i8);
int_interesting!(u8_i, u8);
int_interesting!(i16_i, i16);
int_interesting!(u16_i, u16);
int_interesting!(i32_i, i32);
int_interesting!(u32_i, u32);
int_interesting!(i64_i, i64);
int_interesting!(u64_i, u64);

pub const SCALAR_TYPES: &[VariantTypeId] = &[
    VariantTypeId::Boolean,
    VariantTypeId::SByte,
    VariantTypeId::Byte,
    VariantTypeId::Int16,
    VariantTypeId::UInt16,
    VariantTypeId::Int32,
    VariantTypeId::UInt32,
    VariantTypeId::Int64,
    VariantTypeId::UInt64,
    VariantTypeId::Float,
    VariantTypeId::Double,
    VariantTypeId::String,
    VariantTypeId::DateTime,
    VariantTypeId::Guid,
    VariantTypeId::StatusCode,
    VariantTypeId::ByteString,
    VariantTypeId::XmlElement,
    VariantTypeId::QualifiedName,
    VariantTypeId::LocalizedText,
    VariantTypeId::NodeId,
    VariantTypeId::ExpandedNodeId,
    VariantTypeId::ExtensionObject,
    VariantTypeId::Variant,
    VariantTypeId::DataValue,
    VariantTypeId::DiagnosticInfo,
];

/// A scalar of exactly the given type. `depth` bounds nesting through Variant/DataValue/etc.
pub fn scalar_of(rng: &mut Rng, t: VariantTypeId, depth: u32) -> Variant {
    match t {
        VariantTypeId::Empty => Variant::Empty,
        VariantTypeId::Boolean => Variant::Boolean(rng.bool()),
        VariantTypeId::SByte => Variant::SByte(i8_i(rng)),
        VariantTypeId::Byte => Variant::Byte(u8_i(rng)),
        VariantTypeId::Int16 => Variant::Int16(i16_i(rng)),
        VariantTypeId::UInt16 => Variant::UInt16(u16_i(rng)),
        VariantTypeId::Int32 => Variant::Int32(i32_i(rng)),
        VariantTypeId::UInt32 => Variant::UInt32(u32_i(rng)),
        VariantTypeId::Int64 => Variant::Int64(i64_i(rng)),
        VariantTypeId::UInt64 => Variant::UInt64(u64_i(rng)),
        VariantTypeId::Float => Variant::Float(f32_interesting(rng)),
        VariantTypeId::Double => Variant::Double(f64_interesting(rng)),
        VariantTypeId::String => Variant::String(ua_string(rng, 30)),
        VariantTypeId::DateTime => Variant::DateTime(Box::new(date_time(rng))),
        VariantTypeId::Guid => Variant::Guid(Box::new(guid(rng))),
        VariantTypeId::StatusCode => Variant::StatusCode(status_code(rng)),
        VariantTypeId::ByteString => Variant::ByteString(byte_string(rng, 30)),
        VariantTypeId::XmlElement => Variant::XmlElement(ua_string(rng, 30)),
        VariantTypeId::QualifiedName => Variant::QualifiedName(Box::new(qualified_name(rng))),
        VariantTypeId::LocalizedText => Variant::LocalizedText(Box::new(localized_text(rng))),
        VariantTypeId::NodeId => Variant::NodeId(Box::new(node_id(rng))),
        VariantTypeId::ExpandedNodeId => Variant::ExpandedNodeId(Box::new(expanded_node_id(rng))),
        VariantTypeId::ExtensionObject => {
            Variant::ExtensionObject(Box::new(extension_object(rng, depth.saturating_sub(1))))
        }
        VariantTypeId::Variant => {
            if depth == 0 {
                Variant::Variant(Box::new(Variant::Int32(rng.next_u32() as i32)))
            } else {
                // a variant inside a variant may not itself be an array per the decoder; keep scalar
                let inner_t = *rng.pick(SCALAR_TYPES);
                Variant::Variant(Box::new(scalar_of(rng, inner_t, depth - 1)))
            }
        }
        VariantTypeId::DataValue => {
            Variant::DataValue(Box::new(data_value(rng, depth.saturating_sub(1).min(1))))
        }
        VariantTypeId::DiagnosticInfo => {
            Variant::DiagnosticInfo(Box::new(diagnostic_info(rng, depth.saturating_sub(1))))
        }
        VariantTypeId::Array => Variant::Empty,
    }
}

/// Arbitrary variant: scalar, one-dimensional array or multi-dimensional array
pub fn variant(rng: &mut Rng, depth: u32) -> Variant {
    let t = if depth == 0 {
        // no nesting types at the leaves
        *rng.pick(&SCALAR_TYPES[..21])
    } else {
        *rng.pick(SCALAR_TYPES)
    };
    match rng.below(10) {
        0 => Variant::Empty,
        1..=5 => scalar_of(rng, t, depth),
        6..=7 => {
            let n = match rng.below(4) {
                0 => 0,
                1 => 1,
                _ => rng.usize(8),
            };
            let values: Vec<Variant> = (0..n).map(|_| scalar_of(rng, t, depth.saturating_sub(1))).collect();
            Variant::Array(Box::new(Array {
                value_type: t,
                values,
                dimensions: None,
            }))
        }
        _ => {
            // multi-dimensional with consistent dimensions
            let rank = 1 + rng.usize(3);
            let dims: Vec<u32> = (0..rank).map(|_| rng.below(4) as u32).collect();
            let n: usize = dims.iter().map(|d| *d as usize).product();
            let values: Vec<Variant> = (0..n).map(|_| scalar_of(rng, t, depth.saturating_sub(1))).collect();
            Variant::Array(Box::new(Array {
                value_type: t,
                values,
                dimensions: Some(dims),
            }))
        }
    }
}

/// A `Read` that invents bytes on demand, biased so that structure decoders succeed often:
/// 4-byte reads (lengths, enums) are mostly small, 1-byte reads (masks) mostly low values.
/// Everything handed out is recorded.
pub struct BiasedReader {
    pub rng: Rng,
    pub produced: Vec<u8>,
    pub limit: usize,
}

impl BiasedReader {
    pub fn new(rng: Rng, limit: usize) -> Self {
        BiasedReader {
            rng,
            produced: Vec::new(),
            limit,
        }
    }
}

impl Read for BiasedReader {
    fn read(&mut self, buf: &mut [u8]) -> std::io::Result<usize> {
        if self.produced.len() + buf.len() > self.limit {
            return Ok(0);
        }
        let rng = &mut self.rng;
        match buf.len() {
            1 => {
                // encoding bytes: NodeId kinds 0..5, ExtensionObject 0..2, masks, variant type ids
                buf[0] = match rng.below(20) {
                    0..=8 => rng.below(3) as u8,
                    9..=11 => rng.below(6) as u8,
                    12..=14 => rng.below(26) as u8,
                    15 => rng.below(64) as u8,
                    16 => 0x80 | rng.below(26) as u8,
                    17 => 0xC0 | rng.below(26) as u8,
                    18 => rng.below(128) as u8,
                    _ => rng.next_u32() as u8,
                };
            }
            4 => {
                let v: i32 = match rng.below(40) {
                    0..=5 => -1,
                    6..=9 => 0,
                    10..=29 => rng.below(4) as i32,
                    30..=34 => rng.below(20) as i32,
                    35..=37 => rng.below(1000) as i32,
                    38 => (rng.next_u32() >> 8) as i32,
                    _ => rng.next_u32() as i32,
                };
                buf.copy_from_slice(&v.to_le_bytes());
            }
            8 => {
                let v: u64 = match rng.below(4) {
                    0 => 0,
                    1 => rng.below(1 << 20),
                    2 => rng.below(DateTime::endtimes_ticks() as u64),
                    _ => rng.next_u64(),
                };
                buf.copy_from_slice(&v.to_le_bytes());
            }
            n => {
                // string / bytestring bodies: printable ascii so that UTF-8 validation passes
                for b in buf.iter_mut().take(n) {
                    *b = 0x20 + rng.below(0x5f) as u8;
                }
            }
        }
        self.produced.extend_from_slice(buf);
        Ok(buf.len())
    }
}
