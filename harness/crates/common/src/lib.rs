//! Shared plumbing of the verification harness: PRNG, report writer, panic capture, child
//! processes, allocation counter (common), value generators (gen), keys and certificates (pki).
pub mod common;
pub mod gen;
pub mod pki;
