//! Keys and certificates for the workloads, generated once and cached under <work>/pki.
#![allow(dead_code)]

use opcua::crypto::{CertificateStore, PrivateKey, X509Data, X509};
use std::path::{Path, PathBuf};

/// <verif root>/work
pub fn work_dir() -> PathBuf {
    // the binary lives in <root>/work/target/debug/vh
    let exe = std::env::current_exe().unwrap();
    let mut p = exe.clone();
    for _ in 0..3 {
        p.pop();
    }
    if p.ends_with("work") {
        p
    } else {
        PathBuf::from("/verif/work")
    }
}

pub fn pki_dir() -> PathBuf {
    let d = work_dir().join("pki");
    let _ = std::fs::create_dir_all(&d);
    d
}

/// A fresh scratch directory under <work>/scratch, unique per process and tag
pub fn scratch_dir(tag: &str) -> PathBuf {
    let d = work_dir()
        .join("scratch")
        .join(format!("{}_{}", tag, std::process::id()));
    let _ = std::fs::remove_dir_all(&d);
    let _ = std::fs::create_dir_all(&d);
    d
}

/// A named RSA identity (self-signed application instance certificate + private key) of the given
/// key size. `name` doubles as common name; the application uri is `urn:verif:<name>` and the
/// certificate names the hosts `localhost`, `127.0.0.1` and this machine's host name.
/// Cached on disk; generation is atomic (write to temp, rename) so concurrent shards are safe.
pub fn identity(name: &str, bits: u32) -> (X509, PrivateKey) {
    identity_with(name, bits, 3650)
}

pub fn identity_with(name: &str, bits: u32, duration_days: u32) -> (X509, PrivateKey) {
    let dir = pki_dir();
    let cert_path = dir.join(format!("{}_{}_{}.der", name, bits, duration_days));
    let key_path = dir.join(format!("{}_{}_{}.pem", name, bits, duration_days));
    if let (Ok(der), Ok(pem)) = (std::fs::read(&cert_path), std::fs::read(&key_path)) {
        if let (Ok(c), Ok(k)) = (X509::from_der(&der), PrivateKey::from_pem(&pem)) {
            return (c, k);
        }
    }
    // serialise generation across processes: one writer, everybody else re-reads
    let lock_path = dir.join(".identity.lock");
    let lock = std::fs::OpenOptions::new()
        .create(true)
        .write(true)
        .truncate(false)
        .open(&lock_path)
        .expect("pki lock file");
    {
        use std::os::unix::io::AsRawFd;
        unsafe {
            libc::flock(lock.as_raw_fd(), libc::LOCK_EX);
        }
    }
    let result = (|| {
        if let (Ok(der), Ok(pem)) = (std::fs::read(&cert_path), std::fs::read(&key_path)) {
            if let (Ok(c), Ok(k)) = (X509::from_der(&der), PrivateKey::from_pem(&pem)) {
                return (c, k);
            }
        }
        let data = X509Data {
            key_size: bits,
            common_name: name.to_string(),
            organization: "verif".into(),
            organizational_unit: "verif".into(),
            country: "IE".into(),
            state: "Dublin".into(),
            alt_host_names: vec![
                format!("urn:verif:{}", name),
                "localhost".into(),
                "127.0.0.1".into(),
            ],
            certificate_duration_days: duration_days,
        };
        let (cert, key) = X509::cert_and_pkey(&data).expect("cert generation");
        let tmpc = dir.join(format!(".tmp_{}_{}.der", std::process::id(), name));
        let tmpk = dir.join(format!(".tmp_{}_{}.pem", std::process::id(), name));
        std::fs::write(&tmpk, key.private_key_to_pem().unwrap()).unwrap();
        std::fs::write(&tmpc, cert.to_der().unwrap()).unwrap();
        std::fs::rename(&tmpk, &key_path).unwrap();
        std::fs::rename(&tmpc, &cert_path).unwrap();
        (cert, key)
    })();
    {
        use std::os::unix::io::AsRawFd;
        unsafe {
            libc::flock(lock.as_raw_fd(), libc::LOCK_UN);
        }
    }
    result
}

/// A certificate store rooted at `dir` whose own certificate and key are the given identity.
pub fn cert_store(dir: &Path, own: &(X509, PrivateKey)) -> CertificateStore {
    let store = CertificateStore::new(dir);
    store.ensure_pki_path().unwrap();
    std::fs::write(store.own_certificate_path(), own.0.to_der().unwrap()).unwrap();
    std::fs::write(
        store.own_private_key_path(),
        own.1.private_key_to_pem().unwrap(),
    )
    .unwrap();
    store
}

/// Puts `cert` in the store's trusted directory under the name the store itself would use
pub fn trust(store: &CertificateStore, cert: &X509) {
    let mut p = store.trusted_certs_dir();
    p.push(CertificateStore::cert_file_name(cert));
    std::fs::write(p, cert.to_der().unwrap()).unwrap();
}
