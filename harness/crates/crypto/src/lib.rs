//! Workloads and oracles for the crypto helper properties (C16-C18).
#[allow(unused_imports)]
pub(crate) use vh_common::{common, gen, pki};
pub mod p_crypto;
pub use p_crypto::dispatch;
