//! C16, C17, C18: crypto helpers (encrypted passwords, signature data, certificate trust verdicts).
//!
//! Every verdict below comes from running the real functions of /repo/lib/src/crypto; the harness
//! only holds small reference predicates over the *inputs* (what the plaintext was, which flag was
//! set, which file was put where) to decide what the real code was allowed to answer.
use crate::common::*;
use crate::pki;
use opcua::crypto::{
    create_signature_data, decrypt_user_identity_token_password, legacy_password_decrypt,
    legacy_password_encrypt, make_user_name_identity_token, verify_signature_data,
    CertificateStore, KeySize, PrivateKey, RsaPadding, SecurityPolicy, X509,
};
use opcua::server::config::{ServerConfig, ServerEndpoint, ServerUserToken};
use opcua::server::prelude::Server;
use opcua::server::state::ServerState;
use opcua::sync::RwLock;
use opcua::types::service_types::{ActivateSessionRequest, MessageSecurityMode, SignatureData, UserNameIdentityToken, UserTokenPolicy, UserTokenType};
use opcua::types::{ByteString, ExtensionObject, ObjectId, RequestHeader, StatusCode, UAString};
use openssl::pkey::{PKey, Private, Public};
use openssl::rsa::Rsa;
use serde_json::{json, Value};
use std::collections::BTreeMap;
use std::path::{Path, PathBuf};
use std::sync::Arc;

pub fn dispatch(args: &Args, rep: &mut Report) -> bool {
    match args.prop.as_str() {
        "C16" => c16(args, rep),
        "C17" => c17(args, rep),
        "C18" => c18(args, rep),
        _ => return false,
    }
    true
}

// ---------------------------------------------------------------------------------------------
// shared: identities
// ---------------------------------------------------------------------------------------------

const BITS: [u32; 3] = [1024, 2048, 4096];

struct Ident {
    bits: u32,
    cert: X509,
    key: PrivateKey,
    der: Vec<u8>,
    rsa_pub: Rsa<Public>,
    pkey: PKey<Private>,
}

/// Serialises identity generation between the shards of this module (pki::identity alone can leave a
/// key of one process next to the certificate of another when two processes generate concurrently).
fn with_pki_lock<T>(f: impl FnOnce() -> T) -> T {
    use std::os::unix::io::AsRawFd;
    let path = pki::pki_dir().join(".p_crypto.lock");
    let file = std::fs::OpenOptions::new()
        .create(true)
        .write(true)
        .open(&path)
        .ok();
    if let Some(f) = file.as_ref() {
        unsafe {
            libc::flock(f.as_raw_fd(), libc::LOCK_EX);
        }
    }
    let r = f();
    if let Some(f) = file.as_ref() {
        unsafe {
            libc::flock(f.as_raw_fd(), libc::LOCK_UN);
        }
    }
    r
}

fn load_ident(name: &str, bits: u32) -> Result<Ident, String> {
    let mut last = String::new();
    for _ in 0..20 {
        let (cert, key) = with_pki_lock(|| pki::identity(name, bits));
        let der = cert.to_der().map_err(|_| "cert to der".to_string())?;
        let ox = openssl::x509::X509::from_der(&der).map_err(|e| e.to_string())?;
        let pubk = ox.public_key().map_err(|e| e.to_string())?;
        let pem = key.private_key_to_pem().map_err(|_| "key to pem".to_string())?;
        let pkey = PKey::private_key_from_pem(&pem).map_err(|e| e.to_string())?;
        if pubk.public_eq(&pkey) {
            let rsa_pub = pubk.rsa().map_err(|e| e.to_string())?;
            return Ok(Ident {
                bits,
                cert,
                key,
                der,
                rsa_pub,
                pkey,
            });
        }
        last = format!("cached identity {} {}: certificate and private key do not belong together", name, bits);
        std::thread::sleep(std::time::Duration::from_millis(150));
    }
    Err(last)
}

fn hexs(v: &Value) -> Vec<u8> {
    unhex(v.as_str().unwrap_or(""))
}

fn read_replay(path: &str) -> Option<Value> {
    let s = std::fs::read_to_string(path).ok()?;
    let v: Value = serde_json::from_str(&s).ok()?;
    if v.get("case").is_some() {
        Some(v["case"].clone())
    } else {
        Some(v)
    }
}

fn status_name(s: StatusCode) -> String {
    format!("{}", s)
}

// ---------------------------------------------------------------------------------------------
// C16 encrypted passwords
// ---------------------------------------------------------------------------------------------

const PADDINGS: [(&str, usize); 3] = [("pkcs1", 11), ("oaep-sha1", 42), ("oaep-sha256", 66)];

fn padding_of(name: &str) -> RsaPadding {
    match name {
        "pkcs1" => RsaPadding::Pkcs1,
        "oaep-sha1" => RsaPadding::OaepSha1,
        _ => RsaPadding::OaepSha256,
    }
}

fn overhead_of(name: &str) -> usize {
    PADDINGS.iter().find(|p| p.0 == name).map(|p| p.1).unwrap_or(66)
}

struct C16Keys {
    ids: Vec<Ident>,
    /// a second identity per key size: certificates whose private key the server under test does not hold
    others: Vec<Ident>,
}

impl C16Keys {
    fn get(&self, bits: u64) -> &Ident {
        self.ids.iter().find(|i| i.bits as u64 == bits).unwrap_or(&self.ids[0])
    }
    fn other(&self, bits: u64) -> &Ident {
        self.others.iter().find(|i| i.bits as u64 == bits).unwrap_or(&self.others[0])
    }
}

/// A password of exactly `nbytes` UTF-8 bytes (and at most 512 characters) in the given style
fn password_bytes(rng: &mut Rng, nbytes: usize, style: u64) -> String {
    let mut s = String::new();
    let mut chars = 0usize;
    let pools: [&[(u32, u32)]; 5] = [
        &[(0x20, 0x7e)],
        &[(0xa0, 0x7ff)],
        &[(0x800, 0xd7ff), (0xe000, 0xffff)],
        &[(0x10000, 0x10ffff)],
        &[(0x0, 0x7f), (0x80, 0x7ff), (0x800, 0xd7ff), (0xe000, 0xffff), (0x10000, 0x10ffff)],
    ];
    let pool = pools[(style % 5) as usize];
    while s.len() < nbytes && chars < 512 {
        let remaining = nbytes - s.len();
        let (lo, hi) = *rng.pick(pool);
        let c = match rng.below(6) {
            0 => lo,
            1 => hi,
            _ => lo + rng.below((hi - lo + 1) as u64) as u32,
        };
        let c = char::from_u32(c).unwrap_or('?');
        if c.len_utf8() <= remaining {
            s.push(c);
        } else {
            // fill the rest with one-byte characters, NUL and DEL included now and then
            let c = match rng.below(8) {
                0 => '\u{0}',
                1 => '\u{7f}',
                _ => (b'a' + rng.below(26) as u8) as char,
            };
            s.push(c);
        }
        chars += 1;
    }
    s
}

fn nonce_gen(rng: &mut Rng, len: usize) -> Vec<u8> {
    match rng.below(8) {
        0 => vec![0u8; len],
        1 => vec![0xffu8; len],
        2 => (0..len).map(|_| b'a' + rng.below(26) as u8).collect(),
        3 => {
            // looks like a little-endian length prefix followed by zeros
            let mut v = vec![0u8; len];
            if len > 0 {
                v[0] = rng.below(70) as u8;
            }
            v
        }
        _ => rng.bytes(len),
    }
}

fn nonce_len_gen(rng: &mut Rng) -> usize {
    match rng.below(10) {
        0 => 0,
        1 => 1,
        2 => 16,
        3 | 4 => 32,
        5 => *rng.pick(&[31usize, 33, 63, 64, 4, 3, 5]),
        _ => rng.usize(65),
    }
}

fn wrong_nonces(rng: &mut Rng, pw: &[u8], n: &[u8], every_position: bool) -> Vec<Vec<u8>> {
    let l = n.len();
    let mut out: Vec<Vec<u8>> = Vec::new();
    if l > 0 {
        let mut positions = vec![0usize, l - 1, rng.usize(l)];
        if every_position {
            positions = (0..l).collect();
        }
        positions.sort();
        positions.dedup();
        for p in positions {
            let mut m = n.to_vec();
            m[p] ^= 1u8 << rng.below(8);
            out.push(m);
        }
        out.push(n[1..].to_vec()); // a suffix of the plaintext: same bytes, shorter nonce
        out.push(n[..l - 1].to_vec());
        out.push(Vec::new());
        let mut r = n.to_vec();
        r.rotate_left(1);
        out.push(r);
        let mut r = n.to_vec();
        r.reverse();
        out.push(r);
        out.push(rng.bytes(l));
    }
    let mut m = n.to_vec();
    m.push(rng.next_u32() as u8);
    out.push(m);
    let mut m = vec![rng.next_u32() as u8];
    m.extend_from_slice(n);
    out.push(m);
    // the nonce extended by the last byte of the password: still a suffix of the plaintext
    if let Some(last) = pw.last() {
        let mut m = vec![*last];
        m.extend_from_slice(n);
        out.push(m);
    }
    if l < 64 {
        let mut m = n.to_vec();
        m.extend_from_slice(&vec![0u8; 64 - l]);
        out.push(m);
    }
    out.retain(|m| m.as_slice() != n);
    out.sort();
    out.dedup();
    out
}

fn pw_style(pw: &[u8]) -> &'static str {
    if pw.is_empty() {
        "empty"
    } else if pw.contains(&0) {
        "nul"
    } else if pw.iter().all(|b| *b < 0x80) {
        "ascii"
    } else if pw.iter().any(|b| *b >= 0xf0) {
        "4byte"
    } else if pw.iter().any(|b| *b >= 0xe0) {
        "3byte"
    } else {
        "2byte"
    }
}

fn len_class(n: usize) -> String {
    match n {
        0 | 1 | 16 | 32 | 64 => n.to_string(),
        2..=15 => "2-15".into(),
        17..=31 => "17-31".into(),
        33..=63 => "33-63".into(),
        _ => ">64".into(),
    }
}

fn c16_random_case(rng: &mut Rng, thorough: bool) -> Value {
    let bits = match rng.below(20) {
        0..=8 => 1024,
        9..=16 => 2048,
        _ => 4096,
    };
    let pad = PADDINGS[rng.usize(3)];
    let ks = bits as usize / 8;
    let blk = ks - pad.1;
    if rng.chance(1, 12) {
        // through the identity token wrappers, for each policy
        let policy = *rng.pick(&["Basic128Rsa15", "Basic256", "Basic256Sha256", "Aes128Sha256RsaOaep", "Aes256Sha256RsaPss"]);
        let nl = nonce_len_gen(rng);
        let nonce = nonce_gen(rng, nl);
        let n = rng.usize(40);
        let st = rng.below(5);
        let pw = password_bytes(rng, n, st);
        return json!({"kind": "token", "bits": bits, "policy": policy, "password_hex": hex(pw.as_bytes()),
            "nonce_hex": hex(&nonce), "class": format!("token|{}|{}", bits, policy)});
    }
    let nl = nonce_len_gen(rng);
    let nonce = nonce_gen(rng, nl);
    // aim the total plaintext size (4 + password + nonce) at block boundaries
    let max_blocks = if bits == 4096 { 2 } else { 4 };
    let pw_len = match rng.below(10) {
        0 => 0,
        1..=5 => {
            let k = 1 + rng.usize(max_blocks);
            let total = (k * blk) as i64 + rng.range(-1, 1);
            (total - 4 - nl as i64).max(0) as usize
        }
        6 => rng.usize(2049),
        _ => rng.usize(64),
    }
    .min(2048);
    let st = rng.below(5);
    let pw = password_bytes(rng, pw_len, st);
    let every = thorough && rng.chance(1, 4);
    let wn = wrong_nonces(rng, pw.as_bytes(), &nonce, every);
    let pt = 4 + pw.len() + nonce.len();
    let nblocks = (pt + blk - 1) / blk;
    let mut ops: Vec<String> = vec!["drop-last-byte".into(), "append-byte".into()];
    for _ in 0..2 {
        ops.push(
            match rng.below(8) {
                0 => "drop-first-byte".to_string(),
                1 => "drop-last-block".to_string(),
                2 => "dup-last-block".to_string(),
                3 => "swap-first-two".to_string(),
                4 => "zero-last-block".to_string(),
                5 => "ff-last-block".to_string(),
                _ => format!("flip:{}:{}", rng.usize(nblocks * ks), 1u8 << rng.below(8)),
            },
        );
    }
    json!({"kind": "roundtrip", "bits": bits, "padding": pad.0, "password_hex": hex(pw.as_bytes()),
        "nonce_hex": hex(&nonce), "wrong_nonces": wn.iter().map(|m| hex(m)).collect::<Vec<_>>(), "ct_ops": ops,
        "class": format!("roundtrip|{}|{}", bits, pad.0)})
}

/// The fixed list of hostile inputs for one (key size, padding)
fn c16_grid(bits: u32, pad: &str, rng: &mut Rng) -> Vec<Value> {
    let ks = bits as usize / 8;
    let blk = ks - overhead_of(pad);
    let mut out = Vec::new();
    let n32 = rng.bytes(32);
    // raw byte strings as ciphertext
    let mut raws: Vec<(String, Option<Vec<u8>>)> = vec![("null".into(), None), ("empty".into(), Some(vec![]))];
    for l in [1usize, 2, ks / 2, ks - 1, ks + 1, 2 * ks - 1, 2 * ks + 1, 3 * ks + 7] {
        raws.push((format!("random-len-{}", if l < ks { "below" } else { "above" }), Some(rng.bytes(l))));
    }
    raws.push(("zeros-1-block".into(), Some(vec![0u8; ks])));
    raws.push(("ff-1-block".into(), Some(vec![0xffu8; ks])));
    raws.push(("one-1-block".into(), Some({
        let mut v = vec![0u8; ks];
        v[ks - 1] = 1;
        v
    })));
    for k in 1..=3 {
        raws.push((format!("random-{}-blocks", k), Some(rng.bytes(k * ks))));
    }
    for (name, ct) in raws {
        for nonce in [Vec::new(), n32.clone()] {
            out.push(json!({"kind": "raw", "bits": bits, "padding": pad, "nonce_hex": hex(&nonce),
                "ct_hex": ct.as_ref().map(|c| hex(c)), "class": format!("raw|{}|{}|{}", bits, pad, name)}));
        }
    }
    // crafted plaintexts, encrypted with the real public_encrypt
    let le = |n: usize| (n as u32).to_le_bytes().to_vec();
    let mut crafted: Vec<(&str, Vec<Vec<u8>>, Vec<u8>)> = Vec::new();
    let wf = |body: &[u8]| {
        let mut p = le(body.len());
        p.extend_from_slice(body);
        p
    };
    crafted.push(("prefix-only-nonce32", vec![wf(&[])], n32.clone()));
    crafted.push(("prefix-only-nonce0", vec![wf(&[])], vec![]));
    crafted.push(("prefix-only-nonce-zero4", vec![wf(&[])], vec![0, 0, 0, 0]));
    crafted.push(("body1-nonce32", vec![wf(b"x")], n32.clone()));
    crafted.push(("body31-nonce32", vec![wf(&n32[1..])], n32.clone()));
    // the nonce reaches back into the length prefix by k bytes and matches it
    for k in 1..=4usize {
        let body = rng.bytes(6);
        let p = wf(&body);
        let m = p[4 - k..].to_vec();
        crafted.push(("nonce-overlaps-prefix", vec![p], m));
    }
    {
        // what an attacker can send whenever the server nonce happens to start with a zero byte
        let mut m = rng.bytes(32);
        m[0] = 0;
        let p = wf(&m[1..]);
        crafted.push(("nonce-overlaps-prefix-32", vec![p], m));
    }
    crafted.push(("empty-password", vec![wf(&n32)], n32.clone()));
    {
        let mut body = b"secret".to_vec();
        body.extend_from_slice(&n32);
        let good = wf(&body);
        crafted.push(("wellformed", vec![good.clone()], n32.clone()));
        for (name, v) in [
            ("prefix-minus-1", body.len() - 1),
            ("prefix-plus-1", body.len() + 1),
            ("prefix-zero", 0),
            ("prefix-max", u32::MAX as usize),
            ("prefix-includes-itself", body.len() + 4),
            ("prefix-nonce-len", 32),
        ] {
            let mut p = le(v);
            p.extend_from_slice(&body);
            crafted.push((name, vec![p], n32.clone()));
        }
        let mut p = (body.len() as u32).to_be_bytes().to_vec();
        p.extend_from_slice(&body);
        crafted.push(("prefix-big-endian", vec![p], n32.clone()));
        let mut bad = good.clone();
        let l = bad.len();
        bad[l - 1] ^= 0x40;
        crafted.push(("nonce-last-byte-differs", vec![bad], n32.clone()));
        let mut bad = good.clone();
        bad[4 + 6] ^= 0x01;
        crafted.push(("nonce-first-byte-differs", vec![bad], n32.clone()));
        // split over two separately encrypted blocks of irregular size
        crafted.push(("irregular-blocks", vec![good[..7].to_vec(), good[7..].to_vec()], n32.clone()));
        crafted.push(("irregular-blocks-1-byte-first", vec![good[..1].to_vec(), good[1..].to_vec()], n32.clone()));
    }
    for l in 1..=3usize {
        crafted.push(("plaintext-shorter-than-prefix", vec![rng.bytes(l)], vec![]));
        crafted.push(("plaintext-shorter-than-prefix", vec![vec![0u8; l]], n32.clone()));
    }
    {
        let mut body = vec![0xff, 0xfe, 0x80];
        body.extend_from_slice(&n32);
        crafted.push(("password-not-utf8", vec![wf(&body)], n32.clone()));
        let mut body = vec![0xe2, 0x82]; // truncated 3-byte sequence
        body.extend_from_slice(&n32);
        crafted.push(("password-truncated-utf8", vec![wf(&body)], n32.clone()));
    }
    for delta in [-1i64, 0, 1] {
        // multi block, well formed, at the block boundary
        let total = (2 * blk) as i64 + delta;
        let pwl = (total - 4 - 32) as usize;
        let mut body: Vec<u8> = (0..pwl).map(|i| b'a' + (i % 26) as u8).collect();
        body.extend_from_slice(&n32);
        crafted.push(("wellformed-2-blocks", vec![wf(&body)], n32.clone()));
        let mut short = le(body.len());
        short.extend_from_slice(&body[..body.len() - blk.min(body.len() - 1)]);
        crafted.push(("prefix-says-2-blocks-body-1", vec![short], n32.clone()));
    }
    for (name, pieces, nonce) in crafted {
        out.push(json!({"kind": "crafted", "bits": bits, "padding": pad, "nonce_hex": hex(&nonce),
            "pieces_hex": pieces.iter().map(|p| hex(p)).collect::<Vec<_>>(), "empty_block_prefix": false,
            "class": format!("crafted|{}|{}|{}", bits, pad, name)}));
    }
    if pad != "oaep-sha256" {
        let mut body = b"pw".to_vec();
        body.extend_from_slice(&n32);
        out.push(json!({"kind": "crafted", "bits": bits, "padding": pad, "nonce_hex": hex(&n32),
            "pieces_hex": [hex(&wf(&body))], "empty_block_prefix": true,
            "class": format!("crafted|{}|{}|empty-block-first", bits, pad)}));
    }
    out
}

/// One tampering operation on a ciphertext of whole `ks`-byte blocks; false = unknown operation
fn apply_ct_op(c: &mut Vec<u8>, op: &str, ks: usize) -> bool {
    let opname = op.split(':').next().unwrap_or("");
    match opname {
        "drop-last-byte" => {
            c.pop();
        }
        "drop-first-byte" => {
            if !c.is_empty() {
                c.remove(0);
            }
        }
        "append-byte" => c.push(0x5a),
        "drop-last-block" => {
            let l = c.len();
            c.truncate(l.saturating_sub(ks));
        }
        "dup-last-block" => {
            if c.len() >= ks {
                let l = c[c.len() - ks..].to_vec();
                c.extend_from_slice(&l);
            }
        }
        "swap-first-two" => {
            if c.len() >= 2 * ks {
                let a = c[..ks].to_vec();
                let b = c[ks..2 * ks].to_vec();
                c[..ks].copy_from_slice(&b);
                c[ks..2 * ks].copy_from_slice(&a);
            }
        }
        "zero-last-block" => {
            let l = c.len();
            c[l.saturating_sub(ks)..].iter_mut().for_each(|b| *b = 0);
        }
        "ff-last-block" => {
            let l = c.len();
            c[l.saturating_sub(ks)..].iter_mut().for_each(|b| *b = 0xff);
        }
        "flip" => {
            let mut it = op.split(':').skip(1);
            let idx: usize = it.next().and_then(|s| s.parse().ok()).unwrap_or(0);
            let x: u8 = it.next().and_then(|s| s.parse().ok()).unwrap_or(1);
            let l = c.len();
            if l > 0 {
                c[idx % l] ^= x;
            }
        }
        _ => return false,
    }
    true
}

/// Encrypts crafted plaintext pieces, one after the other, with the real public_encrypt of the identity's
/// certificate (optionally preceded by a block that decrypts to the empty message). Returns (ciphertext,
/// concatenated plaintext).
fn encrypt_pieces(id: &Ident, pad_name: &str, pieces: &[Vec<u8>], empty_first: bool) -> Result<(Vec<u8>, Vec<u8>), String> {
    let ks = id.bits as usize / 8;
    let padding = padding_of(pad_name);
    let mut plain: Vec<u8> = Vec::new();
    let mut ct: Vec<u8> = Vec::new();
    if empty_first {
        let mut buf = vec![0u8; ks];
        let p = if pad_name == "pkcs1" { openssl::rsa::Padding::PKCS1 } else { openssl::rsa::Padding::PKCS1_OAEP };
        match id.rsa_pub.public_encrypt(&[], &mut buf, p) {
            Ok(_) => ct.extend_from_slice(&buf),
            Err(e) => return Err(format!("cannot build an empty-message block: {}", e)),
        }
    }
    let pubkey = id.cert.public_key().map_err(|_| "certificate without public key".to_string())?;
    for piece in pieces {
        let size = pubkey.calculate_cipher_text_size(piece.len(), padding);
        let mut dst = vec![0u8; size];
        match catch(|| pubkey.public_encrypt(piece, &mut dst, padding)) {
            Ok(Ok(n)) => {
                dst.truncate(n);
                ct.extend_from_slice(&dst);
                plain.extend_from_slice(piece);
            }
            other => {
                return Err(format!("public_encrypt of a crafted plaintext failed: {:?}", other.map(|r| r.map_err(|_| "PKeyError"))));
            }
        }
    }
    Ok((ct, plain))
}

/// What a decrypted plaintext is, relative to the nonce it is opened under: (length prefix consistent, room for
/// prefix + nonce, ends with the nonce, root cause class)
fn plaintext_shape(plain: &[u8], m: &[u8]) -> (bool, bool, bool, &'static str) {
    let wf = plain.len() >= 4 && u32::from_le_bytes([plain[0], plain[1], plain[2], plain[3]]) as usize + 4 == plain.len();
    let room = plain.len() >= 4 + m.len();
    let tail = room && plain.ends_with(m);
    let root = if !room && wf {
        if plain.len() < m.len() { "plaintext-shorter-than-nonce" } else { "nonce-would-start-inside-length-prefix" }
    } else if !wf {
        "length-prefix-inconsistent"
    } else if !tail {
        "nonce-mismatch"
    } else {
        "wellformed"
    };
    (wf, room, tail, root)
}

fn decrypt_outcome(r: &Result<Result<String, StatusCode>, PanicInfo>) -> String {
    match r {
        Ok(Ok(_)) => "ok".into(),
        Ok(Err(s)) => format!("err:{}", status_name(*s)),
        Err(_) => "panic".into(),
    }
}

fn c16_case(case: &Value, keys: &C16Keys, rep: &mut Report) {
    let kind = case["kind"].as_str().unwrap_or("");
    let id = keys.get(case["bits"].as_u64().unwrap_or(2048));
    let bits = id.bits;
    let ks = bits as usize / 8;
    let nonce = hexs(&case["nonce_hex"]);
    match kind {
        "token" => {
            let policy = policy_of(case["policy"].as_str().unwrap_or(""));
            let pw = String::from_utf8(hexs(&case["password_hex"])).unwrap_or_default();
            let class = case["class"].as_str().unwrap_or("token").to_string();
            let utp = UserTokenPolicy {
                policy_id: UAString::from("x"),
                token_type: UserTokenType::UserName,
                issued_token_type: UAString::null(),
                issuer_endpoint_url: UAString::null(),
                security_policy_uri: UAString::from(policy.to_uri()),
            };
            let cert = Some(id.cert.clone());
            let r = catch(|| {
                let tok = make_user_name_identity_token(SecurityPolicy::None, &utp, &nonce, &cert, "user", &pw)?;
                decrypt_user_identity_token_password(&tok, &nonce, &id.key)
            });
            rep.case(&class);
            rep.count("token_wrapper_roundtrips", 1);
            match r {
                Err(p) => rep.violation(format!("token-roundtrip|{}", p.signature()),
                    format!("identity token round trip panicked: {} at {}:{}", p.msg, p.file, p.line), case.clone()),
                Ok(Err(s)) => {
                    let alg = make_user_name_identity_token(SecurityPolicy::None, &utp, &nonce, &cert, "user", &pw)
                        .map(|t| t.encryption_algorithm.as_ref().to_string()).unwrap_or_default();
                    rep.violation(format!("token-roundtrip|failed|{}", case["policy"].as_str().unwrap_or("")),
                        format!("token made by make_user_name_identity_token for this policy (encrypted with {:?}, labelled encryptionAlgorithm={:?}) is refused by decrypt_user_identity_token_password with the matching key and nonce: {}",
                            policy.asymmetric_encryption_padding(), alg, s), case.clone())
                }
                Ok(Ok(got)) => {
                    if got != pw {
                        rep.violation("token-roundtrip|wrong-password", format!("got {:?} expected {:?}", got, pw), case.clone());
                    }
                }
            }
        }
        "roundtrip" => {
            let pad_name = case["padding"].as_str().unwrap_or("pkcs1").to_string();
            let padding = padding_of(&pad_name);
            let blk = ks - overhead_of(&pad_name);
            let pw_bytes = hexs(&case["password_hex"]);
            let pw = String::from_utf8(pw_bytes.clone()).unwrap_or_default();
            let pt = 4 + pw_bytes.len() + nonce.len();
            let nblocks = (pt + blk - 1) / blk;
            let delta = match pt % blk {
                0 => "0",
                1 => "+1",
                x if x == blk - 1 => "-1",
                _ => "x",
            };
            let class = format!("rt|{}|{}|blocks{}|d{}|pw:{}|n{}", bits, pad_name, nblocks.min(5), delta,
                pw_style(&pw_bytes), len_class(nonce.len()));
            let enc = catch(|| legacy_password_encrypt(&pw, &nonce, &id.cert, padding));
            rep.case(&class);
            rep.count("encryptions", 1);
            let secret = match enc {
                Err(p) => {
                    rep.violation(format!("encrypt|{}", p.signature()),
                        format!("legacy_password_encrypt panicked: {} at {}:{}", p.msg, p.file, p.line), case.clone());
                    return;
                }
                Ok(Err(s)) => {
                    rep.violation(format!("roundtrip|encrypt-failed|{}|{}", pad_name, if nblocks > 1 { "multi-block" } else { "single-block" }),
                        format!("encrypt returned {}", s), case.clone());
                    return;
                }
                Ok(Ok(s)) => s,
            };
            rep.count("cipher_blocks", nblocks as u64);
            let dec = catch(|| legacy_password_decrypt(&secret, &nonce, &id.key, padding));
            rep.count("decryptions", 1);
            rep.count(&format!("decrypt_{}", decrypt_outcome(&dec).split(':').next().unwrap_or("")), 1);
            let shape = if nblocks > 1 { "multi-block" } else { "single-block" };
            match dec {
                Err(p) => rep.violation(format!("roundtrip|{}", p.signature()),
                    format!("decrypt of a fresh ciphertext panicked: {} at {}:{}", p.msg, p.file, p.line), case.clone()),
                Ok(Err(s)) => rep.violation(format!("roundtrip|decrypt-failed|{}|{}", pad_name, shape),
                    format!("decrypt with the same nonce returned {} (password {} bytes, nonce {} bytes, {} blocks)", s, pw_bytes.len(), nonce.len(), nblocks), case.clone()),
                Ok(Ok(got)) => {
                    if got != pw {
                        rep.violation(format!("roundtrip|wrong-password|{}|{}", pad_name, shape),
                            format!("got {} bytes, expected {} bytes", got.len(), pw.len()), case.clone());
                    }
                }
            }
            // the same ciphertext under other nonces
            let mut body = pw_bytes.clone();
            body.extend_from_slice(&nonce);
            if let Some(list) = case["wrong_nonces"].as_array() {
                for m in list {
                    let m = hexs(m);
                    if m == nonce {
                        continue;
                    }
                    let rel = if m.len() == nonce.len() { "same-length" } else if m.len() < nonce.len() { "shorter" } else { "longer" };
                    let ambiguous = body.ends_with(&m);
                    let one_byte = m.len() == nonce.len() && m.iter().zip(nonce.iter()).filter(|(a, b)| a != b).count() == 1;
                    let wclass = format!("wn|{}|{}|{}|{}", pad_name, rel,
                        if ambiguous { "suffix-of-plaintext" } else if one_byte { "one-byte" } else { "other" }, shape);
                    let r = catch(|| legacy_password_decrypt(&secret, &m, &id.key, padding));
                    rep.case(&wclass);
                    rep.count("wrong_nonce_decryptions", 1);
                    if ambiguous {
                        rep.count("wrong_nonce_is_suffix_of_plaintext", 1);
                    }
                    let mut min = case.clone();
                    min["wrong_nonces"] = json!([hex(&m)]);
                    min["ct_ops"] = json!([]);
                    match r {
                        Err(p) => {
                            // same root causes as for crafted plaintexts: name them by what the plaintext lacks
                            let root = if pt < m.len() {
                                "plaintext-shorter-than-nonce"
                            } else if pt < 4 + m.len() {
                                "nonce-would-start-inside-length-prefix"
                            } else {
                                "plaintext-has-room-for-nonce"
                            };
                            rep.violation(format!("decrypt-panic|{}|{}", root, p.signature()),
                                format!("ciphertext of a {}-byte password made for a {}-byte nonce, decrypted under a {}-byte nonce ({}): {} at {}:{}",
                                    pw_bytes.len(), nonce.len(), m.len(), rel, p.msg, p.file, p.line), min)
                        }
                        Ok(Ok(got)) => {
                            // (password', nonce') with password' ++ nonce' == password ++ nonce is the same
                            // plaintext, so the format itself cannot tell them apart; anything else is a break
                            let consistent = ambiguous && got.as_bytes() == &body[..body.len() - m.len()];
                            if !consistent {
                                rep.violation(format!("wrong-nonce-accepted|{}", rel),
                                    format!("ciphertext made for nonce {} decrypted under nonce {} to {} bytes", hex(&nonce), hex(&m), got.len()), min);
                            } else {
                                rep.count("suffix_nonce_accepted_consistently", 1);
                            }
                        }
                        Ok(Err(_)) => {}
                    }
                }
            }
            // tampered ciphertexts: the only demand is an answer instead of a panic
            let ct = secret.as_ref().to_vec();
            if let Some(ops) = case["ct_ops"].as_array() {
                for op in ops {
                    let op = op.as_str().unwrap_or("");
                    let mut c = ct.clone();
                    let opname = op.split(':').next().unwrap_or("").to_string();
                    if !apply_ct_op(&mut c, op, ks) {
                        continue;
                    }
                    let multiple = c.len() % ks == 0;
                    let oclass = format!("ctop|{}|{}|{}|{}", bits, pad_name, opname, shape);
                    let bs = ByteString::from(c);
                    let r = catch(|| legacy_password_decrypt(&bs, &nonce, &id.key, padding));
                    rep.case(&oclass);
                    rep.count("tampered_ciphertext_decryptions", 1);
                    rep.count(&format!("tampered_{}", decrypt_outcome(&r).split(':').next().unwrap_or("")), 1);
                    if let Err(p) = r {
                        let mut min = case.clone();
                        min["wrong_nonces"] = json!([]);
                        min["ct_ops"] = json!([op]);
                        rep.violation(format!("decrypt-panic|{}|{}", if multiple { "ciphertext-whole-blocks" } else { "ciphertext-length-not-multiple-of-key-size" }, p.signature()),
                            format!("ciphertext after '{}' ({} bytes, key {} bytes): {} at {}:{}", op, bs.as_ref().len(), ks, p.msg, p.file, p.line), min);
                    }
                }
            }
        }
        "raw" => {
            let pad_name = case["padding"].as_str().unwrap_or("pkcs1").to_string();
            let padding = padding_of(&pad_name);
            let bs = if case["ct_hex"].is_null() { ByteString::null() } else { ByteString::from(hexs(&case["ct_hex"])) };
            let len = bs.as_ref().len();
            let multiple = len % ks == 0;
            let class = format!("raw|{}|{}|{}|{}|n{}", bits, pad_name,
                if bs.is_null() { "null".to_string() } else if len == 0 { "empty".into() } else if multiple { format!("{}blocks", len / ks) } else if len < ks { "partial-block".into() } else { "blocks+partial".into() },
                if len > 0 && bs.as_ref().iter().all(|b| *b == bs.as_ref()[0]) { "const" } else { "rand" }, len_class(nonce.len()));
            let r = catch(|| legacy_password_decrypt(&bs, &nonce, &id.key, padding));
            rep.case(&class);
            rep.count("raw_ciphertext_decryptions", 1);
            rep.count(&format!("raw_{}", decrypt_outcome(&r).split(':').next().unwrap_or("")), 1);
            match r {
                Err(p) => rep.violation(format!("decrypt-panic|{}|{}", if multiple { "ciphertext-whole-blocks" } else { "ciphertext-length-not-multiple-of-key-size" }, p.signature()),
                    format!("arbitrary byte string of {} bytes (key {} bytes, {}) as ciphertext: {} at {}:{}", len, ks, pad_name, p.msg, p.file, p.line), case.clone()),
                Ok(Ok(got)) => {
                    // not produced by any encryption; a success is only tolerable if it at least binds the nonce,
                    // which for bytes drawn at random it cannot
                    rep.violation("garbage-accepted", format!("arbitrary bytes decrypted to a password of {} bytes", got.len()), case.clone());
                }
                Ok(Err(_)) => {}
            }
        }
        "crafted" => {
            let pad_name = case["padding"].as_str().unwrap_or("pkcs1").to_string();
            let padding = padding_of(&pad_name);
            let pieces: Vec<Vec<u8>> = case["pieces_hex"].as_array().map(|a| a.iter().map(hexs).collect()).unwrap_or_default();
            let empty_first = case["empty_block_prefix"].as_bool().unwrap_or(false);
            let regular = pieces.len() == 1 && !empty_first;
            let (ct, plain) = match encrypt_pieces(id, &pad_name, &pieces, empty_first) {
                Ok(x) => x,
                Err(e) => {
                    rep.inconclusive(e);
                    return;
                }
            };
            let m = &nonce;
            let (wf, room, tail, root) = plaintext_shape(&plain, m);
            let class = format!("crafted|{}|{}|{}|{}|n{}|{}", bits, pad_name, root,
                if regular { "regular" } else { "irregular" }, len_class(m.len()),
                case["class"].as_str().unwrap_or("").rsplit('|').next().unwrap_or(""));
            let bs = ByteString::from(ct);
            let r = catch(|| legacy_password_decrypt(&bs, m, &id.key, padding));
            rep.case(&class);
            rep.count("crafted_plaintext_decryptions", 1);
            rep.count(&format!("crafted_{}", decrypt_outcome(&r).split(':').next().unwrap_or("")), 1);
            match r {
                Err(p) => rep.violation(format!("decrypt-panic|{}|{}", root, p.signature()),
                    format!("crafted plaintext {} ({} bytes) under a nonce of {} bytes: {} at {}:{}", hex(&plain[..plain.len().min(40)]), plain.len(), m.len(), p.msg, p.file, p.line), case.clone()),
                Ok(Ok(got)) => {
                    if !room {
                        rep.violation("accepted-plaintext-without-room-for-nonce",
                            format!("plaintext of {} bytes cannot hold a prefix and a nonce of {} bytes, yet decrypt returned a password of {} bytes", plain.len(), m.len(), got.len()), case.clone());
                    } else if !tail {
                        rep.violation("wrong-nonce-accepted|crafted", format!("plaintext does not end with the nonce, decrypt returned {} bytes", got.len()), case.clone());
                    } else if got.as_bytes() != &plain[4..plain.len() - m.len()] {
                        rep.violation("crafted|wrong-password", format!("returned {:?}", got), case.clone());
                    } else if !wf {
                        rep.count("inconsistent_length_prefix_accepted", 1);
                    }
                }
                Ok(Err(s)) => {
                    if wf && tail && regular && std::str::from_utf8(&plain[4..plain.len() - m.len()]).is_ok() {
                        rep.violation(format!("roundtrip|decrypt-failed|{}|crafted-wellformed", pad_name),
                            format!("a well formed plaintext (what a client produces) was refused: {}", s), case.clone());
                    }
                }
            }
        }
        _ => rep.inconclusive(format!("unknown C16 case kind {:?}", kind)),
    }
}

// ---------------------------------------------------------------------------------------------
// C16 through the server-side entry point: ServerState::authenticate_endpoint
// ---------------------------------------------------------------------------------------------
//
// The same byte strings (fresh, tampered, raw and crafted ciphertexts, plain passwords) are put into the password
// field of a UserNameIdentityToken and handed to real servers built by Server::new: one per private key size, and
// one whose PKI directory is empty, i.e. a server without an application instance certificate and private key
// (ServerState::server_pkey == None), which is a configuration the repository supports for None endpoints.

// Part 7 algorithm URIs (the repository keeps its copies private)
const ENC_RSA_15: &str = "http://www.w3.org/2001/04/xmlenc#rsa-1_5";
const ENC_RSA_OAEP: &str = "http://www.w3.org/2001/04/xmlenc#rsa-oaep";
const ENC_RSA_OAEP_SHA256: &str = "http://opcfoundation.org/UA/security/rsa-oaep-sha2-256";
const ENC_UNKNOWN: &str = "http://verif.example/unknown-encryption";

const SRV_HOST: &str = "127.0.0.1";
const SRV_PORT: u16 = 4855;
/// which private key the server under test owns
const SRV_KEYS: [&str; 4] = ["none", "1024", "2048", "4096"];
/// (user token id, user name, password); "secret" is also the password inside the well formed crafted plaintexts
const SRV_USERS: [(&str, &str, &str); 3] = [("u_c16", "c16user", "secret"), ("u_c16empty", "c16empty", ""), ("u_c16uni", "c16uni", "P\u{e4}ssw\u{f6}rd-\u{20ac}-\u{1f511}")];
/// None/None endpoints that differ in the password security policy, i.e. in the policy id a token has to carry
const SRV_ENDPOINTS: [(&str, Option<&str>); 3] = [("unset", None), ("rsa15", Some("Basic128Rsa15")), ("oaep", Some("Basic256Sha256"))];
/// (name, encryptionAlgorithm of the token, padding it names)
const SRV_ALGS: [(&str, Option<&str>, Option<&str>); 6] = [
    ("null", None, None),
    ("empty", Some(""), None),
    ("rsa15", Some(ENC_RSA_15), Some("pkcs1")),
    ("oaep", Some(ENC_RSA_OAEP), Some("oaep-sha1")),
    ("oaep256", Some(ENC_RSA_OAEP_SHA256), Some("oaep-sha256")),
    ("unknown", Some(ENC_UNKNOWN), None),
];

fn alg_for_padding(pad: &str) -> &'static str {
    match pad {
        "pkcs1" => "rsa15",
        "oaep-sha1" => "oaep",
        _ => "oaep256",
    }
}

fn srv_url(endpoint: &str) -> String {
    format!("opc.tcp://{}:{}/{}", SRV_HOST, SRV_PORT, endpoint)
}

struct C16Server {
    _server: Server,
    state: Arc<RwLock<ServerState>>,
    dir: PathBuf,
    /// user name policy id the server advertises, per endpoint
    policy_ids: BTreeMap<String, UAString>,
}

impl Drop for C16Server {
    fn drop(&mut self) {
        let _ = std::fs::remove_dir_all(&self.dir);
    }
}

impl C16Server {
    fn new(key: &str, keys: &C16Keys) -> Result<C16Server, String> {
        let dir = pki::scratch_dir(&format!("c16srv_{}", key));
        let pki_dir = dir.join("pki");
        std::fs::create_dir_all(&pki_dir).map_err(|e| e.to_string())?;
        if key != "none" {
            let id = keys.get(key.parse::<u64>().map_err(|_| format!("unknown server key {:?}", key))?);
            let store = CertificateStore::new(&pki_dir);
            store.ensure_pki_path().map_err(|e| format!("pki path: {}", e))?;
            for p in [store.own_certificate_path(), store.own_private_key_path()] {
                if let Some(parent) = p.parent() {
                    std::fs::create_dir_all(parent).map_err(|e| e.to_string())?;
                }
            }
            std::fs::write(store.own_certificate_path(), &id.der).map_err(|e| e.to_string())?;
            std::fs::write(store.own_private_key_path(), id.key.private_key_to_pem().map_err(|_| "key pem")?).map_err(|e| e.to_string())?;
        }
        let mut user_tokens = BTreeMap::new();
        for (id, user, pass) in SRV_USERS.iter() {
            user_tokens.insert(id.to_string(), ServerUserToken::user_pass(*user, *pass));
        }
        let ids: Vec<String> = SRV_USERS.iter().map(|u| u.0.to_string()).collect();
        let mut endpoints = BTreeMap::new();
        for (name, pwpol) in SRV_ENDPOINTS.iter() {
            let mut e = ServerEndpoint::new_none(format!("/{}", name), &ids);
            if let Some(p) = pwpol {
                e.password_security_policy = Some(p.to_string());
            }
            endpoints.insert(name.to_string(), e);
        }
        let mut config = ServerConfig::new("verif-c16", user_tokens, endpoints);
        config.pki_dir = pki_dir;
        config.create_sample_keypair = false;
        config.discovery_server_url = None;
        config.tcp_config.host = SRV_HOST.into();
        config.tcp_config.port = SRV_PORT;
        config.discovery_urls = vec![format!("opc.tcp://{}:{}/", SRV_HOST, SRV_PORT)];
        {
            use opcua::core::config::Config;
            if !config.is_valid() {
                return Err(format!("generated server configuration (key {}) is not valid", key));
            }
        }
        let server = catch(|| Server::new(config)).map_err(|p| format!("Server::new panicked: {}", p.msg))?;
        let state = server.server_state();
        let mut policy_ids = BTreeMap::new();
        {
            let st = state.read();
            if st.server_pkey.is_some() != (key != "none") {
                return Err(format!("server meant to have key {:?} has server_pkey {}", key, if st.server_pkey.is_some() { "Some" } else { "None" }));
            }
            let descriptions = st.endpoints(&UAString::from(srv_url("")), &None).unwrap_or_default();
            for (name, _) in SRV_ENDPOINTS.iter() {
                let suffix = format!("/{}", name);
                let pid = descriptions
                    .iter()
                    .find(|d| d.endpoint_url.as_ref().ends_with(&suffix))
                    .and_then(|d| d.find_policy(UserTokenType::UserName))
                    .map(|p| p.policy_id.clone());
                match pid {
                    Some(pid) => {
                        policy_ids.insert(name.to_string(), pid);
                    }
                    None => return Err(format!("server (key {}) does not advertise a user name policy on endpoint {}", key, name)),
                }
            }
        }
        Ok(C16Server { _server: server, state, dir, policy_ids })
    }
}

/// The servers of this process, built when a case first asks for them
struct C16Servers {
    map: BTreeMap<String, Result<C16Server, String>>,
}

impl C16Servers {
    fn new() -> C16Servers {
        C16Servers { map: BTreeMap::new() }
    }
    fn get(&mut self, key: &str, keys: &C16Keys) -> Result<&C16Server, String> {
        if !self.map.contains_key(key) {
            self.map.insert(key.to_string(), C16Server::new(key, keys));
        }
        match self.map.get(key).unwrap() {
            Ok(s) => Ok(s),
            Err(e) => Err(e.clone()),
        }
    }
}

fn srv_case(key: &str, bits: u32, endpoint: &str, user: &str, alg: &str, to: &str, nonce: Option<&[u8]>, payload: Value, shape: &str) -> Value {
    json!({"kind": "server", "key": key, "bits": bits, "endpoint": endpoint, "user": user, "alg": alg, "to": to,
        "nonce_hex": nonce.map(hex), "payload": payload, "class": format!("server|{}|{}|{}", key, alg, shape)})
}

fn enc_payload(password: &[u8], enc_nonce: &[u8], padding: &str, ct_op: Option<&str>) -> Value {
    json!({"p": "encrypt", "password_hex": hex(password), "enc_nonce_hex": hex(enc_nonce), "padding": padding, "ct_op": ct_op})
}

fn bytes_payload(b: Option<&[u8]>) -> Value {
    json!({"p": "bytes", "hex": b.map(hex)})
}

/// The fixed part of the server workload. Every hostile input of the helper-level grid is presented to the server that
/// owns the matching key and to the server without a key; then, per server, every encryption algorithm label is
/// combined with plain, well made, mislabelled, foreign and garbage passwords under a null and a 32-byte nonce.
fn c16_server_grid(rng: &mut Rng) -> Vec<Value> {
    let mut out = Vec::new();
    for b in BITS {
        for p in PADDINGS {
            for g in c16_grid(b, p.0, rng) {
                let nonce = hexs(&g["nonce_hex"]);
                let name = g["class"].as_str().unwrap_or("").rsplit('|').next().unwrap_or("").to_string();
                let alg = alg_for_padding(p.0);
                let shape = format!("{}-{}", g["kind"].as_str().unwrap_or(""), name);
                out.push(srv_case(&b.to_string(), b, "unset", "c16user", alg, "server", Some(&nonce), g.clone(), &shape));
                out.push(srv_case("none", b, "unset", "c16user", alg, "other", Some(&nonce), g.clone(), &shape));
            }
        }
    }
    let n32 = rng.bytes(32);
    let other32 = {
        let mut v = n32.clone();
        v[31] ^= 0x01;
        v
    };
    for key in SRV_KEYS {
        let bits: u32 = key.parse().unwrap_or(2048);
        let ks = bits as usize / 8;
        let to_own = if key == "none" { "other" } else { "server" };
        for (endpoint, _) in SRV_ENDPOINTS {
            for (alg, _, alg_pad) in SRV_ALGS {
                let pad = alg_pad.unwrap_or("oaep-sha1");
                for nonce in [None, Some(n32.as_slice())] {
                    let nb: &[u8] = nonce.unwrap_or(&[]);
                    let wrong_nonce: &[u8] = if nonce.is_some() { &other32 } else { &n32 };
                    let mut add = |to: &str, payload: Value, shape: &str| out.push(srv_case(key, bits, endpoint, "c16user", alg, to, nonce, payload, shape));
                    add(to_own, bytes_payload(None), "bytes-null");
                    add(to_own, bytes_payload(Some(&[])), "bytes-empty");
                    add(to_own, bytes_payload(Some(b"secret")), "bytes-right-password");
                    add(to_own, bytes_payload(Some(b"Secret")), "bytes-wrong-password");
                    add(to_own, bytes_payload(Some(&[0xff, 0xfe, 0x80])), "bytes-not-utf8");
                    add(to_own, bytes_payload(Some(&vec![0x5au8; 100])), "bytes-100");
                    add(to_own, bytes_payload(Some(&rng.bytes(ks))), "bytes-one-block");
                    for p in PADDINGS {
                        add(to_own, enc_payload(b"secret", nb, p.0, None), if p.0 == pad { "enc-right" } else { "enc-right-other-padding" });
                    }
                    add(to_own, enc_payload(b"secret", wrong_nonce, pad, None), "enc-wrong-nonce");
                    add(to_own, enc_payload(b"Secret", nb, pad, None), "enc-wrong-password");
                    add("other", enc_payload(b"secret", nb, pad, None), "enc-other-certificate");
                    add(to_own, enc_payload(b"secret", nb, pad, Some("drop-last-byte")), "enc-tampered");
                }
            }
        }
        // the other users, an unknown one and a null user name
        for (alg, _, alg_pad) in SRV_ALGS {
            let pad = alg_pad.unwrap_or("pkcs1");
            for user in ["c16empty", "c16uni", "mallory", "<null>"] {
                let right = SRV_USERS.iter().find(|u| u.1 == user).map(|u| u.2).unwrap_or("secret");
                let mut add = |payload: Value, shape: &str| out.push(srv_case(key, bits, "unset", user, alg, to_own, Some(&n32), payload, shape));
                add(bytes_payload(Some(right.as_bytes())), "user-bytes-right-password");
                add(enc_payload(right.as_bytes(), &n32, pad, None), "user-enc-right");
                add(enc_payload(b"not-the-password", &n32, pad, None), "user-enc-wrong-password");
            }
        }
    }
    out
}

fn c16_server_random_case(rng: &mut Rng) -> Value {
    let key = *rng.pick(&["none", "none", "1024", "1024", "2048", "2048", "4096"]);
    let bits: u32 = key.parse().unwrap_or(*rng.pick(&[1024u32, 2048, 2048, 4096]));
    let ks = bits as usize / 8;
    let endpoint = rng.pick(&SRV_ENDPOINTS).0;
    let user = *rng.pick(&["c16user", "c16user", "c16empty", "c16uni", "c16uni", "mallory"]);
    let right: &str = SRV_USERS.iter().find(|u| u.1 == user).map(|u| u.2).unwrap_or("secret");
    let alg = match rng.below(10) {
        0 => SRV_ALGS[0],
        1 => SRV_ALGS[1],
        2 => SRV_ALGS[5],
        _ => SRV_ALGS[2 + rng.usize(3)],
    };
    let pad = if rng.chance(3, 4) { alg.2.unwrap_or(PADDINGS[rng.usize(3)].0) } else { PADDINGS[rng.usize(3)].0 };
    let nonce: Option<Vec<u8>> = if rng.chance(1, 10) {
        None
    } else {
        let nl = nonce_len_gen(rng);
        Some(nonce_gen(rng, nl))
    };
    let nb: Vec<u8> = nonce.clone().unwrap_or_default();
    let to = if key == "none" || rng.chance(1, 6) { "other" } else { "server" };
    let password: Vec<u8> = match rng.below(8) {
        0..=4 => right.as_bytes().to_vec(),
        5 => {
            let n = rng.usize(40);
            let st = rng.below(5);
            password_bytes(rng, n, st).into_bytes()
        }
        6 => {
            // aimed at a block boundary of the plaintext
            let blk = ks - overhead_of(pad);
            let k = 1 + rng.usize(2);
            let total = (k * blk) as i64 + rng.range(-1, 1);
            let n = (total - 4 - nb.len() as i64).max(0) as usize;
            password_bytes(rng, n, 0).into_bytes()
        }
        _ => format!("{}x", right).into_bytes(),
    };
    let (payload, shape): (Value, &str) = match rng.below(20) {
        0..=8 => {
            let enc_nonce = if rng.chance(3, 5) {
                nb.clone()
            } else {
                let w = wrong_nonces(rng, &password, &nb, false);
                w[rng.usize(w.len())].clone()
            };
            let op: Option<String> = if rng.chance(2, 3) {
                None
            } else {
                Some(match rng.below(9) {
                    0 => "drop-first-byte".to_string(),
                    1 => "drop-last-block".to_string(),
                    2 => "dup-last-block".to_string(),
                    3 => "swap-first-two".to_string(),
                    4 => "zero-last-block".to_string(),
                    5 => "ff-last-block".to_string(),
                    6 => "drop-last-byte".to_string(),
                    7 => "append-byte".to_string(),
                    _ => format!("flip:{}:{}", rng.usize(4 * ks), 1u8 << rng.below(8)),
                })
            };
            (enc_payload(&password, &enc_nonce, pad, op.as_deref()), "random-enc")
        }
        9..=11 => {
            let l = match rng.below(8) {
                0 => 0,
                1 => 1,
                2 => ks - 1,
                3 => ks,
                4 => ks + 1,
                5 => 2 * ks,
                _ => rng.usize(3 * ks + 8),
            };
            let b = match rng.below(4) {
                0 => vec![0u8; l],
                1 => vec![0xffu8; l],
                _ => rng.bytes(l),
            };
            (bytes_payload(Some(&b)), "random-bytes")
        }
        12..=14 => (if rng.chance(1, 8) { bytes_payload(None) } else { bytes_payload(Some(&password)) }, "random-plain"),
        _ => {
            // a crafted plaintext: length prefix off, tail not the nonce, too short for the nonce
            let mut body = password.clone();
            match rng.below(6) {
                0 => body.extend_from_slice(&nb[..nb.len() / 2]),
                1 => {}
                _ => body.extend_from_slice(&nb),
            }
            let claimed: u32 = match rng.below(8) {
                0 => body.len().saturating_sub(1) as u32,
                1 => body.len() as u32 + 1,
                2 => 0,
                3 => u32::MAX,
                4 => body.len() as u32 + 4,
                _ => body.len() as u32,
            };
            let mut plain = claimed.to_le_bytes().to_vec();
            plain.extend_from_slice(&body);
            if rng.chance(1, 5) {
                let keep = 1 + rng.usize(plain.len().min(8));
                plain.truncate(keep);
            }
            let pieces: Vec<Vec<u8>> = if plain.len() > 2 && rng.chance(1, 5) {
                let cut = 1 + rng.usize(plain.len() - 1);
                vec![plain[..cut].to_vec(), plain[cut..].to_vec()]
            } else {
                vec![plain]
            };
            (json!({"kind": "crafted", "padding": pad, "pieces_hex": pieces.iter().map(|p| hex(p)).collect::<Vec<_>>(), "empty_block_prefix": false}), "random-crafted")
        }
    };
    srv_case(key, bits, endpoint, user, alg.0, to, nonce.as_deref(), payload, shape)
}

/// What was put into the password field of the token, and what the harness knows about it
struct SrvPayload {
    bytes: ByteString,
    /// the plaintext the holder of the target key recovers under `padding` (None: not made by encryption)
    plain: Option<Vec<u8>>,
    padding: Option<String>,
    regular: bool,
    tampered: bool,
    class: String,
}

fn srv_payload(p: &Value, target: &Ident, right: Option<&str>, nonce: &[u8]) -> Result<SrvPayload, String> {
    let ks = target.bits as usize / 8;
    let size_class = |bs: &ByteString| {
        let len = bs.as_ref().len();
        if bs.is_null() {
            "null".to_string()
        } else if len == 0 {
            "empty".into()
        } else if len % ks == 0 {
            format!("{}blocks", (len / ks).min(4))
        } else if len < ks {
            "partial-block".into()
        } else {
            "blocks+partial".into()
        }
    };
    let kind = p["p"].as_str().or_else(|| p["kind"].as_str()).unwrap_or("");
    match kind {
        "bytes" | "raw" => {
            let field = if kind == "bytes" { &p["hex"] } else { &p["ct_hex"] };
            let bytes = if field.is_null() { ByteString::null() } else { ByteString::from(hexs(field)) };
            let text = match std::str::from_utf8(bytes.as_ref()) {
                Ok(t) if Some(t) == right => "right-password",
                Ok(_) => "utf8",
                Err(_) => "not-utf8",
            };
            let class = format!("bytes|{}|{}", size_class(&bytes), text);
            Ok(SrvPayload { bytes, plain: None, padding: None, regular: true, tampered: false, class })
        }
        "encrypt" => {
            let pad_name = p["padding"].as_str().unwrap_or("pkcs1").to_string();
            let pw_bytes = hexs(&p["password_hex"]);
            let pw = String::from_utf8(pw_bytes.clone()).map_err(|_| "password of an encrypt payload is not UTF-8".to_string())?;
            let enc_nonce = hexs(&p["enc_nonce_hex"]);
            let secret = match catch(|| legacy_password_encrypt(&pw, &enc_nonce, &target.cert, padding_of(&pad_name))) {
                Ok(Ok(s)) => s,
                Ok(Err(s)) => return Err(format!("legacy_password_encrypt failed: {}", s)),
                Err(pi) => return Err(format!("legacy_password_encrypt panicked: {}", pi.msg)),
            };
            let mut plain = ((pw_bytes.len() + enc_nonce.len()) as u32).to_le_bytes().to_vec();
            plain.extend_from_slice(&pw_bytes);
            plain.extend_from_slice(&enc_nonce);
            let mut ct = secret.as_ref().to_vec();
            let nblocks = ct.len() / ks;
            let op = p["ct_op"].as_str();
            if let Some(op) = op {
                if !apply_ct_op(&mut ct, op, ks) {
                    return Err(format!("unknown ciphertext operation {:?}", op));
                }
            }
            let rel = if enc_nonce == nonce {
                "same-nonce"
            } else if plain.len() >= 4 + nonce.len() && plain.ends_with(nonce) {
                "suffix-nonce"
            } else if enc_nonce.len() == nonce.len() {
                "other-nonce-same-length"
            } else if enc_nonce.len() < nonce.len() {
                "shorter-nonce"
            } else {
                "longer-nonce"
            };
            let class = format!("enc|{}|pw:{}|{}|op:{}|blocks{}", pad_name,
                if Some(pw.as_str()) == right { "right".to_string() } else { pw_style(&pw_bytes).to_string() }, rel,
                op.map(|o| o.split(':').next().unwrap_or("")).unwrap_or("none"), nblocks.min(4));
            Ok(SrvPayload { bytes: ByteString::from(ct), plain: Some(plain), padding: Some(pad_name), regular: true, tampered: op.is_some(), class })
        }
        "crafted" => {
            let pad_name = p["padding"].as_str().unwrap_or("pkcs1").to_string();
            let pieces: Vec<Vec<u8>> = p["pieces_hex"].as_array().map(|a| a.iter().map(hexs).collect()).unwrap_or_default();
            let empty_first = p["empty_block_prefix"].as_bool().unwrap_or(false);
            let regular = pieces.len() == 1 && !empty_first;
            let (ct, plain) = encrypt_pieces(target, &pad_name, &pieces, empty_first)?;
            let (_, _, _, root) = plaintext_shape(&plain, nonce);
            let class = format!("crafted|{}|{}|{}", pad_name, root, if regular { "regular" } else { "irregular" });
            Ok(SrvPayload { bytes: ByteString::from(ct), plain: Some(plain), padding: Some(pad_name), regular, tampered: false, class })
        }
        other => Err(format!("unknown payload kind {:?}", other)),
    }
}

fn c16_server_case(case: &Value, keys: &C16Keys, servers: &mut C16Servers, rep: &mut Report) {
    let key = case["key"].as_str().unwrap_or("none").to_string();
    let has_key = key != "none";
    let bits = case["bits"].as_u64().unwrap_or(2048);
    let endpoint = case["endpoint"].as_str().unwrap_or("unset").to_string();
    let user = case["user"].as_str().unwrap_or("c16user").to_string();
    let alg_name = case["alg"].as_str().unwrap_or("null").to_string();
    let to_server = has_key && case["to"].as_str() == Some("server");
    let nonce_null = case["nonce_hex"].is_null();
    let nonce = if nonce_null { Vec::new() } else { hexs(&case["nonce_hex"]) };
    let (alg_uri, alg_pad) = match SRV_ALGS.iter().find(|a| a.0 == alg_name) {
        Some(a) => (a.1, a.2),
        None => {
            rep.inconclusive(format!("unknown algorithm name {:?} in a server case", alg_name));
            return;
        }
    };
    let srv = match servers.get(&key, keys) {
        Ok(s) => s,
        Err(e) => {
            rep.inconclusive(format!("cannot set the server up: {}", e));
            return;
        }
    };
    // the certificate the client encrypts for: the server's own, or one whose key the server does not have
    let target = if to_server { keys.get(bits) } else if has_key { keys.other(bits) } else { keys.get(bits) };
    let configured: Option<&(&str, &str, &str)> = SRV_USERS.iter().find(|u| u.1 == user);
    let right: Option<&str> = configured.map(|u| u.2);
    let payload = match srv_payload(&case["payload"], target, right, &nonce) {
        Ok(p) => p,
        Err(e) => {
            rep.inconclusive(format!("cannot build the password field of a server case: {}", e));
            return;
        }
    };
    let policy_id = srv.policy_ids.get(&endpoint).cloned().unwrap_or_else(UAString::null);
    let token = UserNameIdentityToken {
        policy_id,
        user_name: if user == "<null>" { UAString::null() } else { UAString::from(user.as_str()) },
        password: payload.bytes.clone(),
        encryption_algorithm: match alg_uri {
            None => UAString::null(),
            Some(u) => UAString::from(u),
        },
    };
    let token = ExtensionObject::from_encodable(ObjectId::UserNameIdentityToken_Encoding_DefaultBinary, &token);
    let request = ActivateSessionRequest {
        request_header: RequestHeader::dummy(),
        client_signature: SignatureData { algorithm: UAString::null(), signature: ByteString::null() },
        client_software_certificates: None,
        locale_ids: None,
        user_identity_token: token.clone(),
        user_token_signature: SignatureData { algorithm: UAString::null(), signature: ByteString::null() },
    };
    let server_nonce = if nonce_null { ByteString::null() } else { ByteString::from(nonce.clone()) };
    let url = srv_url(&endpoint);

    // the reference: which password a server that follows the property sees in this token, if any
    let (wf, room, tail, root) = match &payload.plain {
        Some(plain) => plaintext_shape(plain, &nonce),
        None => (false, false, false, "not-a-ciphertext"),
    };
    let body_is_right = match (&payload.plain, right) {
        (Some(plain), Some(r)) if room && tail => &plain[4..plain.len() - nonce.len()] == r.as_bytes(),
        _ => false,
    };
    // why Ok would be wrong (None = Ok is allowed)
    let deny: Option<&str> = if right.is_none() {
        Some("unknown-user")
    } else {
        match alg_name.as_str() {
            "null" | "empty" => {
                if payload.bytes.as_ref() == right.unwrap_or("").as_bytes() { None } else { Some("wrong-plain-password") }
            }
            "unknown" => Some("unknown-algorithm"),
            _ => {
                if !has_key {
                    Some("server-has-no-private-key")
                } else if payload.plain.is_none() {
                    Some("not-a-ciphertext")
                } else if !to_server {
                    Some("encrypted-for-another-certificate")
                } else if payload.padding.as_deref() != alg_pad {
                    Some("algorithm-names-another-padding")
                } else if !room {
                    Some("no-room-for-nonce")
                } else if !tail {
                    Some("encrypted-for-another-nonce")
                } else if !body_is_right {
                    Some("wrong-password")
                } else {
                    None
                }
            }
        }
    };
    // must Ok: what a client makes with the right credentials, untouched
    let must_ok = deny.is_none() && !payload.tampered && match alg_name.as_str() {
        "null" => !payload.bytes.is_null(),
        "empty" => false,
        _ => wf && payload.regular,
    };
    let tok_class = match alg_name.as_str() {
        "null" => "plain-password",
        "empty" => "algorithm-empty-string",
        _ => "algorithm-set",
    };
    let srv_class = if has_key { "server-with-key" } else { "server-without-key" };
    let class = format!("srv|key:{}|ep:{}|alg:{}|user:{}|{}|n{}|{}", key, endpoint, alg_name,
        match user.as_str() { "c16user" => "configured", "c16empty" => "empty-password", "c16uni" => "non-ascii-password", "<null>" => "null", _ => "unknown" },
        payload.class, if nonce_null { "null".to_string() } else { len_class(nonce.len()) },
        if to_server { "for-server-certificate" } else { "for-other-certificate" });

    let r = catch(|| {
        let st = srv.state.read();
        st.authenticate_endpoint(&request, &url, SecurityPolicy::None, MessageSecurityMode::None, &token, &server_nonce)
    });
    rep.case(&class);
    rep.count("server_authentications", 1);
    rep.count(&format!("server_authentications_{}", srv_class.trim_start_matches("server-").replace('-', "_")), 1);
    if !has_key && tok_class == "algorithm-set" {
        rep.count("server_without_key_given_encrypted_token", 1);
    }
    let describe = || {
        format!("server {} private key, endpoint /{} (None/None), user {:?}, encryptionAlgorithm {:?}, password field {} ({} bytes), server nonce {}",
            if has_key { format!("with its own {}-bit", key) } else { "without a".to_string() }, endpoint, user, alg_uri, payload.class,
            payload.bytes.as_ref().len(), if nonce_null { "null".to_string() } else { format!("{} bytes", nonce.len()) })
    };
    match r {
        Err(p) => {
            rep.count("server_panic", 1);
            let what = if !has_key {
                tok_class.to_string()
            } else {
                match alg_name.as_str() {
                    "null" | "empty" => tok_class.to_string(),
                    "unknown" => "unknown-algorithm".to_string(),
                    _ => match &payload.plain {
                        Some(_) if payload.tampered => "tampered-ciphertext".to_string(),
                        Some(_) if !to_server => "encrypted-for-another-certificate".to_string(),
                        Some(_) if payload.padding.as_deref() != alg_pad => "algorithm-names-another-padding".to_string(),
                        Some(_) => root.to_string(),
                        None => if payload.bytes.as_ref().len() % (bits as usize / 8) == 0 { "ciphertext-whole-blocks".to_string() } else { "ciphertext-length-not-multiple-of-key-size".to_string() },
                    },
                }
            };
            rep.violation(format!("authenticate-panic|{}|{}|{}", srv_class, what, p.signature()),
                format!("ServerState::authenticate_endpoint panicked instead of returning a status: {} at {}:{}; {}", p.msg, p.file, p.line, describe()), case.clone());
        }
        Ok(Ok(id)) => {
            rep.count("server_ok", 1);
            if let Some(why) = deny {
                rep.violation(format!("authenticate-accepted|{}|{}|{}", srv_class, tok_class, why),
                    format!("authenticate_endpoint returned Ok({:?}) although the token cannot carry the user's password ({}); {}", id, why, describe()), case.clone());
            } else if Some(id.as_str()) != configured.map(|u| u.0) {
                rep.violation(format!("authenticate-accepted|{}|{}|as-another-user", srv_class, tok_class),
                    format!("authenticate_endpoint returned Ok({:?}) for user {:?}; {}", id, user, describe()), case.clone());
            } else if alg_name == "empty" {
                rep.count("server_empty_algorithm_read_as_plain", 1);
            } else if !must_ok {
                rep.count("server_ok_not_demanded", 1);
            }
        }
        Ok(Err(s)) => {
            rep.count(&format!("server_err_{}", status_name(s)), 1);
            if must_ok {
                if alg_name == "null" {
                    // the plain text control: not this property's business, but without it nothing below means anything
                    rep.inconclusive(format!("server refuses the right plain text password with {}; {}", s, describe()));
                } else {
                    rep.violation(format!("authenticate-refused|valid-encrypted-password|{}|{}|{}", srv_class, alg_name, status_name(s)),
                        format!("a password encrypted for the server certificate and the presented nonce, labelled with the algorithm of its padding, was refused with {}; {}", s, describe()), case.clone());
                }
            }
        }
    }
}

pub fn c16(args: &Args, rep: &mut Report) {
    let mut ids = Vec::new();
    let mut others = Vec::new();
    for b in BITS {
        for (name, dst) in [("crA", &mut ids), ("crB", &mut others)] {
            match load_ident(name, b) {
                Ok(i) => dst.push(i),
                Err(e) => {
                    rep.inconclusive(e);
                    return;
                }
            }
        }
    }
    let keys = C16Keys { ids, others };
    let mut servers = C16Servers::new();
    let mut run = |case: &Value, rep: &mut Report| {
        if case["kind"].as_str() == Some("server") {
            c16_server_case(case, &keys, &mut servers, rep)
        } else {
            c16_case(case, &keys, rep)
        }
    };
    if let Some(path) = &args.replay {
        match read_replay(path) {
            Some(case) => {
                rep.begin_case(&case);
                run(&case, rep);
            }
            None => rep.inconclusive("cannot read replay file"),
        }
        return;
    }
    let mut rng = Rng::new(args.seed ^ 0xC16 ^ ((args.shard as u64) << 32));
    let mut cases: Vec<Value> = Vec::new();
    // fixed hostile grid, split over the shards; its random fill depends on the seed only
    let mut grng = Rng::new(args.seed ^ 0xC16_0000);
    let mut idx = 0usize;
    for b in BITS {
        for p in PADDINGS {
            for c in c16_grid(b, p.0, &mut grng) {
                if idx % args.shards == args.shard {
                    cases.push(c);
                }
                idx += 1;
            }
        }
    }
    let n = args.budget(2400, 36000);
    for _ in 0..n {
        cases.push(c16_random_case(&mut rng, args.thorough()));
    }
    // the same inputs through ServerState::authenticate_endpoint of servers with and without a private key:
    // a fixed grid split over the shards (a tenth of it in instrumented passes), then seeded random tokens
    let mut srng = Rng::new(args.seed ^ 0xC16_5E47);
    let stride = if instrumented().is_some() { 10 } else { 1 };
    for (i, c) in c16_server_grid(&mut srng).into_iter().enumerate() {
        if i % args.shards == args.shard && (i / args.shards) % stride == 0 {
            cases.push(c);
        }
    }
    let mut rng2 = Rng::new(args.seed ^ 0xC16_5E48 ^ ((args.shard as u64) << 32));
    let n = args.budget(3200, 48000);
    for _ in 0..n {
        cases.push(c16_server_random_case(&mut rng2));
    }
    for case in cases {
        rep.begin_case(&case);
        rep.sample(case.clone());
        run(&case, rep);
    }
}

// ---------------------------------------------------------------------------------------------
// C17 signature data
// ---------------------------------------------------------------------------------------------

const SIGN_POLICIES: [&str; 5] = ["Basic128Rsa15", "Basic256", "Basic256Sha256", "Aes128Sha256RsaOaep", "Aes256Sha256RsaPss"];

fn policy_of(name: &str) -> SecurityPolicy {
    match name {
        "Basic128Rsa15" => SecurityPolicy::Basic128Rsa15,
        "Basic256" => SecurityPolicy::Basic256,
        "Basic256Sha256" => SecurityPolicy::Basic256Sha256,
        "Aes128Sha256RsaOaep" => SecurityPolicy::Aes128Sha256RsaOaep,
        _ => SecurityPolicy::Aes256Sha256RsaPss,
    }
}

struct C17Keys {
    a: Vec<Ident>,
    b: Vec<Ident>,
    c: Vec<Ident>,
}

fn by_bits(v: &[Ident], bits: u64) -> &Ident {
    v.iter().find(|i| i.bits as u64 == bits).unwrap_or(&v[0])
}

fn pos_class(pos: usize, len: usize) -> &'static str {
    if pos == 0 {
        "first"
    } else if pos + 1 == len {
        "last"
    } else {
        "inner"
    }
}

struct C17Ctx<'a> {
    case: &'a Value,
    policy: SecurityPolicy,
    pname: String,
    sbits: u32,
    focus: Option<Value>,
}

impl<'a> C17Ctx<'a> {
    /// One observation: the real verify_signature_data on a changed input must not answer Good
    fn must_fail(&self, rep: &mut Report, kind: &str, sub: &str, focus: Value, sig: &SignatureData, signing: &X509, contained: &X509, nonce: &[u8]) {
        if let Some(f) = &self.focus {
            if *f != focus {
                return;
            }
        }
        let r = catch(|| verify_signature_data(sig, self.policy, signing, contained, nonce));
        rep.case(&format!("{}|{}|{}|{}", kind, sub, self.pname, self.sbits));
        rep.count(&format!("verify_{}", kind), 1);
        let mut min = self.case.clone();
        min["focus"] = focus;
        match r {
            Err(p) => rep.violation(format!("{}|{}", kind, p.signature()),
                format!("verify_signature_data panicked on a changed input ({} {}): {} at {}:{}", kind, sub, p.msg, p.file, p.line), min),
            Ok(s) => {
                if s.is_good() {
                    rep.violation(format!("forged-accepted|{}|{}", kind, self.pname),
                        format!("verification answered Good although {} was changed ({})", kind, sub), min);
                } else {
                    rep.count(&format!("rejected_with_{}", status_name(s)), 1);
                }
            }
        }
    }
}

fn c17_case(case: &Value, keys: &C17Keys, thorough: bool, rep: &mut Report) {
    let pname = case["policy"].as_str().unwrap_or("Basic256").to_string();
    let policy = policy_of(&pname);
    let sbits = case["signer_bits"].as_u64().unwrap_or(2048);
    let cbits = case["contained_bits"].as_u64().unwrap_or(2048);
    let a = by_bits(&keys.a, sbits);
    let b = by_bits(&keys.b, cbits);
    let c_same = by_bits(&keys.c, sbits);
    let c_cont = by_bits(&keys.c, cbits);
    let nonce = hexs(&case["nonce_hex"]);
    let mut rng = Rng::new(case["mut_seed"].as_u64().unwrap_or(1));
    let focus = if case["focus"].is_null() { None } else { Some(case["focus"].clone()) };
    let ctx = C17Ctx { case, policy, pname: pname.clone(), sbits: a.bits, focus };
    let cert_bytes = ByteString::from(b.der.clone());
    let nonce_bs = ByteString::from(nonce.clone());

    let class = format!("valid|{}|{}|{}|n{}", pname, a.bits, b.bits, len_class(nonce.len()));
    let made = catch(|| create_signature_data(&a.key, policy, &cert_bytes, &nonce_bs));
    rep.case(&class);
    rep.count("signatures_created", 1);
    let sig = match made {
        Err(p) => {
            rep.violation(format!("create|{}", p.signature()), format!("create_signature_data panicked: {} at {}:{}", p.msg, p.file, p.line), case.clone());
            return;
        }
        Ok(Err(s)) => {
            rep.violation(format!("valid-signature-not-created|{}", pname), format!("create_signature_data returned {}", s), case.clone());
            return;
        }
        Ok(Ok(s)) => s,
    };
    let sig_bytes = sig.signature.as_ref().to_vec();
    if ctx.focus.is_none() {
        let r = catch(|| verify_signature_data(&sig, policy, &a.cert, &b.cert, &nonce));
        rep.count("verify_valid", 1);
        match r {
            Err(p) => rep.violation(format!("valid|{}", p.signature()), format!("verify panicked on an untouched signature: {} at {}:{}", p.msg, p.file, p.line), case.clone()),
            Ok(s) => {
                if !s.is_good() {
                    rep.violation(format!("valid-signature-rejected|{}|{}", pname, status_name(s)),
                        format!("signature by the {}-bit key over a {}-bit certificate and a {}-byte nonce does not verify: {}", a.bits, b.bits, nonce.len(), s), case.clone());
                    return;
                }
            }
        }
        // a second signature over the same data must verify as well (PSS is randomised)
        if let Ok(Ok(sig2)) = catch(|| create_signature_data(&a.key, policy, &cert_bytes, &nonce_bs)) {
            let s = verify_signature_data(&sig2, policy, &a.cert, &b.cert, &nonce);
            rep.case(&format!("valid-again|{}|{}", pname, a.bits));
            rep.count("verify_valid", 1);
            if !s.is_good() {
                rep.violation(format!("valid-signature-rejected|{}|{}", pname, status_name(s)), "second signature over the same data".to_string(), case.clone());
            }
        }
    }
    let with_sig = |bytes: Option<Vec<u8>>| SignatureData {
        algorithm: sig.algorithm.clone(),
        signature: match bytes {
            Some(b) => ByteString::from(b),
            None => ByteString::null(),
        },
    };

    // every signature byte
    let sl = sig_bytes.len();
    for pos in 0..sl {
        let bits: Vec<u8> = (0..8).collect();
        for bit in bits {
            let mut s = sig_bytes.clone();
            s[pos] ^= 1 << bit;
            ctx.must_fail(rep, "signature-byte", pos_class(pos, sl), json!({"kind": "signature-byte", "pos": pos, "bit": bit}),
                &with_sig(Some(s)), &a.cert, &b.cert, &nonce);
        }
    }
    // signature of another length
    let mut variants: Vec<(&str, Option<Vec<u8>>)> = vec![("null", None), ("empty", Some(vec![]))];
    if sl > 1 {
        variants.push(("drop-last", Some(sig_bytes[..sl - 1].to_vec())));
        variants.push(("drop-first", Some(sig_bytes[1..].to_vec())));
        let mut v = sig_bytes.clone();
        v.push(0);
        variants.push(("append-zero", Some(v)));
        let mut v = vec![0u8];
        v.extend_from_slice(&sig_bytes);
        variants.push(("prepend-zero", Some(v)));
        variants.push(("all-zero", Some(vec![0u8; sl])));
        variants.push(("all-ff", Some(vec![0xffu8; sl])));
        let mut v = sig_bytes.clone();
        v.reverse();
        variants.push(("reversed", Some(v)));
    }
    let strip = |v: &[u8]| -> Vec<u8> { v.iter().skip_while(|b| **b == 0).cloned().collect() };
    for (name, v) in variants {
        // a leading zero byte more or less is another encoding of the same signature value, not another
        // signature: what the real code answers there is recorded, not judged
        if let Some(bytes) = &v {
            if !bytes.is_empty() && strip(bytes) == strip(&sig_bytes) {
                if ctx.focus.is_none() {
                    let r = catch(|| verify_signature_data(&with_sig(v.clone()), policy, &a.cert, &b.cert, &nonce));
                    rep.count("signature_same_value_other_length_seen", 1);
                    if matches!(r, Ok(s) if s.is_good()) {
                        rep.count(&format!("signature_same_value_other_length_accepted_{}", pname), 1);
                    }
                }
                continue;
            }
        }
        ctx.must_fail(rep, "signature-length", name, json!({"kind": "signature-length", "variant": name}), &with_sig(v), &a.cert, &b.cert, &nonce);
    }
    // every nonce bit
    let nl = nonce.len();
    for pos in 0..nl {
        for bit in 0..8u8 {
            let mut m = nonce.clone();
            m[pos] ^= 1 << bit;
            ctx.must_fail(rep, "nonce-byte", pos_class(pos, nl), json!({"kind": "nonce-byte", "pos": pos, "bit": bit}), &sig, &a.cert, &b.cert, &m);
        }
    }
    let mut nvars: Vec<(&str, Vec<u8>)> = Vec::new();
    {
        let mut m = nonce.clone();
        m.push(0);
        nvars.push(("append-zero", m));
        let mut m = vec![0u8];
        m.extend_from_slice(&nonce);
        nvars.push(("prepend-zero", m));
        if nl > 0 {
            nvars.push(("drop-last", nonce[..nl - 1].to_vec()));
            nvars.push(("drop-first", nonce[1..].to_vec()));
            nvars.push(("empty", vec![]));
            let mut m = nonce.clone();
            m.extend_from_slice(&nonce);
            nvars.push(("doubled", m));
            let mut m = nonce.clone();
            m.rotate_left(1);
            if m != nonce {
                nvars.push(("rotated", m));
            }
        }
    }
    for (name, m) in nvars {
        ctx.must_fail(rep, "nonce-length", name, json!({"kind": "nonce-length", "variant": name}), &sig, &a.cert, &b.cert, &m);
    }
    // another certificate in place of the contained one
    ctx.must_fail(rep, "certificate-other", "other-identity-same-size", json!({"kind": "certificate-other", "variant": "c"}), &sig, &a.cert, &c_cont.cert, &nonce);
    ctx.must_fail(rep, "certificate-other", "signer-certificate", json!({"kind": "certificate-other", "variant": "a"}), &sig, &a.cert, &a.cert, &nonce);
    // sampled single byte changes of the certificate, on the verifying side (when the bytes still parse)
    let dl = b.der.len();
    let (k_verify, k_sign) = if thorough { (160usize, 48usize) } else { (48, 12) };
    let mut positions: Vec<usize> = vec![0, 1, dl - 1, dl - 2, dl / 2];
    for _ in 0..k_verify {
        positions.push(rng.usize(dl));
    }
    for (i, pos) in positions.iter().enumerate() {
        let x = 1u8 << rng.below(8);
        let mut d = b.der.clone();
        d[*pos] ^= x;
        match X509::from_der(&d) {
            Err(_) => rep.count("certificate_mutants_unparseable", 1),
            Ok(mc) => {
                if mc.as_byte_string().as_ref() == b.der.as_slice() {
                    rep.count("certificate_mutants_normalised_to_original", 1);
                } else {
                    rep.count("certificate_mutants_parsed", 1);
                    ctx.must_fail(rep, "certificate-byte", &format!("verify-side|{}", pos_class(*pos, dl)),
                        json!({"kind": "certificate-byte", "side": "verify", "pos": pos, "xor": x}), &sig, &a.cert, &mc, &nonce);
                }
            }
        }
        // and on the signing side: a signature over the changed bytes must not verify for the real certificate
        if i < 5 + k_sign {
            if let Some(f) = &ctx.focus {
                if f["kind"] != "certificate-byte" || f["side"] != "sign" || f["pos"] != json!(pos) {
                    continue;
                }
            }
            let changed = ByteString::from(d);
            if let Ok(Ok(s2)) = catch(|| create_signature_data(&a.key, policy, &changed, &nonce_bs)) {
                rep.count("signatures_created", 1);
                ctx.must_fail(rep, "certificate-byte", &format!("sign-side|{}", pos_class(*pos, dl)),
                    json!({"kind": "certificate-byte", "side": "sign", "pos": pos, "xor": x}), &s2, &a.cert, &b.cert, &nonce);
            }
        }
    }
    // another signer
    let other_size = keys.a.iter().find(|i| i.bits != a.bits).unwrap_or(a);
    for (name, signer) in [("other-identity-same-size", c_same), ("other-key-size", other_size), ("contained-identity", b)] {
        if let Some(f) = &ctx.focus {
            if f["kind"] != "other-signer" {
                continue;
            }
        }
        if let Ok(Ok(s2)) = catch(|| create_signature_data(&signer.key, policy, &cert_bytes, &nonce_bs)) {
            rep.count("signatures_created", 1);
            ctx.must_fail(rep, "other-signer", &format!("signed-by-{}", name), json!({"kind": "other-signer", "variant": name, "side": "sign"}), &s2, &a.cert, &b.cert, &nonce);
        }
        ctx.must_fail(rep, "other-signer", &format!("verified-with-{}", name), json!({"kind": "other-signer", "variant": name, "side": "verify"}), &sig, &signer.cert, &b.cert, &nonce);
    }
}

pub fn c17(args: &Args, rep: &mut Report) {
    let mut keys = C17Keys { a: vec![], b: vec![], c: vec![] };
    for b in BITS {
        for (name, dst) in [("crA", &mut keys.a), ("crB", &mut keys.b), ("crC", &mut keys.c)] {
            match load_ident(name, b) {
                Ok(i) => dst.push(i),
                Err(e) => {
                    rep.inconclusive(e);
                    return;
                }
            }
        }
    }
    if let Some(path) = &args.replay {
        match read_replay(path) {
            Some(case) => {
                rep.begin_case(&case);
                c17_case(&case, &keys, true, rep);
            }
            None => rep.inconclusive("cannot read replay file"),
        }
        return;
    }
    let mut rng = Rng::new(args.seed ^ 0xC17);
    let mut idx = 0usize;
    let rounds = if args.thorough() { 4 } else { 1 };
    for round in 0..rounds {
        for p in SIGN_POLICIES {
            let plen = policy_of(p).secure_channel_nonce_length();
            for sb in BITS {
                for cb in BITS {
                    let mut lens = vec![plen, 0, 1, 64];
                    if round > 0 {
                        lens = vec![plen, 2 + rng.usize(30), 33 + rng.usize(31), 65 + rng.usize(64)];
                    }
                    for nl in lens {
                        let nonce = match rng.below(5) {
                            0 => vec![0u8; nl],
                            1 => vec![0xffu8; nl],
                            _ => rng.bytes(nl),
                        };
                        let mut_seed = rng.next_u64() >> 12;
                        let mine = idx % args.shards == args.shard;
                        idx += 1;
                        if !mine {
                            continue;
                        }
                        let case = json!({"kind": "sig", "policy": p, "signer_bits": sb, "contained_bits": cb, "nonce_hex": hex(&nonce),
                            "mut_seed": mut_seed, "focus": null, "class": format!("sig|{}|{}|{}|n{}", p, sb, cb, nl)});
                        rep.begin_case(&case);
                        rep.sample(case.clone());
                        c17_case(&case, &keys, args.thorough(), rep);
                    }
                }
            }
        }
    }
}

// ---------------------------------------------------------------------------------------------
// C18 certificate trust verdicts
// ---------------------------------------------------------------------------------------------

const DAY: i64 = 86_400;
const VALIDITIES: [&str; 3] = ["current", "expired", "future"];
const TRUSTED_STATES: [&str; 5] = ["absent", "identical", "other-cert", "mutated-copy", "garbage"];
const REJECTED_STATES: [&str; 3] = ["absent", "identical", "other-bytes"];
const HOSTS_CORE: [&str; 3] = ["none", "match", "mismatch"];
const HOSTS_EXT: [&str; 7] = ["none", "match", "mismatch", "match-ip", "near-prefix", "near-super", "empty"];
const URIS_CORE: [&str; 3] = ["none", "match", "mismatch"];
const URIS_EXT: [&str; 6] = ["none", "match", "mismatch", "near-prefix", "near-super", "empty"];
const APIS: [&str; 2] = ["validate_or_reject", "validate"];
const C18_DNS: &str = "c18-host.example.org";

struct C18Cert {
    bits: u32,
    validity: &'static str,
    cert: X509,
    der: Vec<u8>,
    file_name: String,
    uri: String,
    not_before: i64,
    not_after: i64,
}

fn asn1_unix(t: &openssl::asn1::Asn1TimeRef) -> i64 {
    let epoch = openssl::asn1::Asn1Time::from_unix(0).unwrap();
    let d = epoch.diff(t).unwrap();
    d.days as i64 * DAY + d.secs as i64
}

/// Self-signed application instance certificate laid out like X509::from_pkey does it, but with a chosen
/// validity window
fn build_cert_der(pkey: &PKey<Private>, cn: &str, uri: &str, not_before: i64, not_after: i64) -> Result<Vec<u8>, openssl::error::ErrorStack> {
    use openssl::asn1::Asn1Time;
    use openssl::x509::extension::{ExtendedKeyUsage, KeyUsage, SubjectAlternativeName};
    let mut b = openssl::x509::X509Builder::new()?;
    b.set_version(2)?;
    let mut name = openssl::x509::X509NameBuilder::new()?;
    name.append_entry_by_text("CN", cn)?;
    name.append_entry_by_text("O", "verif")?;
    name.append_entry_by_text("OU", "verif")?;
    name.append_entry_by_text("C", "IE")?;
    name.append_entry_by_text("ST", "Dublin")?;
    let name = name.build();
    b.set_subject_name(&name)?;
    b.set_issuer_name(&name)?;
    b.append_extension(KeyUsage::new().digital_signature().non_repudiation().key_encipherment().data_encipherment().key_cert_sign().build()?)?;
    b.append_extension(ExtendedKeyUsage::new().client_auth().server_auth().build()?)?;
    let nb = Asn1Time::from_unix(not_before)?;
    let na = Asn1Time::from_unix(not_after)?;
    b.set_not_before(&nb)?;
    b.set_not_after(&na)?;
    b.set_pubkey(pkey)?;
    let mut serial = openssl::bn::BigNum::new()?;
    serial.rand(128, openssl::bn::MsbOption::MAYBE_ZERO, false)?;
    let serial = serial.to_asn1_integer()?;
    b.set_serial_number(&serial)?;
    let san = SubjectAlternativeName::new().uri(uri).dns("localhost").dns(C18_DNS).ip("127.0.0.1").build(&b.x509v3_context(None, None))?;
    b.append_extension(san)?;
    b.sign(pkey, openssl::hash::MessageDigest::sha256())?;
    b.build().to_der()
}

fn c18_cert(key: &Ident, validity: &'static str) -> Result<C18Cert, String> {
    let bits = key.bits;
    let path = pki::pki_dir().join(format!("c18_{}_{}.der", validity, bits));
    let uri = format!("urn:verif:c18:{}:{}", validity, bits);
    let der = with_pki_lock(|| -> Result<Vec<u8>, String> {
        if let Ok(d) = std::fs::read(&path) {
            if let Ok(x) = openssl::x509::X509::from_der(&d) {
                if x.public_key().map(|p| p.public_eq(&key.pkey)).unwrap_or(false) {
                    return Ok(d);
                }
            }
        }
        let now = std::time::SystemTime::now().duration_since(std::time::UNIX_EPOCH).unwrap().as_secs() as i64;
        // windows are ten years away from "now" on either side, so that a cached certificate keeps its class
        let (nb, na) = match validity {
            "expired" => (now - 7300 * DAY, now - 3650 * DAY),
            "future" => (now + 3650 * DAY, now + 7300 * DAY),
            _ => (now - 30 * DAY, now + 7300 * DAY),
        };
        // the common name carries a '/' and outer blanks, which the store strips when naming the file
        let cn = format!(" c18 {}/{} ", validity, bits);
        let d = build_cert_der(&key.pkey, &cn, &uri, nb, na).map_err(|e| e.to_string())?;
        let tmp = pki::pki_dir().join(format!(".tmp_c18_{}_{}_{}", std::process::id(), validity, bits));
        std::fs::write(&tmp, &d).map_err(|e| e.to_string())?;
        std::fs::rename(&tmp, &path).map_err(|e| e.to_string())?;
        Ok(d)
    })?;
    let cert = X509::from_der(&der).map_err(|_| "custom certificate does not parse".to_string())?;
    let ox = openssl::x509::X509::from_der(&der).map_err(|e| e.to_string())?;
    Ok(C18Cert {
        bits,
        validity,
        file_name: CertificateStore::cert_file_name(&cert),
        not_before: asn1_unix(ox.not_before()),
        not_after: asn1_unix(ox.not_after()),
        cert,
        der,
        uri,
    })
}

struct C18Env {
    certs: Vec<C18Cert>,
    other_der: Vec<u8>,
    dir: PathBuf,
}

/// Key length limits per policy as OPC UA Part 7 states them (bits, inclusive)
fn key_len_ok(policy: &str, bits: u32) -> bool {
    match policy {
        "Basic128Rsa15" | "Basic256" => (1024..=2048).contains(&bits),
        _ => (2048..=4096).contains(&bits),
    }
}

fn host_value(class: &str) -> Option<String> {
    match class {
        "none" => None,
        "match" => Some(C18_DNS.to_string()),
        "match-ip" => Some("127.0.0.1".to_string()),
        "mismatch" => Some("other-host.example.org".to_string()),
        "near-prefix" => Some(C18_DNS[..C18_DNS.len() - 1].to_string()),
        "near-super" => Some(format!("x{}", C18_DNS)),
        _ => Some(String::new()),
    }
}

fn uri_value(class: &str, uri: &str) -> Option<String> {
    match class {
        "none" => None,
        "match" => Some(uri.to_string()),
        "mismatch" => Some("urn:verif:somebody-else".to_string()),
        "near-prefix" => Some(uri[..uri.len() - 1].to_string()),
        "near-super" => Some(format!("{}x", uri)),
        _ => Some(String::new()),
    }
}

fn dir_files(dir: &Path) -> Vec<(String, Vec<u8>)> {
    let mut v = Vec::new();
    if let Ok(rd) = std::fs::read_dir(dir) {
        for e in rd.flatten() {
            let name = e.file_name().to_string_lossy().to_string();
            v.push((name, std::fs::read(e.path()).unwrap_or_default()));
        }
    }
    v.sort();
    v
}

fn c18_row(case: &Value, env: &C18Env, rep: &mut Report) {
    let s = |k: &str| case[k].as_str().unwrap_or("").to_string();
    let (trusted, rejected, validity, policy_name, host, uri, api) = (s("trusted"), s("rejected"), s("validity"), s("policy"), s("host"), s("uri"), s("api"));
    let trust_unknown = case["trust_unknown"].as_bool().unwrap_or(false);
    let skip_verify = case["skip_verify"].as_bool().unwrap_or(false);
    let check_time = case["check_time"].as_bool().unwrap_or(true);
    let bits = case["bits"].as_u64().unwrap_or(2048) as u32;
    let c = match env.certs.iter().find(|c| c.bits == bits && c.validity == validity) {
        Some(c) => c,
        None => {
            rep.inconclusive("row names a certificate that does not exist");
            return;
        }
    };
    // fresh PKI directory
    // (the directory tree is kept between rows, every file in it is removed: same state as a new one)
    let dir = env.dir.join("pki");
    let mut store = CertificateStore::new(&dir);
    if store.ensure_pki_path().is_err() {
        rep.inconclusive("cannot create the PKI directory");
        return;
    }
    for d in [store.trusted_certs_dir(), store.rejected_certs_dir()] {
        if let Ok(rd) = std::fs::read_dir(&d) {
            for e in rd.flatten() {
                if std::fs::remove_file(e.path()).is_err() {
                    rep.inconclusive("cannot clear the PKI directory");
                    return;
                }
            }
        }
    }
    store.set_trust_unknown_certs(trust_unknown);
    store.set_skip_verify_certs(skip_verify);
    store.set_check_time(check_time);
    let tpath = store.trusted_certs_dir().join(&c.file_name);
    let rpath = store.rejected_certs_dir().join(&c.file_name);
    let mut mutated = c.der.clone();
    let l = mutated.len();
    mutated[l - 1] ^= 1;
    let w = |p: &Path, d: &[u8]| std::fs::write(p, d).is_ok();
    let ok = match trusted.as_str() {
        "identical" => w(&tpath, &c.der),
        "other-cert" => w(&tpath, &env.other_der),
        "mutated-copy" => w(&tpath, &mutated),
        "garbage" => w(&tpath, b"this is not a certificate"),
        _ => true,
    } && match rejected.as_str() {
        "identical" => w(&rpath, &c.der),
        "other-bytes" => w(&rpath, &env.other_der),
        _ => true,
    };
    if !ok {
        rep.inconclusive("cannot populate the PKI directory");
        return;
    }
    let policy = policy_of(&policy_name);
    let hv = host_value(&host);
    let uv = uri_value(&uri, &c.uri);
    let result = catch(|| {
        if api == "validate" {
            store.validate_application_instance_cert(&c.cert, policy, hv.as_deref(), uv.as_deref())
        } else {
            store.validate_or_reject_application_instance_cert(&c.cert, policy, hv.as_deref(), uv.as_deref())
        }
    });
    let class = format!("{}|{}|tu{}|sv{}|ct{}|{}|{}|{}|h:{}|u:{}|{}", trusted, rejected, trust_unknown as u8, skip_verify as u8,
        check_time as u8, bits, validity, policy_name, host, uri, api);
    rep.case(&class);
    let status = match result {
        Err(p) => {
            rep.violation(format!("validate|{}", p.signature()), format!("certificate validation panicked: {} at {}:{}", p.msg, p.file, p.line), case.clone());
            return;
        }
        Ok(s) => s,
    };
    rep.count(&format!("status_{}", status_name(status)), 1);
    let accepted = status.is_good();
    let rejected_after = dir_files(&store.rejected_certs_dir());
    let in_rejected_after = rejected_after.iter().any(|(_, d)| *d == c.der);
    rep.count("directory_listings_read", 1);
    rep.count("files_seen_in_rejected", rejected_after.len() as u64);

    // the conditions the property makes necessary for acceptance
    let mut broken: Vec<String> = Vec::new();
    if rejected == "identical" {
        broken.push("certificate-in-rejected-store".into());
    }
    if trusted != "identical" && !trust_unknown {
        broken.push(format!("no-identical-copy-in-trusted-store|trusted-{}", trusted));
    }
    if !key_len_ok(&policy_name, bits) {
        broken.push(format!("key-length-invalid-for-policy|{}|{}", policy_name, bits));
    }
    if !skip_verify {
        if check_time && validity != "current" {
            broken.push(format!("outside-validity-period|{}", validity));
        }
        if !matches!(host.as_str(), "none" | "match" | "match-ip") {
            broken.push(format!("host-name-mismatch|{}", host));
        }
        if !matches!(uri.as_str(), "none" | "match") {
            broken.push(format!("application-uri-mismatch|{}", uri));
        }
    }
    if broken.is_empty() {
        rep.count("rows_all_conditions_hold", 1);
        if !accepted {
            rep.count("rows_all_conditions_hold_not_accepted", 1);
        }
    }
    if accepted {
        rep.count("rows_accepted", 1);
        for b in &broken {
            rep.violation(format!("accepted-although|{}", b),
                format!("{} answered Good; state: trusted={} rejected={} trust_unknown={} skip_verify={} check_time={} cert={}/{} policy={} host={:?} uri={:?}",
                    api, trusted, rejected, trust_unknown, skip_verify, check_time, bits, validity, policy_name, hv, uv), case.clone());
        }
        if in_rejected_after {
            rep.violation(format!("accepted-certificate-in-rejected-store|{}", api),
                format!("{} answered Good and the certificate is in rejected/ afterwards", api), case.clone());
        }
    } else {
        rep.count("rows_not_accepted", 1);
    }
    if trusted == "absent" && rejected == "absent" && !trust_unknown {
        rep.count("rows_unknown_untrusted", 1);
        if !in_rejected_after {
            rep.violation(format!("unknown-untrusted-certificate-not-in-rejected-store|{}", api),
                format!("{} answered {} for a certificate that is in neither directory with trust_unknown off; rejected/ holds {:?}", api, status,
                    rejected_after.iter().map(|(n, d)| format!("{} ({} bytes)", n, d.len())).collect::<Vec<_>>()), case.clone());
        } else {
            rep.count("unknown_untrusted_found_in_rejected", 1);
        }
    }
}

/// The named mechanisms on their own: X509::is_time_valid at the edges of the window, host name and URI matching
fn c18_direct(env: &C18Env, rep: &mut Report) {
    use chrono::{DateTime, Utc};
    for c in &env.certs {
        let nb = c.not_before;
        let na = c.not_after;
        let instants: Vec<(&str, i64, u32)> = vec![
            ("far-before", nb - 4000 * DAY, 0),
            ("1s-before-start", nb - 1, 0),
            ("1ms-before-start", nb - 1, 999_000_000),
            ("start", nb, 0),
            ("1s-after-start", nb + 1, 0),
            ("middle", (nb + na) / 2, 0),
            ("1s-before-end", na - 1, 0),
            ("end", na, 0),
            ("1ms-after-end", na, 1_000_000),
            ("1s-after-end", na + 1, 0),
            ("far-after", na + 4000 * DAY, 0),
        ];
        for (name, secs, nanos) in instants {
            let now: DateTime<Utc> = match DateTime::<Utc>::from_timestamp(secs, nanos) {
                Some(t) => t,
                None => continue,
            };
            let case = json!({"kind": "direct-time", "bits": c.bits, "validity": c.validity, "instant": name, "class": format!("direct-time|{}", name)});
            rep.begin_case(&case);
            let r = catch(|| c.cert.is_time_valid(&now));
            rep.case(&format!("direct-time|{}|{}|{}", c.bits, c.validity, name));
            rep.count("is_time_valid_calls", 1);
            let outside = (secs, nanos) < (nb, 0) || (secs, nanos) > (na, 0);
            match r {
                Err(p) => rep.violation(format!("is_time_valid|{}", p.signature()), format!("{} at {}:{}", p.msg, p.file, p.line), case),
                Ok(s) => {
                    if s.is_good() && outside {
                        rep.violation(format!("time-valid-outside-window|{}", name),
                            format!("is_time_valid answered Good at {} for a window {}..{} (unix seconds)", now, nb, na), case);
                    }
                }
            }
        }
        let hosts: Vec<(&str, String, bool)> = vec![
            ("exact-dns", C18_DNS.to_string(), true),
            ("exact-localhost", "localhost".to_string(), true),
            ("exact-ip", "127.0.0.1".to_string(), true),
            ("upper-case", C18_DNS.to_uppercase(), true),
            ("the-uri", c.uri.clone(), false),
            ("prefix", C18_DNS[..C18_DNS.len() - 1].to_string(), false),
            ("suffix", C18_DNS[1..].to_string(), false),
            ("super", format!("{}x", C18_DNS), false),
            ("subdomain", format!("a.{}", C18_DNS), false),
            ("parent-domain", "example.org".to_string(), false),
            ("other-ip", "127.0.0.2".to_string(), false),
            ("empty", String::new(), false),
            ("blank", " ".to_string(), false),
            ("nul-suffix", format!("{}\u{0}", C18_DNS), false),
            ("both-joined", format!("localhost, {}", C18_DNS), false),
        ];
        for (name, h, is_match) in hosts {
            let case = json!({"kind": "direct-host", "bits": c.bits, "validity": c.validity, "host": h, "class": format!("direct-host|{}", name)});
            rep.begin_case(&case);
            let r = catch(|| c.cert.is_hostname_valid(&h));
            rep.case(&format!("direct-host|{}|{}", c.bits, name));
            rep.count("is_hostname_valid_calls", 1);
            match r {
                Err(p) => rep.violation(format!("is_hostname_valid|{}", p.signature()), format!("{} at {}:{}", p.msg, p.file, p.line), case),
                Ok(s) => {
                    if s.is_good() && !is_match {
                        rep.violation(format!("host-name-accepted|{}", name), format!("{:?} is none of the certificate's host names", h), case);
                    }
                }
            }
        }
        let uris: Vec<(&str, String, bool)> = vec![
            ("exact", c.uri.clone(), true),
            ("prefix", c.uri[..c.uri.len() - 1].to_string(), false),
            ("super", format!("{}x", c.uri), false),
            ("a-dns-name", C18_DNS.to_string(), false),
            ("localhost", "localhost".to_string(), false),
            ("empty", String::new(), false),
            ("other", "urn:verif:somebody-else".to_string(), false),
        ];
        for (name, u, is_match) in uris {
            let case = json!({"kind": "direct-uri", "bits": c.bits, "validity": c.validity, "uri": u, "class": format!("direct-uri|{}", name)});
            rep.begin_case(&case);
            let r = catch(|| c.cert.is_application_uri_valid(&u));
            rep.case(&format!("direct-uri|{}|{}", c.bits, name));
            rep.count("is_application_uri_valid_calls", 1);
            match r {
                Err(p) => rep.violation(format!("is_application_uri_valid|{}", p.signature()), format!("{} at {}:{}", p.msg, p.file, p.line), case),
                Ok(s) => {
                    if s.is_good() && !is_match {
                        rep.violation(format!("application-uri-accepted|{}", name), format!("{:?} is not the certificate's application uri {:?}", u, c.uri), case);
                    }
                }
            }
        }
    }
}

pub fn c18(args: &Args, rep: &mut Report) {
    let mut certs = Vec::new();
    for b in BITS {
        let key = match load_ident("crA", b) {
            Ok(k) => k,
            Err(e) => {
                rep.inconclusive(e);
                return;
            }
        };
        for v in VALIDITIES {
            match c18_cert(&key, v) {
                Ok(c) => certs.push(c),
                Err(e) => {
                    rep.inconclusive(format!("cannot build certificate {} {}: {}", v, b, e));
                    return;
                }
            }
        }
    }
    let other = match load_ident("crB", 2048) {
        Ok(k) => k,
        Err(e) => {
            rep.inconclusive(e);
            return;
        }
    };
    // sanity of the fixture itself: the windows must be what their names say, by a wide margin
    let now = std::time::SystemTime::now().duration_since(std::time::UNIX_EPOCH).unwrap().as_secs() as i64;
    for c in &certs {
        let fine = match c.validity {
            "expired" => c.not_after < now - 30 * DAY,
            "future" => c.not_before > now + 30 * DAY,
            _ => c.not_before < now - DAY && c.not_after > now + 30 * DAY,
        };
        if !fine {
            rep.inconclusive(format!("cached certificate c18_{}_{} no longer has a {} window; delete work/pki/c18_*.der", c.validity, c.bits, c.validity));
            return;
        }
    }
    let env = C18Env { certs, other_der: other.der.clone(), dir: pki::scratch_dir(&format!("c18_{}", args.shard)) };
    if let Some(path) = &args.replay {
        match read_replay(path) {
            Some(case) => {
                rep.begin_case(&case);
                if case["kind"] == "row" {
                    c18_row(&case, &env, rep);
                } else {
                    c18_direct(&env, rep);
                }
            }
            None => rep.inconclusive("cannot read replay file"),
        }
        let _ = std::fs::remove_dir_all(&env.dir);
        return;
    }
    if args.shard == 0 {
        c18_direct(&env, rep);
    }
    let hosts: &[&str] = if args.thorough() { &HOSTS_EXT } else { &HOSTS_CORE };
    let uris: &[&str] = if args.thorough() { &URIS_EXT } else { &URIS_CORE };
    let mut idx = 0usize;
    for trusted in TRUSTED_STATES {
        for rejected in REJECTED_STATES {
            for flags in 0..8u8 {
                for b in BITS {
                    for validity in VALIDITIES {
                        for policy in SIGN_POLICIES {
                            for host in hosts {
                                for uri in uris {
                                    for api in APIS {
                                        let mine = idx % args.shards == args.shard;
                                        idx += 1;
                                        if !mine {
                                            continue;
                                        }
                                        let case = json!({"kind": "row", "trusted": trusted, "rejected": rejected,
                                            "trust_unknown": flags & 1 != 0, "skip_verify": flags & 2 != 0, "check_time": flags & 4 != 0,
                                            "bits": b, "validity": validity, "policy": policy, "host": host, "uri": uri, "api": api,
                                            "class": format!("row|{}|{}|{}", trusted, rejected, api)});
                                        rep.begin_case(&case);
                                        rep.sample(case.clone());
                                        c18_row(&case, &env, rep);
                                    }
                                }
                            }
                        }
                    }
                }
            }
        }
    }
    rep.count("decision_table_rows_total", if args.shard == 0 { idx as u64 } else { 0 });
    let _ = std::fs::remove_dir_all(&env.dir);
}
