//! Generators for operand values, filter elements, filter trees and malformations.
use crate::common::Rng;
use crate::gen;
use crate::refeval::{int_range, int_variant, num_of, Num};
use opcua::types::operand::Operand;
use opcua::types::service_types::{
    AttributeOperand, ContentFilterElement, FilterOperator, RelativePath, SimpleAttributeOperand,
};
use opcua::types::*;

pub const INT_TYPES: &[VariantTypeId] = &[
    VariantTypeId::SByte,
    VariantTypeId::Byte,
    VariantTypeId::Int16,
    VariantTypeId::UInt16,
    VariantTypeId::Int32,
    VariantTypeId::UInt32,
    VariantTypeId::Int64,
    VariantTypeId::UInt64,
];

const INT_POOL: &[i128] = &[
    0,
    1,
    -1,
    2,
    5,
    7,
    100,
    127,
    128,
    -128,
    -129,
    255,
    256,
    550,
    32767,
    32768,
    -32768,
    -32769,
    65535,
    65536,
    16777216,
    16777217,
    2147483647,
    2147483648,
    -2147483648,
    -2147483649,
    4000000000,
    4294967295,
    4294967296,
    9007199254740992,
    9007199254740993,
    9223372036854775807,
    9223372036854775808,
    -9223372036854775808,
    18446744073709551615,
    0xF0,
    0x0F,
    0xFF00,
    0x00FF,
    0x5555,
    0xAAAA,
];

const F64_POOL: &[f64] = &[
    0.0,
    -0.0,
    1.0,
    -1.0,
    0.5,
    1.5,
    2.5,
    -0.5,
    10.5,
    100.0,
    127.0,
    255.0,
    256.0,
    550.0,
    f64::NAN,
    f64::INFINITY,
    f64::NEG_INFINITY,
    f64::MAX,
    f64::MIN_POSITIVE,
    16777216.0,
    16777217.0,
    4294967295.0,
    4294967296.0,
    -2147483648.0,
    9007199254740992.0,
    9.223372036854775807e18,
    1.8446744073709552e19,
    1e300,
];

const STR_POOL: &[&str] = &[
    "550",
    "10.5",
    "-1",
    "0",
    "1",
    "true",
    "false",
    "TRUE",
    "abc",
    "ABC",
    "",
    "a_c",
    "a%c",
    "pump-1",
    "Level high",
    "4294967295",
    "4294967296",
    "-129",
    "256",
    "1e3",
    " 5",
    "0x10",
    "2.5",
    "100",
    "127",
    "NaN",
    "inf",
    "01234567-89ab-cdef-0123-456789abcdef",
    "x|y",
    "héllo",
    "line\nbreak",
];

pub const FIELD_NAMES: &[&str] = &[
    "Idx", "Severity", "SourceName", "Message", "Time", "Foo", "Big", "Bar", "Flag", "Tag", "Cnt", "Small", "Mask",
    "G", "Nid", "Code", "Bytes", "Nope", "OnlyA", "EventType", "Flt", "U64",
];

pub fn t0_ticks() -> i64 {
    // 2020-01-01T00:00:00Z in 100ns ticks since 1601
    132_223_104_000_000_000
}

pub fn guid_n(n: u8) -> Guid {
    let mut b = [0u8; 16];
    for (i, x) in b.iter_mut().enumerate() {
        *x = (i as u8).wrapping_mul(17).wrapping_add(n);
    }
    Guid::from_bytes(b)
}

pub fn int_of_type(rng: &mut Rng, t: VariantTypeId) -> Variant {
    let (lo, hi) = int_range(t).unwrap();
    for _ in 0..6 {
        let v = *rng.pick(INT_POOL);
        if v >= lo && v <= hi {
            return int_variant(t, v);
        }
    }
    match rng.below(4) {
        0 => int_variant(t, lo),
        1 => int_variant(t, hi),
        2 => int_variant(t, hi - 1),
        _ => int_variant(t, lo + (rng.next_u64() as i128).rem_euclid(hi - lo + 1)),
    }
}

pub fn scalar_of_type(rng: &mut Rng, t: VariantTypeId) -> Variant {
    match t {
        t if int_range(t).is_some() => int_of_type(rng, t),
        VariantTypeId::Double => Variant::Double(if rng.chance(5, 6) { *rng.pick(F64_POOL) } else { gen::f64_interesting(rng) }),
        VariantTypeId::Float => Variant::Float(if rng.chance(5, 6) { *rng.pick(F64_POOL) as f32 } else { gen::f32_interesting(rng) }),
        VariantTypeId::Boolean => Variant::Boolean(rng.bool()),
        VariantTypeId::String => {
            if rng.chance(1, 30) {
                Variant::String(UAString::null())
            } else if rng.chance(1, 10) {
                Variant::from(gen::string(rng, 12))
            } else {
                Variant::from(*rng.pick(STR_POOL))
            }
        }
        VariantTypeId::DateTime => Variant::from(DateTime::from(match rng.below(8) {
            0 => 0,
            1 => DateTime::endtimes_ticks(),
            _ => t0_ticks() + rng.below(4) as i64 * 10_000_000,
        })),
        VariantTypeId::Guid => Variant::from(guid_n(rng.below(3) as u8)),
        VariantTypeId::StatusCode => Variant::from(*rng.pick(&[
            StatusCode::Good,
            StatusCode::BadUnexpectedError,
            StatusCode::UncertainLastUsableValue,
            StatusCode::BadTimeout,
        ])),
        VariantTypeId::ByteString => Variant::from(match rng.below(5) {
            0 => ByteString::null(),
            1 => ByteString::from(vec![]),
            2 => ByteString::from(vec![1u8, 2, 4]),
            _ => ByteString::from(vec![1u8, 2, 3]),
        }),
        VariantTypeId::XmlElement => Variant::XmlElement(UAString::from(*rng.pick(&["abc", "<a/>", ""]))),
        VariantTypeId::NodeId => Variant::from(match rng.below(6) {
            0 => NodeId::new(0, 11u32),
            1 => NodeId::new(1, "x"),
            2 => NodeId::new(0, 2253u32),
            3 => NodeId::new(0, 2041u32),
            4 => NodeId::null(),
            _ => NodeId::new(2, 1u32),
        }),
        VariantTypeId::ExpandedNodeId => {
            let n = match rng.below(4) {
                0 => NodeId::new(0, 11u32),
                1 => NodeId::new(1, "x"),
                2 => NodeId::new(0, 2253u32),
                _ => NodeId::new(2, 1u32),
            };
            let mut e = ExpandedNodeId::from(n);
            if rng.chance(1, 4) {
                e.namespace_uri = UAString::from("urn:x");
            }
            if rng.chance(1, 6) {
                e.server_index = 1;
            }
            Variant::from(e)
        }
        VariantTypeId::QualifiedName => Variant::from(match rng.below(4) {
            0 => QualifiedName::new(0, "abc"),
            1 => QualifiedName::new(1, "abc"),
            2 => QualifiedName::new(0, "Level high"),
            _ => QualifiedName::new(0, "550"),
        }),
        VariantTypeId::LocalizedText => Variant::from(match rng.below(5) {
            0 => LocalizedText::new("en", "Level high"),
            1 => LocalizedText::new("", "abc"),
            2 => LocalizedText::new("de", "abc"),
            3 => LocalizedText::new("", "550"),
            _ => LocalizedText::new("", "a_c"),
        }),
        _ => Variant::Empty,
    }
}

pub const SCALAR_KINDS: &[VariantTypeId] = &[
    VariantTypeId::Boolean,
    VariantTypeId::SByte,
    VariantTypeId::Byte,
    VariantTypeId::Int16,
    VariantTypeId::UInt16,
    VariantTypeId::Int32,
    VariantTypeId::UInt32,
    VariantTypeId::Int64,
    VariantTypeId::UInt64,
    VariantTypeId::Float,
    VariantTypeId::Double,
    VariantTypeId::String,
    VariantTypeId::DateTime,
    VariantTypeId::Guid,
    VariantTypeId::StatusCode,
    VariantTypeId::ByteString,
    VariantTypeId::XmlElement,
    VariantTypeId::NodeId,
    VariantTypeId::ExpandedNodeId,
    VariantTypeId::QualifiedName,
    VariantTypeId::LocalizedText,
];

/// Arrays and nesting types (safety only for the operators); deterministic, no clock
pub fn complex_value(rng: &mut Rng) -> Variant {
    let t = *rng.pick(SCALAR_KINDS);
    match rng.below(8) {
        0 => Variant::Array(Box::new(Array { value_type: t, values: vec![], dimensions: None })),
        1 => Variant::Array(Box::new(Array { value_type: t, values: vec![scalar_of_type(rng, t)], dimensions: None })),
        2 | 3 => {
            let n = 1 + rng.usize(5);
            Variant::Array(Box::new(Array {
                value_type: t,
                values: (0..n).map(|_| scalar_of_type(rng, t)).collect(),
                dimensions: None,
            }))
        }
        4 => Variant::Array(Box::new(Array {
            value_type: t,
            values: (0..4).map(|_| scalar_of_type(rng, t)).collect(),
            dimensions: Some(vec![2, 2]),
        })),
        5 => Variant::Variant(Box::new(scalar_of_type(rng, t))),
        6 => Variant::DataValue(Box::new(DataValue {
            value: Some(scalar_of_type(rng, t)),
            status: None,
            source_timestamp: None,
            source_picoseconds: None,
            server_timestamp: None,
            server_picoseconds: None,
        })),
        _ => Variant::ExtensionObject(Box::new(if rng.bool() {
            ExtensionObject::null()
        } else {
            ExtensionObject {
                node_id: NodeId::new(0, rng.below(1000) as u32),
                body: ExtensionObjectEncoding::ByteString(ByteString::from(rng.bytes(6))),
            }
        })),
    }
}

pub fn value(rng: &mut Rng) -> Variant {
    match rng.below(40) {
        0..=1 => Variant::Empty,
        2 => complex_value(rng),
        3..=16 => {
            let t = *rng.pick(INT_TYPES);
            int_of_type(rng, t)
        }
        17..=20 => scalar_of_type(rng, VariantTypeId::Double),
        21..=22 => scalar_of_type(rng, VariantTypeId::Float),
        23..=27 => scalar_of_type(rng, VariantTypeId::String),
        28..=29 => scalar_of_type(rng, VariantTypeId::Boolean),
        _ => {
            let t = *rng.pick(SCALAR_KINDS);
            scalar_of_type(rng, t)
        }
    }
}

/// A value related to `a`: the same number in another type, a neighbour, the same value, or fresh
pub fn related(rng: &mut Rng, a: &Variant) -> Variant {
    match rng.below(10) {
        0..=2 => {
            if let Some(n) = num_of(a) {
                match n {
                    Num::I(i) => {
                        for _ in 0..4 {
                            match rng.below(5) {
                                0 => return Variant::Double(i as f64),
                                1 => return Variant::Float(i as f32),
                                2 => return Variant::from(i.to_string()),
                                _ => {
                                    let t = *rng.pick(INT_TYPES);
                                    let (lo, hi) = int_range(t).unwrap();
                                    if i >= lo && i <= hi {
                                        return int_variant(t, i);
                                    }
                                }
                            }
                        }
                        a.clone()
                    }
                    Num::F32(f) => Variant::Double(f as f64),
                    Num::F64(f) => {
                        if f.fract() == 0.0 && f.abs() < 1e18 {
                            let t = *rng.pick(INT_TYPES);
                            let (lo, hi) = int_range(t).unwrap();
                            let i = f as i128;
                            if i >= lo && i <= hi {
                                return int_variant(t, i);
                            }
                        }
                        Variant::Float(f as f32)
                    }
                }
            } else {
                match a {
                    Variant::String(s) if !s.is_null() => match rng.below(3) {
                        0 => Variant::from(LocalizedText::new("", s.as_ref())),
                        1 => Variant::from(QualifiedName::new(0, s.as_ref())),
                        _ => a.clone(),
                    },
                    Variant::NodeId(n) => Variant::from(ExpandedNodeId::from((**n).clone())),
                    Variant::Boolean(b) => Variant::Int32(*b as i32),
                    Variant::Guid(g) => Variant::from(g.to_string()),
                    _ => a.clone(),
                }
            }
        }
        3..=4 => a.clone(),
        5..=6 => {
            if let Some(Num::I(i)) = num_of(a) {
                let t = a.type_id();
                let (lo, hi) = int_range(t).unwrap();
                let j = if rng.bool() { i + 1 } else { i - 1 };
                if j >= lo && j <= hi {
                    return int_variant(t, j);
                }
                a.clone()
            } else {
                let t = a.type_id();
                if SCALAR_KINDS.contains(&t) {
                    scalar_of_type(rng, t)
                } else {
                    value(rng)
                }
            }
        }
        _ => value(rng),
    }
}

pub fn lit(v: Variant) -> Operand {
    Operand::literal(v)
}

pub fn attr(name: impl AsRef<str>) -> Operand {
    let name = name.as_ref();
    Operand::SimpleAttributeOperand(SimpleAttributeOperand {
        type_definition_id: ObjectTypeId::BaseEventType.into(),
        browse_path: Some(vec![QualifiedName::new(0, name)]),
        attribute_id: AttributeId::Value as u32,
        index_range: UAString::null(),
    })
}

pub fn element(op: FilterOperator, operands: Vec<Operand>) -> ContentFilterElement {
    ContentFilterElement::from((op, operands))
}

pub fn value_operand(rng: &mut Rng) -> Operand {
    if rng.chance(1, 5) {
        attr(rng.pick(FIELD_NAMES))
    } else {
        lit(value(rng))
    }
}

pub const CMP_OPS: &[FilterOperator] = &[
    FilterOperator::Equals,
    FilterOperator::GreaterThan,
    FilterOperator::LessThan,
    FilterOperator::GreaterThanOrEqual,
    FilterOperator::LessThanOrEqual,
];

/// One leaf element (no element operands) of the given operator, boundary-heavy
pub fn leaf(rng: &mut Rng, op: FilterOperator) -> ContentFilterElement {
    match op {
        FilterOperator::Equals
        | FilterOperator::GreaterThan
        | FilterOperator::LessThan
        | FilterOperator::GreaterThanOrEqual
        | FilterOperator::LessThanOrEqual => {
            let a = value(rng);
            let b = related(rng, &a);
            let (a, b) = if rng.bool() { (a, b) } else { (b, a) };
            let oa = if rng.chance(1, 6) { attr(rng.pick(FIELD_NAMES)) } else { lit(a) };
            let ob = if rng.chance(1, 8) { attr(rng.pick(FIELD_NAMES)) } else { lit(b) };
            element(op, vec![oa, ob])
        }
        FilterOperator::Between => {
            let a = value(rng);
            let b = related(rng, &a);
            let c = related(rng, &a);
            let oa = if rng.chance(1, 6) { attr(rng.pick(FIELD_NAMES)) } else { lit(a) };
            element(op, vec![oa, lit(b), lit(c)])
        }
        FilterOperator::InList => {
            let a = value(rng);
            let n = 1 + rng.usize(4);
            let mut ops = vec![if rng.chance(1, 6) { attr(rng.pick(FIELD_NAMES)) } else { lit(a.clone()) }];
            for _ in 0..n {
                ops.push(lit(related(rng, &a)));
            }
            element(op, ops)
        }
        FilterOperator::IsNull => element(op, vec![value_operand(rng)]),
        FilterOperator::Not => element(op, vec![logic_operand_leaf(rng)]),
        FilterOperator::And | FilterOperator::Or => element(op, vec![logic_operand_leaf(rng), logic_operand_leaf(rng)]),
        FilterOperator::Like => {
            let p = crate::like::gen_pattern(rng);
            let s = crate::like::gen_subject(rng, &p);
            let subject = match rng.below(12) {
                0 => attr(rng.pick(&["SourceName", "Message", "Tag", "Severity", "Nope"])),
                1 => lit(Variant::from(LocalizedText::new("en", s.as_str()))),
                2 => lit(value(rng)),
                _ => lit(Variant::from(s)),
            };
            let pat = if rng.chance(1, 20) { lit(value(rng)) } else { lit(Variant::from(crate::like::render(&p))) };
            element(op, vec![subject, pat])
        }
        FilterOperator::BitwiseAnd | FilterOperator::BitwiseOr => {
            let a = if rng.chance(5, 6) {
                let t = *rng.pick(INT_TYPES);
                int_of_type(rng, t)
            } else {
                value(rng)
            };
            let b = if rng.chance(1, 2) {
                let t = a.type_id();
                if int_range(t).is_some() {
                    int_of_type(rng, t)
                } else {
                    value(rng)
                }
            } else if rng.chance(4, 5) {
                let t = *rng.pick(INT_TYPES);
                int_of_type(rng, t)
            } else {
                value(rng)
            };
            let oa = if rng.chance(1, 8) { attr(rng.pick(&["Mask", "Small", "Severity", "Nope", "Bar"])) } else { lit(a) };
            element(op, vec![oa, lit(b)])
        }
        FilterOperator::Cast => {
            let a = value(rng);
            let target = match rng.below(8) {
                0 => lit(value(rng)),
                1 => lit(Variant::from(NodeId::new(1, 9999u32))),
                2 => lit(Variant::from(ExpandedNodeId::from(NodeId::new(0, 1 + rng.below(12) as u32)))),
                _ => lit(Variant::from(NodeId::new(0, 1 + rng.below(12) as u32))),
            };
            element(op, vec![lit(a), target])
        }
        other => element(other, vec![value_operand(rng), value_operand(rng)]),
    }
}

fn logic_operand_leaf(rng: &mut Rng) -> Operand {
    match rng.below(12) {
        0..=3 => lit(Variant::Boolean(true)),
        4..=6 => lit(Variant::Boolean(false)),
        7..=8 => lit(Variant::Empty),
        9 => lit(Variant::from(*rng.pick(&["true", "false", "1", "0", "abc", "TRUE"]))),
        10 => attr(rng.pick(&["Flag", "Nope", "Tag", "Foo"])),
        _ => lit(value(rng)),
    }
}

pub const LEAF_OPS: &[FilterOperator] = &[
    FilterOperator::Equals,
    FilterOperator::Equals,
    FilterOperator::GreaterThan,
    FilterOperator::LessThan,
    FilterOperator::GreaterThanOrEqual,
    FilterOperator::LessThanOrEqual,
    FilterOperator::Between,
    FilterOperator::InList,
    FilterOperator::IsNull,
    FilterOperator::Like,
    FilterOperator::Not,
    FilterOperator::And,
    FilterOperator::Or,
    FilterOperator::BitwiseAnd,
    FilterOperator::BitwiseOr,
    FilterOperator::Cast,
];

/// A well-formed filter: element i refers only to elements with a larger index (no loops), with
/// shared sub-elements (more than one path to the same element is legal).
pub fn tree(rng: &mut Rng, max_n: usize) -> Vec<ContentFilterElement> {
    let n = 1 + rng.usize(max_n);
    let mut els = Vec::with_capacity(n);
    for i in 0..n {
        let can_ref = i + 1 < n;
        if can_ref && rng.chance(3, 4) {
            let pick_ref = |rng: &mut Rng| -> Operand {
                // mostly the next element so that chains get deep, sometimes any later one
                let j = if rng.chance(2, 3) { i + 1 } else { i + 1 + rng.usize(n - i - 1) };
                Operand::element(j as u32)
            };
            let el = match rng.below(12) {
                0..=3 => {
                    let a = pick_ref(rng);
                    let b = if rng.chance(2, 3) { pick_ref(rng) } else { logic_operand_leaf(rng) };
                    let (a, b) = if rng.bool() { (a, b) } else { (b, a) };
                    element(FilterOperator::And, vec![a, b])
                }
                4..=7 => {
                    let a = pick_ref(rng);
                    let b = if rng.chance(2, 3) { pick_ref(rng) } else { logic_operand_leaf(rng) };
                    let (a, b) = if rng.bool() { (a, b) } else { (b, a) };
                    element(FilterOperator::Or, vec![a, b])
                }
                8..=9 => element(FilterOperator::Not, vec![pick_ref(rng)]),
                10 => element(FilterOperator::IsNull, vec![pick_ref(rng)]),
                _ => {
                    // an element operand where a value is expected: Equals(element, literal) etc.
                    let op = *rng.pick(&[FilterOperator::Equals, FilterOperator::InList, FilterOperator::BitwiseOr, FilterOperator::Cast]);
                    match op {
                        FilterOperator::Cast => element(op, vec![pick_ref(rng), lit(Variant::from(NodeId::new(0, 1 + rng.below(12) as u32)))]),
                        _ => element(op, vec![pick_ref(rng), lit(if rng.bool() { Variant::Boolean(rng.bool()) } else { value(rng) })]),
                    }
                }
            };
            els.push(el);
        } else {
            let op = *rng.pick(LEAF_OPS);
            els.push(leaf(rng, op));
        }
    }
    els
}

pub const MALFORMATIONS: &[&str] = &[
    "too-few-operands",
    "no-operands",
    "operands-none",
    "extra-operands",
    "element-index-out-of-range",
    "element-self-reference",
    "element-back-reference",
    "attribute-operand",
    "null-extension-object",
    "garbage-operand-body",
    "wrong-operand-type-id",
    "unsupported-operator",
];

fn garbage_ext(rng: &mut Rng, kind: u64) -> ExtensionObject {
    match kind {
        0 => ExtensionObject::null(),
        1 => {
            let n = rng.usize(12);
            ExtensionObject {
                node_id: (*rng.pick(&[
                    ObjectId::LiteralOperand_Encoding_DefaultBinary,
                    ObjectId::ElementOperand_Encoding_DefaultBinary,
                    ObjectId::SimpleAttributeOperand_Encoding_DefaultBinary,
                    ObjectId::AttributeOperand_Encoding_DefaultBinary,
                ]))
                .into(),
                body: match rng.below(4) {
                    0 => ExtensionObjectEncoding::None,
                    1 => ExtensionObjectEncoding::XmlElement(UAString::from("<x/>")),
                    2 => ExtensionObjectEncoding::ByteString(ByteString::null()),
                    _ => ExtensionObjectEncoding::ByteString(ByteString::from(rng.bytes(n))),
                },
            }
        }
        _ => ExtensionObject {
            node_id: match rng.below(3) {
                0 => ObjectId::ReadRequest_Encoding_DefaultBinary.into(),
                1 => NodeId::new(1, "LiteralOperand"),
                _ => NodeId::new(0, rng.next_u32()),
            },
            body: ExtensionObjectEncoding::ByteString(ByteString::from(Variant::Int32(1).encode_to_vec())),
        },
    }
}

/// Applies one malformation to element k of the filter (in place)
pub fn malform(rng: &mut Rng, els: &mut Vec<ContentFilterElement>, k: usize, what: &str) {
    let n = els.len();
    let ops = els[k].filter_operands.clone().unwrap_or_default();
    let set_operand = |els: &mut Vec<ContentFilterElement>, rng: &mut Rng, o: ExtensionObject| {
        let mut ops = els[k].filter_operands.clone().unwrap_or_default();
        if ops.is_empty() {
            ops.push(o);
        } else {
            let i = rng.usize(ops.len());
            ops[i] = o;
        }
        els[k].filter_operands = Some(ops);
    };
    match what {
        "too-few-operands" => {
            let keep = if ops.len() <= 1 { 0 } else { 1 + rng.usize(ops.len() - 1) };
            // Between keeps 1 or 2, binary operators 1, InList 1
            let keep = if els[k].filter_operator == FilterOperator::InList { 1 } else { keep };
            els[k].filter_operands = Some(ops[..keep.min(ops.len())].to_vec());
        }
        "no-operands" => els[k].filter_operands = Some(vec![]),
        "operands-none" => els[k].filter_operands = None,
        "extra-operands" => {
            let mut ops = ops;
            for _ in 0..1 + rng.usize(3) {
                ops.push((&value_operand(rng)).into());
            }
            els[k].filter_operands = Some(ops);
        }
        "element-index-out-of-range" => {
            let idx = *rng.pick(&[n as u32, n as u32 + 1, u32::MAX, 1 << 31, 1000, n as u32 + 100]);
            set_operand(els, rng, (&Operand::element(idx)).into());
        }
        "element-self-reference" => set_operand(els, rng, (&Operand::element(k as u32)).into()),
        "element-back-reference" => {
            let j = rng.usize(k + 1);
            set_operand(els, rng, (&Operand::element(j as u32)).into());
        }
        "attribute-operand" => {
            let o = Operand::AttributeOperand(AttributeOperand {
                node_id: if rng.bool() { ObjectId::Server.into() } else { NodeId::null() },
                alias: UAString::null(),
                browse_path: RelativePath { elements: None },
                attribute_id: AttributeId::Value as u32,
                index_range: UAString::null(),
            });
            set_operand(els, rng, (&o).into());
        }
        "null-extension-object" => {
            let o = garbage_ext(rng, 0);
            set_operand(els, rng, o)
        }
        "garbage-operand-body" => {
            let o = garbage_ext(rng, 1);
            set_operand(els, rng, o)
        }
        "wrong-operand-type-id" => {
            let o = garbage_ext(rng, 2);
            set_operand(els, rng, o)
        }
        "unsupported-operator" => {
            els[k].filter_operator = *rng.pick(&[FilterOperator::OfType, FilterOperator::InView, FilterOperator::RelatedTo]);
        }
        _ => {}
    }
}

/// Odd but decodable SimpleAttributeOperands (safety only)
pub fn odd_attr(rng: &mut Rng) -> Operand {
    Operand::SimpleAttributeOperand(SimpleAttributeOperand {
        type_definition_id: gen::node_id(rng),
        browse_path: match rng.below(5) {
            0 => None,
            1 => Some(vec![]),
            2 => Some(vec![QualifiedName::null()]),
            3 => Some((0..rng.usize(5)).map(|_| gen::qualified_name(rng)).collect()),
            _ => Some(vec![QualifiedName::new(0, *rng.pick(FIELD_NAMES)), QualifiedName::new(0, "x")]),
        },
        attribute_id: match rng.below(4) {
            0 => 0,
            1 => rng.below(30) as u32,
            2 => u32::MAX,
            _ => 13,
        },
        index_range: if rng.bool() { UAString::null() } else { UAString::from(*rng.pick(&["0", "1:2", "x", ""])) },
    })
}
