//! Event filter workloads (C39 where-clause evaluation: safety and Part 4 operator semantics).
#[allow(unused_imports)]
pub(crate) use vh_common::{common, gen, pki};
pub mod genf;
pub mod like;
pub mod p_events;
pub mod refeval;
pub use p_events::{child, dispatch};
