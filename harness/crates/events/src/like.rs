//! Reference LIKE matcher written from OPC UA Part 4 (FilterOperator Like, wildcard table):
//!   %   any run of zero or more characters        _   exactly one character
//!   \x  literal x (\\ is \, \% is %, \_ is _)     [..] one character out of a list, a-b ranges
//!   [^..] one character NOT in the list (^ first inside the brackets)
//! Only patterns inside this unambiguous grammar are compared semantically; everything else
//! (unterminated lists, trailing backslash, escapes of ordinary characters, ...) is safety-only.
use crate::common::Rng;

#[derive(Clone, Debug, PartialEq)]
pub enum Item {
    Ch(char),
    Range(char, char),
}

#[derive(Clone, Debug, PartialEq)]
pub enum Tok {
    Lit(char),
    Esc(char),
    Run,
    One,
    List { neg: bool, items: Vec<Item> },
}

pub const ESCAPABLE: &[char] = &['%', '_', '\\', '[', ']'];

pub fn render(p: &[Tok]) -> String {
    let mut s = String::new();
    for t in p {
        match t {
            Tok::Lit(c) => s.push(*c),
            Tok::Esc(c) => {
                s.push('\\');
                s.push(*c);
            }
            Tok::Run => s.push('%'),
            Tok::One => s.push('_'),
            Tok::List { neg, items } => {
                s.push('[');
                if *neg {
                    s.push('^');
                }
                for it in items {
                    match it {
                        Item::Ch(c) => s.push(*c),
                        Item::Range(a, b) => {
                            s.push(*a);
                            s.push('-');
                            s.push(*b);
                        }
                    }
                }
                s.push(']');
            }
        }
    }
    s
}

/// Parses a pattern of the unambiguous grammar; None = outside it (not compared semantically)
pub fn parse(p: &str) -> Option<Vec<Tok>> {
    let v: Vec<char> = p.chars().collect();
    let mut out = Vec::new();
    let mut i = 0;
    while i < v.len() {
        match v[i] {
            '%' => {
                out.push(Tok::Run);
                i += 1;
            }
            '_' => {
                out.push(Tok::One);
                i += 1;
            }
            '\\' => {
                let c = *v.get(i + 1)?;
                if !ESCAPABLE.contains(&c) {
                    return None;
                }
                out.push(Tok::Esc(c));
                i += 2;
            }
            ']' => return None,
            '[' => {
                i += 1;
                let mut neg = false;
                if v.get(i) == Some(&'^') {
                    neg = true;
                    i += 1;
                }
                let mut items = Vec::new();
                loop {
                    let c = *v.get(i)?;
                    if c == ']' {
                        i += 1;
                        break;
                    }
                    if c == '[' || c == '\\' || c == '^' || c == '-' {
                        return None;
                    }
                    if v.get(i + 1) == Some(&'-') {
                        let hi = *v.get(i + 2)?;
                        if hi == ']' || hi == '[' || hi == '\\' || hi == '^' || hi == '-' || hi < c {
                            return None;
                        }
                        items.push(Item::Range(c, hi));
                        i += 3;
                    } else {
                        items.push(Item::Ch(c));
                        i += 1;
                    }
                }
                if items.is_empty() {
                    return None;
                }
                out.push(Tok::List { neg, items });
            }
            c => {
                out.push(Tok::Lit(c));
                i += 1;
            }
        }
    }
    Some(out)
}

fn tok_matches(t: &Tok, c: char) -> bool {
    match t {
        Tok::Lit(x) | Tok::Esc(x) => *x == c,
        Tok::One => true,
        Tok::Run => unreachable!(),
        Tok::List { neg, items } => {
            let inside = items.iter().any(|it| match it {
                Item::Ch(x) => *x == c,
                Item::Range(a, b) => *a <= c && c <= *b,
            });
            inside != *neg
        }
    }
}

/// Whole-string match, dynamic programming over (pattern position, text position)
pub fn matches(p: &[Tok], s: &[char]) -> bool {
    let (n, m) = (p.len(), s.len());
    // ok[j] for the current pattern suffix: does p[i..] match s[j..]
    let mut next = vec![false; m + 1];
    next[m] = true;
    for i in (0..n).rev() {
        let mut cur = vec![false; m + 1];
        match &p[i] {
            Tok::Run => {
                // matches any run: cur[j] = next[j] || cur[j+1]
                cur[m] = next[m];
                for j in (0..m).rev() {
                    cur[j] = next[j] || cur[j + 1];
                }
            }
            t => {
                for j in 0..m {
                    cur[j] = tok_matches(t, s[j]) && next[j + 1];
                }
            }
        }
        next = cur;
    }
    next[0]
}

const LIT_PLAIN: &[char] = &['a', 'b', 'c', 'x', 'A', 'Z', '0', '1', '5', '9', ' '];
const LIT_META: &[char] = &['.', '*', '+', '?', '(', ')', '$', '^', '|', '{', '}', '#', '&', '~', '-', ','];
const LIT_ODD: &[char] = &['\n', '\t', 'é', 'ß', '漢', '😀', '\u{0}', '\r'];
const LIST_CH: &[char] = &[
    'a', 'b', 'c', 'x', 'A', 'Z', '0', '1', '5', '9', ' ', '%', '_', '.', '*', '+', '?', '(', ')', '$', '|', '{',
    '}', '&', '~', '#', 'é', '漢',
];

fn gen_list(rng: &mut Rng) -> Tok {
    let n = 1 + rng.usize(3);
    let mut items = Vec::new();
    for _ in 0..n {
        if rng.chance(1, 3) {
            let (lo, hi) = match rng.below(3) {
                0 => ('0', '9'),
                1 => ('a', 'z'),
                _ => ('A', 'Z'),
            };
            let a = lo as u32 + rng.below((hi as u32 - lo as u32 + 1) as u64) as u32;
            let b = a + rng.below((hi as u32 - a + 1) as u64) as u32;
            items.push(Item::Range(char::from_u32(a).unwrap(), char::from_u32(b).unwrap()));
        } else {
            items.push(Item::Ch(*rng.pick(LIST_CH)));
        }
    }
    Tok::List { neg: rng.chance(1, 3), items }
}

pub fn gen_pattern(rng: &mut Rng) -> Vec<Tok> {
    let n = match rng.below(8) {
        0 => 0,
        1 => 1,
        2 => 2,
        _ => 1 + rng.usize(7),
    };
    (0..n)
        .map(|_| match rng.below(20) {
            0..=5 => Tok::Lit(*rng.pick(LIT_PLAIN)),
            6..=7 => Tok::Lit(*rng.pick(LIT_META)),
            8 => Tok::Lit(*rng.pick(LIT_ODD)),
            9..=11 => Tok::Run,
            12..=14 => Tok::One,
            15..=16 => Tok::Esc(*rng.pick(ESCAPABLE)),
            _ => gen_list(rng),
        })
        .collect()
}

fn any_char(rng: &mut Rng) -> char {
    match rng.below(10) {
        0..=4 => *rng.pick(LIT_PLAIN),
        5..=6 => *rng.pick(LIT_META),
        7 => *rng.pick(LIT_ODD),
        8 => *rng.pick(&['%', '_', '\\', '[', ']']),
        _ => *rng.pick(LIST_CH),
    }
}

fn char_for(rng: &mut Rng, t: &Tok) -> Option<char> {
    match t {
        Tok::Lit(c) | Tok::Esc(c) => Some(*c),
        Tok::One => Some(any_char(rng)),
        Tok::Run => None,
        Tok::List { neg, items } => {
            if *neg {
                for _ in 0..8 {
                    let c = any_char(rng);
                    if tok_matches(t, c) {
                        return Some(c);
                    }
                }
                Some('q')
            } else {
                Some(match rng.pick(items) {
                    Item::Ch(c) => *c,
                    Item::Range(a, b) => {
                        char::from_u32(*a as u32 + rng.below((*b as u32 - *a as u32 + 1) as u64) as u32).unwrap_or(*a)
                    }
                })
            }
        }
    }
}

/// A subject string close to the pattern: an instance of it, then possibly mutated by one edit
pub fn gen_subject(rng: &mut Rng, p: &[Tok]) -> String {
    let mut s: Vec<char> = Vec::new();
    for t in p {
        match char_for(rng, t) {
            Some(c) => s.push(c),
            None => {
                let k = match rng.below(4) {
                    0 => 0,
                    1 => 1,
                    _ => rng.usize(4),
                };
                for _ in 0..k {
                    s.push(any_char(rng));
                }
            }
        }
    }
    match rng.below(8) {
        0 | 1 => {
            if !s.is_empty() {
                let i = rng.usize(s.len());
                s.remove(i);
            }
        }
        2 | 3 => {
            let i = rng.usize(s.len() + 1);
            s.insert(i, any_char(rng));
        }
        4 => {
            if !s.is_empty() {
                let i = rng.usize(s.len());
                s[i] = any_char(rng);
            }
        }
        5 => {
            let k = rng.usize(5);
            s = (0..k).map(|_| any_char(rng)).collect();
        }
        _ => {}
    }
    s.into_iter().collect()
}

/// Short names of the pattern/text features that matter for telling LIKE defects apart
pub fn features(p: &[Tok], s: &[char]) -> Vec<String> {
    let mut f: Vec<String> = Vec::new();
    let mut add = |x: String| {
        if !f.contains(&x) {
            f.push(x)
        }
    };
    for (i, t) in p.iter().enumerate() {
        match t {
            Tok::One => add("underscore".into()),
            Tok::Run => {
                if s.iter().any(|c| *c == '\n') {
                    add("percent+newline-in-text".into())
                } else {
                    add("percent".into())
                }
            }
            Tok::Lit(c) => {
                if LIT_META.contains(c) {
                    add(format!("literal-meta({})", c))
                } else if *c == '\n' || *c == '\r' || *c == '\t' || *c == '\u{0}' {
                    add("literal-control".into())
                } else if !c.is_ascii() {
                    add("literal-nonascii".into())
                } else {
                    add("literal".into())
                }
            }
            Tok::Esc(c) => {
                if *c == '\\' && matches!(p.get(i + 1), Some(Tok::Run) | Some(Tok::One) | Some(Tok::List { .. })) {
                    add("escaped-backslash-before-special".into())
                } else {
                    add(format!("escape({})", c))
                }
            }
            Tok::List { neg, items } => {
                let mut k = if *neg { "neg-list".to_string() } else { "list".to_string() };
                let chars: Vec<char> = items
                    .iter()
                    .flat_map(|i| match i {
                        Item::Ch(c) => vec![*c],
                        Item::Range(a, b) => vec![*a, *b],
                    })
                    .collect();
                if chars.windows(2).any(|w| w[0] == w[1] && ['&', '~', '-'].contains(&w[0])) {
                    k.push_str("(set-operator)");
                } else if chars.iter().any(|c| ['|', '{', '}', '&', '~', '#'].contains(c)) {
                    k.push_str("(meta)");
                }
                add(k)
            }
        }
    }
    if f.is_empty() {
        f.push("empty-pattern".into());
    }
    f.sort();
    f
}

/// Greedy shrink of a failing (pattern, text) pair while `fails` keeps holding
pub fn shrink(p: &[Tok], s: &[char], fails: &dyn Fn(&[Tok], &[char]) -> bool) -> (Vec<Tok>, Vec<char>) {
    let mut p = p.to_vec();
    let mut s = s.to_vec();
    let mut progress = true;
    let mut rounds = 0;
    while progress && rounds < 50 {
        progress = false;
        rounds += 1;
        let mut i = 0;
        while i < p.len() {
            let mut q = p.clone();
            q.remove(i);
            if fails(&q, &s) {
                p = q;
                progress = true;
            } else {
                i += 1;
            }
        }
        let mut j = 0;
        while j < s.len() {
            let mut t = s.clone();
            t.remove(j);
            if fails(&p, &t) {
                s = t;
                progress = true;
            } else {
                j += 1;
            }
        }
        // a pattern token together with one text character
        let mut i = 0;
        'outer: while i < p.len() {
            for j in 0..s.len() {
                let mut q = p.clone();
                q.remove(i);
                let mut t = s.clone();
                t.remove(j);
                if fails(&q, &t) {
                    p = q;
                    s = t;
                    progress = true;
                    continue 'outer;
                }
            }
            i += 1;
        }
        // simplify lists to one item, odd characters to 'a'
        for i in 0..p.len() {
            if let Tok::List { neg, items } = &p[i] {
                if items.len() > 1 {
                    for k in 0..items.len() {
                        let mut q = p.clone();
                        q[i] = Tok::List { neg: *neg, items: vec![items[k].clone()] };
                        if fails(&q, &s) {
                            p = q;
                            progress = true;
                            break;
                        }
                    }
                }
            }
        }
        for j in 0..s.len() {
            if s[j] != 'a' {
                let mut t = s.clone();
                t[j] = 'a';
                if fails(&p, &t) {
                    s = t;
                    progress = true;
                }
            }
        }
    }
    (p, s)
}

/// Hostile pattern text: arbitrary soup of the special characters, for the no-panic part only
pub fn gen_hostile(rng: &mut Rng) -> String {
    const SOUP: &[&str] = &[
        "%", "_", "[", "]", "^", "\\", "-", "{", "}", "|", "(", ")", "*", "+", "?", ".", "$", "a", "b", "0", "9", "&&",
        "~~", "--", "[:alpha:]", "\\d", "\\b", "\\pL", "\\x41", "(?i)", "{1000}", "{2,}", "\n", "é", "(?P<n>", "\\Q",
        "\\E", "[^", "[]", "[^]", "\\", "a-", "-z", "😀",
    ];
    let n = match rng.below(6) {
        0 => rng.usize(3),
        5 => 20 + rng.usize(200),
        _ => 1 + rng.usize(12),
    };
    let mut s = String::new();
    for _ in 0..n {
        s.push_str(*rng.pick(SOUP));
    }
    s
}

/// The feature most likely at fault in a shrunk failing pattern, by fixed priority
pub fn primary_feature(feats: &[String]) -> String {
    let prio = |f: &String| -> usize {
        if f == "underscore" {
            0
        } else if f == "escaped-backslash-before-special" {
            1
        } else if f == "percent+newline-in-text" {
            2
        } else if f.starts_with("literal-meta(|") || f.starts_with("literal-meta({") || f.starts_with("literal-meta(}") {
            3
        } else if f.contains("(set-operator)") {
            4
        } else if f == "percent" {
            5
        } else if f.contains("(meta)") {
            6
        } else if f.starts_with("neg-list") {
            7
        } else if f.starts_with("list") {
            8
        } else if f.starts_with("escape(") {
            9
        } else if f.starts_with("literal-meta") {
            10
        } else {
            11
        }
    };
    let best = feats.iter().map(prio).min().unwrap_or(11);
    if best == 11 {
        return feats.join("+");
    }
    feats.iter().find(|f| prio(f) == best).cloned().unwrap_or_default()
}
