//! C39: event filter where-clauses evaluate safely (every clause `event_filter::validate` accepted)
//! and with Part 4 operator semantics (well-formed clauses), observed on the real
//! `operator::evaluate` (hook) and the public `event_filter::evaluate` against events raised in a
//! real AddressSpace, compared with the reference evaluator in refeval.rs / like.rs.
use crate::common::*;
use crate::genf;
use crate::like::{self, Tok};
use crate::refeval::{self, Exp, Model};
use opcua::server::address_space::{variable::VariableBuilder, AddressSpace, AttrFnGetter};
use opcua::server::events::event::{BaseEventType, Event};
use opcua::server::events::event_filter;
use opcua::sync::Mutex;
use opcua::types::operand::Operand;
use opcua::types::service_types::{
    ContentFilter, ContentFilterElement, EventFilter, FilterOperator, SimpleAttributeOperand,
};
use opcua::types::*;
use opcua::verif::server::{operator_evaluate, operator_like_to_regex};
use serde_json::{json, Value};
use std::collections::{HashMap, HashSet};
use std::io::Cursor;
use std::sync::atomic::{AtomicU64, Ordering as AtomicOrdering};
use std::sync::Arc;

pub fn dispatch(args: &Args, rep: &mut Report) -> bool {
    match args.prop.as_str() {
        "C39" => c39(args, rep),
        _ => return false,
    }
    true
}

pub fn child(name: &str, rest: &[String]) -> Option<i32> {
    match name {
        "events-eval" => Some(child_eval(rest)),
        _ => None,
    }
}

// ---------------------------------------------------------------------------------------------
// environment: an address space with three raised events
// ---------------------------------------------------------------------------------------------

pub struct Ev {
    pub node: NodeId,
    pub idx: i32,
    pub fields: HashMap<String, Variant>,
}

pub struct Env {
    pub aspace: AddressSpace,
    pub source: NodeId,
    pub events: Vec<Ev>,
    pub since: DateTimeUtc,
    pub counter: Arc<AtomicU64>,
}

static COUNTER_NAME: &str = "Counter";

pub fn build_env() -> Env {
    let mut aspace = AddressSpace::new();
    let ns = aspace.register_namespace("urn:vh-events").unwrap();
    let source: NodeId = ObjectId::Server.into();
    let t0 = genf::t0_ticks();
    let counter = Arc::new(AtomicU64::new(0));
    let mut events = Vec::new();
    for idx in 0..3i32 {
        let node = NodeId::new(ns, format!("ev{}", idx));
        let name = format!("Ev{}", idx);
        let time = DateTime::from(t0 + idx as i64 * 10_000_000);
        let mut ev = BaseEventType::new(
            &node,
            ObjectTypeId::BaseEventType,
            name.as_str(),
            name.as_str(),
            NodeId::objects_folder_id(),
            time,
        )
        .source_node(source.clone())
        .source_name(["pump-1", "valve_2", "a%c"][idx as usize])
        .message([
            LocalizedText::new("en", "Level high"),
            LocalizedText::new("", "a_c"),
            LocalizedText::new("de", "x|y"),
        ][idx as usize]
            .clone())
        .severity([500u16, 1, 1000][idx as usize]);
        ev.raise(&mut aspace).expect("raise event");
        let i = idx as usize;
        let extra: Vec<(&str, Variant)> = vec![
            ("Idx", Variant::Int32(idx)),
            ("Foo", Variant::Int32([100, -1, i32::MAX][i])),
            ("Big", Variant::UInt32([4_000_000_000u32, 0, 100][i])),
            ("Bar", Variant::Double([2.5, -0.5, 1e300][i])),
            ("Flt", Variant::Float([1.5f32, 16777216.0, -1.0][i])),
            ("Flag", Variant::Boolean([true, false, true][i])),
            ("Tag", Variant::from(["abc", "ABC", "true"][i])),
            ("Cnt", Variant::Int64([i64::MAX, -1, 550][i])),
            ("U64", Variant::UInt64([u64::MAX, 0, 550][i])),
            ("Small", Variant::SByte([-1i8, 5, 127][i])),
            ("Mask", Variant::Byte([0xF0u8, 0x0F, 0xFF][i])),
            ("G", Variant::from(genf::guid_n(i as u8))),
            ("Nid", Variant::from([NodeId::new(0, 11u32), NodeId::new(1, "x"), NodeId::new(0, 2253u32)][i].clone())),
            ("Code", Variant::from([StatusCode::Good, StatusCode::BadUnexpectedError, StatusCode::BadTimeout][i])),
            ("Bytes", Variant::from(ByteString::from(vec![1u8, 2, [3u8, 4, 3][i]]))),
        ];
        for (name, v) in extra {
            ev.add_property(
                &node,
                NodeId::new(ns, format!("ev{}.{}", idx, name)),
                name,
                name,
                DataTypeId::BaseDataType,
                v,
                &mut aspace,
            );
        }
        if idx == 0 {
            ev.add_property(
                &node,
                NodeId::new(ns, "ev0.OnlyA"),
                "OnlyA",
                "OnlyA",
                DataTypeId::Int32,
                Variant::Int32(7),
                &mut aspace,
            );
            // a property whose reads are counted: a step counter for the evaluation of leaves
            let c = counter.clone();
            let getter = AttrFnGetter::new(move |_, _, _, _, _, _| -> Result<Option<DataValue>, StatusCode> {
                c.fetch_add(1, AtomicOrdering::Relaxed);
                Ok(Some(DataValue::new_now(Variant::Int32(1))))
            });
            VariableBuilder::new(&NodeId::new(ns, "ev0.Counter"), COUNTER_NAME, COUNTER_NAME)
                .property_of(node.clone())
                .has_type_definition(VariableTypeId::PropertyType)
                .data_type(DataTypeId::Int32)
                .value(Variant::Int32(1))
                .value_getter(Arc::new(Mutex::new(getter)))
                .insert(&mut aspace);
        }
        let mut fields = HashMap::new();
        for (name, v) in ev.properties() {
            fields.insert(name.text.as_ref().to_string(), v.clone());
        }
        events.push(Ev { node, idx, fields });
    }
    let since = DateTime::from(t0 - 10_000_000).as_chrono();
    Env { aspace, source, events, since, counter }
}

// ---------------------------------------------------------------------------------------------
// running the real code
// ---------------------------------------------------------------------------------------------

#[derive(Clone, Debug)]
pub enum Out {
    Val(Variant),
    Err(StatusCode),
    Panic(PanicInfo),
}

impl Out {
    fn short(&self) -> String {
        match self {
            Out::Val(v) => short_variant(v),
            Out::Err(e) => format!("Err({})", e),
            Out::Panic(p) => format!("PANIC {} at {}:{}", p.msg, p.file, p.line),
        }
    }
}

fn short_variant(v: &Variant) -> String {
    let s = match v {
        Variant::Empty => "NULL".to_string(),
        Variant::Boolean(true) => "TRUE".to_string(),
        Variant::Boolean(false) => "FALSE".to_string(),
        v => format!("{:?}", v),
    };
    s.chars().take(120).collect()
}

pub fn hook_eval(env: &Env, ev: usize, els: &[ContentFilterElement], root: usize) -> Out {
    let node = &env.events[ev].node;
    let r = catch(|| {
        let mut used = HashSet::new();
        used.insert(root as u32);
        operator_evaluate(node, &els[root], &mut used, els, &env.aspace)
    });
    match r {
        Ok(Ok(v)) => Out::Val(v),
        Ok(Err(e)) => Out::Err(e),
        Err(p) => Out::Panic(p),
    }
}

fn idx_select() -> SimpleAttributeOperand {
    SimpleAttributeOperand {
        type_definition_id: ObjectTypeId::BaseEventType.into(),
        browse_path: Some(vec![QualifiedName::new(0, "Idx")]),
        attribute_id: AttributeId::Value as u32,
        index_range: UAString::null(),
    }
}

fn event_filter_of(els: Option<Vec<ContentFilterElement>>) -> EventFilter {
    EventFilter { select_clauses: Some(vec![idx_select()]), where_clause: ContentFilter { elements: els } }
}

/// The public entry point: which of the three events pass the where clause
pub fn public_eval(env: &Env, filter: &EventFilter) -> Result<Vec<i32>, PanicInfo> {
    catch(|| {
        let r = event_filter::evaluate(&env.source, filter, &env.aspace, &env.since, 7);
        let mut sel = Vec::new();
        for l in r.unwrap_or_default() {
            if let Some(f) = l.event_fields {
                if let Some(Variant::Int32(i)) = f.first() {
                    sel.push(*i);
                }
            }
        }
        sel.sort();
        sel
    })
}

/// (accepted by the server, some element was marked bad in the filter result)
pub fn validate(env: &Env, filter: &EventFilter) -> Result<(bool, bool), PanicInfo> {
    catch(|| match event_filter::validate(filter, &env.aspace) {
        Ok(r) => {
            let bad = r
                .where_clause_result
                .element_results
                .map(|v| v.iter().any(|e| !e.status_code.is_good()))
                .unwrap_or(false);
            (true, bad)
        }
        Err(_) => (false, false),
    })
}

pub fn encode_filter(els: &Option<Vec<ContentFilterElement>>) -> String {
    hex(&ContentFilter { elements: els.clone() }.encode_to_vec())
}

pub fn decode_filter(h: &str) -> Option<Option<Vec<ContentFilterElement>>> {
    let b = unhex(h);
    let mut opts = DecodingOptions::default();
    opts.max_array_length = 100_000;
    ContentFilter::decode(&mut Cursor::new(&b), &opts).ok().map(|f| f.elements)
}

fn describe_operand(o: &ExtensionObject) -> String {
    match Operand::try_from(o) {
        Ok(Operand::LiteralOperand(l)) => short_variant(&l.value),
        Ok(Operand::ElementOperand(e)) => format!("E{}", e.index),
        Ok(Operand::SimpleAttributeOperand(s)) => format!(
            "Attr[{}]{}",
            s.browse_path
                .as_ref()
                .map(|p| p.iter().map(|q| q.name.as_ref().to_string()).collect::<Vec<_>>().join("/"))
                .unwrap_or_else(|| "<none>".into()),
            if s.attribute_id != 13 { format!("@{}", s.attribute_id) } else { String::new() }
        ),
        Ok(Operand::AttributeOperand(_)) => "AttributeOperand".into(),
        Err(_) => format!("Undecodable({})", o.node_id),
    }
}

pub fn describe(els: &[ContentFilterElement]) -> String {
    let mut s = String::new();
    for (i, e) in els.iter().enumerate().take(24) {
        if i > 0 {
            s.push_str("; ");
        }
        s.push_str(&format!("{}: {:?}(", i, e.filter_operator));
        match &e.filter_operands {
            None => s.push_str("<none>"),
            Some(ops) => s.push_str(&ops.iter().map(describe_operand).collect::<Vec<_>>().join(", ")),
        }
        s.push(')');
    }
    if els.len() > 24 {
        s.push_str(&format!("; ... {} elements", els.len()));
    }
    s.chars().take(900).collect()
}

// ---------------------------------------------------------------------------------------------
// classification of a single failing element -> stable signature
// ---------------------------------------------------------------------------------------------

fn element_problem(m: &Model, j: usize) -> Option<&'static str> {
    let e = &m.elements[j];
    let ops = match m.operands_of(j) {
        None => return Some("undecodable-operand"),
        Some(o) => o,
    };
    for o in ops {
        match o {
            Operand::AttributeOperand(_) => return Some("attribute-operand"),
            Operand::ElementOperand(eo) if eo.index as usize >= m.elements.len() => {
                return Some("element-index-out-of-range")
            }
            _ => {}
        }
    }
    match refeval::required_operands(e.filter_operator) {
        None => Some("unsupported-operator"),
        Some((lo, hi)) => {
            if ops.len() < lo {
                Some("too-few-operands")
            } else if ops.len() > hi {
                Some("extra-operands")
            } else {
                None
            }
        }
    }
}

fn tri_letter(m: u8) -> &'static str {
    match m {
        refeval::T => "T",
        refeval::F => "F",
        refeval::N => "N",
        _ => "?",
    }
}

fn type_name(v: &Variant) -> String {
    if matches!(v, Variant::Empty) {
        "Null".into()
    } else {
        format!("{:?}", v.type_id())
    }
}

/// Input class of one element whose operands are all resolvable (literals / attributes)
fn element_class(env: &Env, ev: usize, els: &[ContentFilterElement], j: usize) -> String {
    let fields = &env.events[ev].fields;
    let mut m = Model::new(els, fields);
    if let Some(p) = element_problem(&m, j) {
        if p != "extra-operands" {
            return format!("malformed:{}", p);
        }
    }
    let n = m.operands_of(j).map(|o| o.len()).unwrap_or(0);
    let vals: Vec<Option<Variant>> = (0..n).map(|k| m.operand((j, k)).concrete().cloned()).collect();
    let v = |k: usize| -> Variant { vals.get(k).cloned().flatten().unwrap_or(Variant::Empty) };
    let op = els[j].filter_operator;
    match op {
        FilterOperator::Equals
        | FilterOperator::GreaterThan
        | FilterOperator::LessThan
        | FilterOperator::GreaterThanOrEqual
        | FilterOperator::LessThanOrEqual => format!("compare|{}", refeval::cmp_class(&v(0), &v(1))),
        FilterOperator::Between => {
            let mut c = vec![refeval::cmp_class(&v(0), &v(1)), refeval::cmp_class(&v(0), &v(2))];
            c.sort();
            c.dedup();
            format!("compare|{}", c.join("+"))
        }
        FilterOperator::InList => {
            let mut c: Vec<String> = (1..n).map(|k| refeval::cmp_class(&v(0), &v(k))).collect();
            c.sort();
            c.dedup();
            format!("compare|{}", c.join("+"))
        }
        FilterOperator::And | FilterOperator::Or | FilterOperator::Not => {
            let t: Vec<&str> = (0..n).map(|k| tri_letter(Exp::one(v(k)).tri())).collect();
            format!("logic|{:?}|{}", op, t.join(""))
        }
        FilterOperator::IsNull => format!("isnull|{}", type_name(&v(0))),
        FilterOperator::Like => format!("like|{},{}", type_name(&v(0)), type_name(&v(1))),
        FilterOperator::BitwiseAnd | FilterOperator::BitwiseOr => {
            let (a, b) = (v(0), v(1));
            let k = |x: &Variant| -> &'static str {
                if matches!(x, Variant::Empty) {
                    "null"
                } else if refeval::int_range(x.type_id()).is_some() {
                    "int"
                } else {
                    "non-integer"
                }
            };
            if k(&a) == "int" && k(&b) == "int" {
                let fits = Model::new(els, fields).eval(j).concrete().is_some();
                format!(
                    "bitwise|{}|{}",
                    if a.type_id() == b.type_id() { "same-type" } else { "mixed-types" },
                    if fits { "representable" } else { "not-representable" }
                )
            } else {
                format!("bitwise|{},{}", k(&a), k(&b))
            }
        }
        FilterOperator::Cast => {
            let target = match v(1) {
                Variant::NodeId(n) => refeval::builtin_type_of_node(&n).map(|t| format!("{:?}", t)),
                Variant::ExpandedNodeId(n) => refeval::builtin_type_of_node(&n.node_id).map(|t| format!("{:?}", t)),
                _ => None,
            }
            .unwrap_or_else(|| "other".into());
            let out_of_range = match (refeval::num_of(&v(0)), v(1)) {
                (Some(refeval::Num::I(x)), Variant::NodeId(n)) => refeval::builtin_type_of_node(&n)
                    .and_then(refeval::int_range)
                    .map(|(lo, hi)| x < lo || x > hi)
                    .unwrap_or(false),
                (Some(refeval::Num::I(x)), Variant::ExpandedNodeId(n)) => refeval::builtin_type_of_node(&n.node_id)
                    .and_then(refeval::int_range)
                    .map(|(lo, hi)| x < lo || x > hi)
                    .unwrap_or(false),
                _ => false,
            };
            if out_of_range {
                "cast|integer-out-of-range".to_string()
            } else if target == "SByte" {
                "cast|to-SByte".to_string()
            } else {
                format!("cast|{}->{}", type_name(&v(0)), target)
            }
        }
        other => format!("{:?}", other),
    }
}

pub struct Finding {
    pub signature: String,
    pub detail: String,
    pub minimal: Option<Vec<ContentFilterElement>>,
}

fn reachable_from(m: &Model, root: usize) -> Vec<usize> {
    let n = m.elements.len();
    let mut seen = vec![false; n];
    let mut stack = vec![root];
    let mut out = vec![];
    while let Some(i) = stack.pop() {
        if i >= n || seen[i] {
            continue;
        }
        seen[i] = true;
        out.push(i);
        if let Some(ops) = m.operands_of(i) {
            for o in ops {
                if let Operand::ElementOperand(e) = o {
                    stack.push(e.index as usize);
                }
            }
        }
    }
    out.sort();
    out
}

/// Finds the element at fault below a failing root (the one that fails while all the elements it
/// refers to behave), reduces it to a single element with literal operands and names it.
pub fn localise(env: &Env, ev: usize, els: &[ContentFilterElement]) -> Option<Finding> {
    localise_opt(env, ev, els, false)
}

/// `skip_loops`: sub-elements from which a loop is reachable are not evaluated on their own
pub fn localise_opt(env: &Env, ev: usize, els: &[ContentFilterElement], skip_loops: bool) -> Option<Finding> {
    let fields = &env.events[ev].fields;
    let mut model = Model::new(els, fields);
    let reach = reachable_from(&model, 0);
    if reach.len() > 64 {
        return None;
    }
    let mut outs: HashMap<usize, Out> = HashMap::new();
    let mut bad: HashSet<usize> = HashSet::new();
    for &j in &reach {
        let sh = model.shape(j);
        if sh.cyclic && skip_loops {
            continue;
        }
        if sh.cyclic {
            return None;
        }
        let o = hook_eval(env, ev, els, j);
        let exp = if sh.wellformed { model.eval(j) } else { Exp::any() };
        let is_bad = match &o {
            Out::Panic(_) => true,
            Out::Val(v) => !exp.accepts(v),
            Out::Err(_) => !exp.any,
        };
        if is_bad {
            bad.insert(j);
        }
        outs.insert(j, o);
    }
    let children = |m: &Model, j: usize| -> Vec<usize> {
        m.operands_of(j)
            .map(|ops| {
                ops.iter()
                    .filter_map(|o| match o {
                        Operand::ElementOperand(e) if (e.index as usize) < m.elements.len() => Some(e.index as usize),
                        _ => None,
                    })
                    .collect()
            })
            .unwrap_or_default()
    };
    let culprit = reach
        .iter()
        .rev()
        .cloned()
        .find(|j| bad.contains(j) && children(&model, *j).iter().all(|c| !bad.contains(c)))?;
    // reduce: element operands -> literals of what the real code computed for them
    let mut min = els[culprit].clone();
    let mut reducible = true;
    // (kind, element index) per operand: 0 = keep, 1 = element operand, 2 = simple attribute
    let kinds: Option<Vec<(u8, usize)>> = model.operands_of(culprit).map(|ops| {
        ops.iter()
            .map(|o| match o {
                Operand::ElementOperand(e) if (e.index as usize) < els.len() => (1u8, e.index as usize),
                Operand::SimpleAttributeOperand(_) => (2u8, 0),
                _ => (0u8, 0),
            })
            .collect()
    });
    if let Some(kinds) = kinds {
        let mut new_ops = Vec::new();
        for (k, o) in kinds.iter().enumerate() {
            match o {
                (1, idx) => match outs.get(idx) {
                    Some(Out::Val(v)) => new_ops.push(ExtensionObject::from(&Operand::literal(v.clone()))),
                    _ => {
                        reducible = false;
                        break;
                    }
                },
                (2, _) => {
                    // replace by the literal value of the field when the model knows it
                    match model.operand((culprit, k)).concrete() {
                        Some(v) => new_ops.push(ExtensionObject::from(&Operand::literal(v.clone()))),
                        None => new_ops.push(min.filter_operands.as_ref().unwrap()[k].clone()),
                    }
                }
                _ => new_ops.push(min.filter_operands.as_ref().unwrap()[k].clone()),
            }
        }
        if reducible {
            min.filter_operands = Some(new_ops);
        }
    } else {
        reducible = false;
    }
    let (wit, wj): (Vec<ContentFilterElement>, usize) = if reducible
        && element_problem(&model, culprit) != Some("element-index-out-of-range")
    {
        (vec![min], 0)
    } else {
        (els.to_vec(), culprit)
    };
    // does the reduced witness still fail?
    let mut m2 = Model::new(&wit, fields);
    let sh2 = m2.shape(wj);
    let o2 = hook_eval(env, ev, &wit, wj);
    let exp2 = if sh2.wellformed { m2.eval(wj) } else { Exp::any() };
    let still = match &o2 {
        Out::Panic(_) => true,
        Out::Val(v) => !exp2.accepts(v),
        Out::Err(_) => !exp2.any,
    };
    let (wit, wj, out, exp) = if still {
        (wit, wj, o2, exp2)
    } else {
        let sh = model.shape(culprit);
        let exp = if sh.wellformed { model.eval(culprit) } else { Exp::any() };
        (els.to_vec(), culprit, outs.get(&culprit).cloned().unwrap(), exp)
    };
    let (wit, wj, out, exp) = repair_malformed(env, ev, wit, wj, out, exp);
    let (wit, wj, out, exp) = reduce_to_pair(env, ev, wit, wj, out, exp);
    let mut class = element_class(env, ev, &wit, wj);
    if matches!(out, Out::Panic(_)) && !class.starts_with("malformed:") {
        if let Some(c) = conversion_failure_class(env, ev, &wit, wj) {
            class = c;
        }
    }
    // LIKE mismatches: shrink pattern and text and name the feature at fault
    if wit[wj].filter_operator == FilterOperator::Like && !matches!(out, Out::Panic(_)) {
        if let Some((p, s)) = like_literals(&wit[wj]) {
            if let Some(toks) = like::parse(&p) {
                let chars: Vec<char> = s.chars().collect();
                if let Some(f) = like_finding(env, &toks, &chars) {
                    return Some(f);
                }
            }
        }
    }
    let signature = match &out {
        Out::Panic(p) => format!("{}|{}", p.signature(), class),
        _ => format!("semantic|{}", class),
    };
    let detail = format!(
        "event {} element {} of [{}]: real = {}, reference accepts {{{}}}{}",
        ev,
        wj,
        describe(&wit),
        out.short(),
        exp.vals.iter().map(short_variant).collect::<Vec<_>>().join(", "),
        if exp.any { " (unspecified)" } else { "" }
    );
    Some(Finding { signature, detail, minimal: Some(wit) })
}

fn like_literals(e: &ContentFilterElement) -> Option<(String, String)> {
    let ops = e.filter_operands.as_ref()?;
    if ops.len() != 2 {
        return None;
    }
    let get = |o: &ExtensionObject| -> Option<String> {
        match Operand::try_from(o).ok()? {
            Operand::LiteralOperand(l) => match l.value {
                Variant::String(s) if !s.is_null() => Some(s.as_ref().to_string()),
                Variant::LocalizedText(t) if !t.text.is_null() => Some(t.text.as_ref().to_string()),
                Variant::QualifiedName(q) if !q.name.is_null() => Some(q.name.as_ref().to_string()),
                _ => None,
            },
            _ => None,
        }
    };
    Some((get(&ops[1])?, get(&ops[0])?))
}

/// Real LIKE on two string literals through operator::evaluate
pub fn real_like(env: &Env, pattern: &str, text: &str) -> Out {
    let els = vec![genf::element(
        FilterOperator::Like,
        vec![genf::lit(Variant::from(text)), genf::lit(Variant::from(pattern))],
    )];
    hook_eval(env, 0, &els, 0)
}

fn like_finding(env: &Env, toks: &[Tok], text: &[char]) -> Option<Finding> {
    let fails = |p: &[Tok], s: &[char]| -> bool {
        let expect = like::matches(p, s);
        let st: String = s.iter().collect();
        match real_like(env, &like::render(p), &st) {
            Out::Val(Variant::Boolean(b)) => b != expect,
            Out::Panic(_) => false,
            _ => true,
        }
    };
    if !fails(toks, text) {
        return None;
    }
    let (p, s) = like::shrink(toks, text, &fails);
    let feats = like::features(&p, &s);
    let pat = like::render(&p);
    let st: String = s.iter().collect();
    let real = real_like(env, &pat, &st);
    Some(Finding {
        signature: format!("like-mismatch|{}", like::primary_feature(&feats)),
        detail: format!(
            "LIKE text {:?} pattern {:?}: real = {}, reference = {} (regex built: {:?}); shrunk from text {:?} pattern {:?}",
            st,
            pat,
            real.short(),
            like::matches(&p, &s),
            operator_like_to_regex(&pat),
            text.iter().collect::<String>(),
            like::render(toks)
        ),
        minimal: Some(vec![genf::element(
            FilterOperator::Like,
            vec![genf::lit(Variant::from(st.as_str())), genf::lit(Variant::from(pat.as_str()))],
        )]),
    })
}

fn literal_of(o: &ExtensionObject) -> Option<Variant> {
    match Operand::try_from(o).ok()? {
        Operand::LiteralOperand(l) => Some(l.value),
        _ => None,
    }
}

fn judge(env: &Env, ev: usize, els: &[ContentFilterElement], j: usize) -> (Out, Exp, bool) {
    let fields = &env.events[ev].fields;
    let mut m = Model::new(els, fields);
    let sh = m.shape(j);
    let out = hook_eval(env, ev, els, j);
    let exp = if sh.wellformed { m.eval(j) } else { Exp::any() };
    let bad = match &out {
        Out::Panic(_) => true,
        Out::Val(v) => !exp.accepts(v),
        Out::Err(_) => !exp.any,
    };
    (out, exp, bad)
}

/// A malformed element that panics: is the malformation the cause? Replace what is malformed
/// (missing operands, out-of-range element operands, AttributeOperands) by harmless literals and
/// resolve the other operands to literals; if the same panic remains, the repaired single element
/// is the witness and it is classified like a well-formed one.
fn repair_malformed(
    env: &Env,
    ev: usize,
    wit: Vec<ContentFilterElement>,
    wj: usize,
    out: Out,
    exp: Exp,
) -> (Vec<ContentFilterElement>, usize, Out, Exp) {
    let psig = match &out {
        Out::Panic(p) => p.signature(),
        _ => return (wit, wj, out, exp),
    };
    let fields = &env.events[ev].fields;
    let mut m = Model::new(&wit, fields);
    if element_problem(&m, wj).is_none() {
        return (wit, wj, out, exp);
    }
    let ops = match m.operands_of(wj) {
        Some(o) => o.len(),
        None => return (wit, wj, out, exp),
    };
    let mut new_ops: Vec<ExtensionObject> = Vec::new();
    for k in 0..ops {
        enum K {
            Keep,
            Lit(Variant),
            Elem(usize),
        }
        let kind = match &m.operands_of(wj).unwrap()[k] {
            Operand::LiteralOperand(_) => K::Keep,
            Operand::AttributeOperand(_) => K::Lit(Variant::Empty),
            Operand::SimpleAttributeOperand(_) => K::Elem(usize::MAX),
            Operand::ElementOperand(e) => {
                if (e.index as usize) < wit.len() {
                    K::Elem(e.index as usize)
                } else {
                    K::Lit(Variant::Boolean(true))
                }
            }
        };
        match kind {
            K::Keep => new_ops.push(wit[wj].filter_operands.as_ref().unwrap()[k].clone()),
            K::Lit(v) => new_ops.push(ExtensionObject::from(&Operand::literal(v))),
            K::Elem(usize::MAX) => match m.operand((wj, k)).concrete() {
                Some(v) => new_ops.push(ExtensionObject::from(&Operand::literal(v.clone()))),
                None => return (wit, wj, out, exp),
            },
            K::Elem(j) => {
                if m.shape(j).cyclic {
                    new_ops.push(ExtensionObject::from(&Operand::literal(Variant::Empty)));
                } else {
                    match hook_eval(env, ev, &wit, j) {
                        Out::Val(v) => new_ops.push(ExtensionObject::from(&Operand::literal(v))),
                        _ => return (wit, wj, out, exp),
                    }
                }
            }
        }
    }
    if let Some((lo, _)) = refeval::required_operands(wit[wj].filter_operator) {
        while new_ops.len() < lo {
            new_ops.push(ExtensionObject::from(&Operand::literal(Variant::Int32(1))));
        }
    }
    let w = vec![ContentFilterElement { filter_operator: wit[wj].filter_operator, filter_operands: Some(new_ops) }];
    let (o, x, bad) = judge(env, ev, &w, 0);
    match &o {
        Out::Panic(p) if bad && p.signature() == psig => (w, 0, o, x),
        _ => (wit, wj, out, exp),
    }
}

/// Between / InList with literal operands: try the two-operand comparisons they are made of
fn reduce_to_pair(
    env: &Env,
    ev: usize,
    wit: Vec<ContentFilterElement>,
    wj: usize,
    out: Out,
    exp: Exp,
) -> (Vec<ContentFilterElement>, usize, Out, Exp) {
    if wit.len() != 1 {
        return (wit, wj, out, exp);
    }
    let e = &wit[0];
    let ops = match &e.filter_operands {
        Some(o) => o.clone(),
        None => return (wit, wj, out, exp),
    };
    let mut candidates: Vec<ContentFilterElement> = Vec::new();
    match e.filter_operator {
        FilterOperator::InList if ops.len() > 2 => {
            for k in 1..ops.len() {
                candidates.push(ContentFilterElement {
                    filter_operator: FilterOperator::InList,
                    filter_operands: Some(vec![ops[0].clone(), ops[k].clone()]),
                });
            }
        }
        FilterOperator::Between if ops.len() >= 3 => {
            candidates.push(ContentFilterElement {
                filter_operator: FilterOperator::GreaterThanOrEqual,
                filter_operands: Some(vec![ops[0].clone(), ops[1].clone()]),
            });
            candidates.push(ContentFilterElement {
                filter_operator: FilterOperator::LessThanOrEqual,
                filter_operands: Some(vec![ops[0].clone(), ops[2].clone()]),
            });
        }
        _ => {}
    }
    let want_panic = matches!(out, Out::Panic(_));
    for c in candidates {
        let w = vec![c];
        let (o, x, bad) = judge(env, ev, &w, 0);
        if bad && matches!(o, Out::Panic(_)) == want_panic {
            return (w, 0, o, x);
        }
    }
    (wit, wj, out, exp)
}

/// For a panicking two-operand comparison / bitwise element on literals: did the real two-operand
/// `convert` leave the operands with different types (a failed conversion the operator then trips on)?
fn conversion_failure_class(_env: &Env, _ev: usize, wit: &[ContentFilterElement], wj: usize) -> Option<String> {
    let e = &wit[wj];
    let ops = e.filter_operands.as_ref()?;
    let group = match e.filter_operator {
        FilterOperator::Equals
        | FilterOperator::GreaterThan
        | FilterOperator::LessThan
        | FilterOperator::GreaterThanOrEqual
        | FilterOperator::LessThanOrEqual
        | FilterOperator::InList
        | FilterOperator::Between => "compare",
        FilterOperator::BitwiseAnd | FilterOperator::BitwiseOr => "bitwise",
        _ => return None,
    };
    if ops.len() < 2 {
        return None;
    }
    let a = literal_of(&ops[0])?;
    for k in 1..ops.len().min(3) {
        if let Some(b) = literal_of(&ops[k]) {
            if let Ok((x, y)) = catch(|| opcua::verif::server::operator_convert(a.clone(), b.clone())) {
                if x.type_id() != y.type_id() {
                    return Some(format!("{}|operand-not-convertible-to-common-type", group));
                }
            }
        }
    }
    None
}

include!("p_events_work.rs");
