// included by p_events.rs: the checking core, the workloads, the isolated child and replay

pub struct ChildCase {
    pub hex: String,
    pub class: String,
    pub case: Value,
    pub stack_kb: u32,
    pub wellformed: bool,
}

#[derive(Default)]
pub struct Ctx {
    pub pending: Vec<ChildCase>,
}

fn is_bad(out: &Out, exp: &Exp) -> bool {
    match out {
        Out::Panic(_) => true,
        Out::Val(v) => !exp.accepts(v),
        Out::Err(_) => !exp.any,
    }
}

fn mask_str(e: &Exp) -> String {
    if e.any {
        return "*".into();
    }
    e.vals
        .iter()
        .map(|v| match v {
            Variant::Boolean(true) => "T".to_string(),
            Variant::Boolean(false) => "F".to_string(),
            Variant::Empty => "N".to_string(),
            v => format!("{:?}", v.type_id()),
        })
        .collect::<Vec<_>>()
        .join("")
}

fn operand_types(els: &[ContentFilterElement], j: usize) -> String {
    els[j]
        .filter_operands
        .as_ref()
        .map(|ops| {
            ops.iter()
                .map(|o| match Operand::try_from(o) {
                    Ok(Operand::LiteralOperand(l)) => type_name(&l.value),
                    Ok(Operand::ElementOperand(_)) => "Elem".into(),
                    Ok(Operand::SimpleAttributeOperand(_)) => "Attr".into(),
                    Ok(Operand::AttributeOperand(_)) => "AttrOp".into(),
                    Err(_) => "Bad".into(),
                })
                .collect::<Vec<_>>()
                .join(",")
        })
        .unwrap_or_else(|| "none".into())
}

/// Checks one filter: acceptance by the public validate, then (if accepted) the real evaluation
/// through the hook per event and through the public evaluate, against the reference.
pub fn check_filter(
    env: &Env,
    rep: &mut Report,
    ctx: &mut Ctx,
    els_opt: Option<Vec<ContentFilterElement>>,
    wl: &str,
    injected: Option<&str>,
) {
    let hexs = encode_filter(&els_opt);
    let filter = event_filter_of(els_opt.clone());
    let els = els_opt.clone().unwrap_or_default();
    let sh = Model::new(&els, &env.events[0].fields).shape(0);
    let exp0 = if els.is_empty() {
        Exp::one(Variant::Boolean(true))
    } else if sh.wellformed {
        Model::new(&els, &env.events[0].fields).eval(0)
    } else {
        Exp::any()
    };
    let root = els
        .first()
        .map(|e| format!("{:?}", e.filter_operator))
        .unwrap_or_else(|| if els_opt.is_none() { "no-elements".into() } else { "empty".into() });
    let class = match wl {
        "one" => format!("one|{}|{}|{}", root, operand_types(&els, 0), mask_str(&exp0)),
        "mal" => format!(
            "mal|{}|reach{}|wf{}|{}",
            injected.unwrap_or("?"),
            sh.reachable.min(9),
            sh.wellformed as u8,
            if sh.cyclic { "loop" } else { "noloop" }
        ),
        _ => format!("{}|n{}|d{}|{}|{}|wf{}", wl, els.len().min(20), sh.depth.min(20), root, mask_str(&exp0), sh.wellformed as u8),
    };
    let case = json!({"wl": wl, "filter": hexs, "injected": injected, "class": class, "text": describe(&els)});
    rep.begin_case(&case);
    match validate(env, &filter) {
        Err(p) => {
            rep.case(&class);
            rep.violation(
                format!("validate-{}", p.signature()),
                format!("event_filter::validate panicked: {} at {}:{}", p.msg, p.file, p.line),
                case,
            );
            return;
        }
        Ok((false, _)) => {
            rep.case(&class);
            rep.count("filters_rejected_by_validate", 1);
            return;
        }
        Ok((true, bad)) => {
            rep.count("filters_accepted_by_validate", 1);
            if bad {
                rep.count("accepted_although_an_element_result_is_bad", 1);
            }
            if !sh.wellformed {
                rep.count("accepted_malformed_reachable", 1);
            }
        }
    }
    if sh.cyclic || sh.depth > 40 {
        // may recurse without bound: evaluate in an isolated child with a bounded stack
        ctx.pending.push(ChildCase {
            hex: hexs,
            class: class.clone(),
            case,
            stack_kb: if sh.cyclic { 512 } else { 2048 },
            wellformed: sh.wellformed,
        });
        return;
    }
    rep.case(&class);
    rep.sample(case.clone());
    let mut reported = false;
    let mut any_hook_panic = false;
    let mut verdicts: Vec<(Exp, Option<Out>)> = Vec::new();
    for ev in 0..env.events.len() {
        if els.is_empty() {
            verdicts.push((Exp::one(Variant::Boolean(true)), None));
            continue;
        }
        let out = hook_eval(env, ev, &els, 0);
        let exp = if sh.wellformed { Model::new(&els, &env.events[ev].fields).eval(0) } else { Exp::any() };
        rep.count("hook_evaluations", 1);
        match &out {
            Out::Val(Variant::Boolean(true)) => rep.count("result_true", 1),
            Out::Val(Variant::Boolean(false)) => rep.count("result_false", 1),
            Out::Val(Variant::Empty) => rep.count("result_null", 1),
            Out::Val(_) => rep.count("result_other_value", 1),
            Out::Err(_) => rep.count("result_error_status", 1),
            Out::Panic(_) => {
                any_hook_panic = true;
                rep.count("result_panic", 1)
            }
        }
        if sh.wellformed && !exp.any {
            rep.count("wellformed_results_compared", 1);
        }
        if is_bad(&out, &exp) && !reported {
            reported = true;
            let mut c = case.clone();
            let f = localise(env, ev, &els).unwrap_or_else(|| Finding {
                signature: match &out {
                    Out::Panic(p) => format!("{}|unlocalised|{}", p.signature(), root),
                    _ => format!("semantic|unlocalised|{}", root),
                },
                detail: format!("event {}: real = {}, reference accepts {}", ev, out.short(), mask_str(&exp)),
                minimal: None,
            });
            if let Some(m) = &f.minimal {
                c["minimal"] = json!(encode_filter(&Some(m.clone())));
                c["minimal_text"] = json!(describe(m));
            }
            c["event"] = json!(ev);
            rep.violation(f.signature, f.detail, c);
        }
        verdicts.push((exp, Some(out)));
    }
    // the public path over all three events at once
    rep.count("public_evaluations", 1);
    match public_eval(env, &filter) {
        Err(p) => {
            if !any_hook_panic && !reported {
                rep.violation(
                    format!("public-only-{}", p.signature()),
                    format!("event_filter::evaluate panicked although operator::evaluate did not: {} at {}:{}", p.msg, p.file, p.line),
                    case.clone(),
                );
            }
        }
        Ok(sel) => {
            rep.count("events_selected", sel.len() as u64);
            for (ev, (exp, out)) in verdicts.iter().enumerate() {
                if let Some(o) = out {
                    if is_bad(o, exp) {
                        continue;
                    }
                }
                let idx = env.events[ev].idx;
                let selected = sel.contains(&idx);
                // what did the hook level say for this event (the public path must agree with it)
                let hook_true = match out {
                    Some(Out::Val(Variant::Boolean(true))) => Some(true),
                    Some(_) => Some(false),
                    None => None,
                };
                let must = !exp.any && exp.vals.len() == 1 && matches!(exp.vals[0], Variant::Boolean(true));
                let must_not = !exp.any && !exp.accepts(&Variant::Boolean(true));
                let wrong = (must && !selected) || (must_not && selected) || hook_true.map(|h| h != selected).unwrap_or(false);
                if wrong && !reported {
                    reported = true;
                    rep.violation(
                        format!("public-selection|{}", if selected { "selected-but-not-true" } else { "true-but-not-selected" }),
                        format!(
                            "event {} selected={} by event_filter::evaluate, operator::evaluate gave {:?}, reference accepts {}",
                            ev,
                            selected,
                            out.as_ref().map(|o| o.short()),
                            mask_str(exp)
                        ),
                        case.clone(),
                    );
                }
            }
        }
    }
}

// ---------------------------------------------------------------------------------------------
// isolated child: filters that may recurse deeply or without bound
// ---------------------------------------------------------------------------------------------

fn child_eval(_rest: &[String]) -> i32 {
    let input = String::from_utf8_lossy(&read_stdin()).to_string();
    let env = build_env();
    let out = std::io::stdout();
    for (i, line) in input.lines().enumerate() {
        let mut it = line.split_whitespace();
        let stack_kb: usize = it.next().and_then(|s| s.parse().ok()).unwrap_or(512);
        let els_opt = match it.next().and_then(decode_filter) {
            Some(e) => e,
            None => {
                use std::io::Write;
                let _ = writeln!(out.lock(), "{}", json!({"i": i, "bad_input": true}));
                continue;
            }
        };
        let envr = &env;
        let res: Value = std::thread::scope(|s| {
            std::thread::Builder::new()
                .stack_size(stack_kb * 1024)
                .spawn_scoped(s, move || {
                    let els = els_opt.clone().unwrap_or_default();
                    let filter = event_filter_of(els_opt.clone());
                    let hook = if els.is_empty() {
                        json!({"none": true})
                    } else {
                        match hook_eval(envr, 0, &els, 0) {
                            Out::Val(v) => json!({"val": hex(&v.encode_to_vec())}),
                            Out::Err(e) => json!({"err": e.bits()}),
                            Out::Panic(p) => json!({"panic": p.signature(), "msg": format!("{} at {}:{}", p.msg, p.file, p.line)}),
                        }
                    };
                    let public = match public_eval(envr, &filter) {
                        Ok(sel) => json!({"sel": sel}),
                        Err(p) => json!({"panic": p.signature(), "msg": format!("{} at {}:{}", p.msg, p.file, p.line)}),
                    };
                    json!({"hook": hook, "public": public})
                })
                .expect("spawn")
                .join()
                .unwrap_or_else(|_| json!({"thread_panicked": true}))
        });
        use std::io::Write;
        let mut r = res;
        r["i"] = json!(i);
        let mut o = out.lock();
        let _ = writeln!(o, "{}", r);
        let _ = o.flush();
    }
    0
}

fn run_child_cases(env: &Env, rep: &mut Report, cases: Vec<ChildCase>) {
    let mut start = 0usize;
    let mut restarts = 0;
    while start < cases.len() {
        let batch = &cases[start..];
        let mut input = String::new();
        for c in batch {
            input.push_str(&format!("{} {}\n", c.stack_kb, c.hex));
        }
        let r = run_child(&["events-eval".to_string()], input.as_bytes(), 120_000, 0);
        rep.count("child_processes", 1);
        let mut done = 0usize;
        for line in r.stdout.lines() {
            let v: Value = match serde_json::from_str(line) {
                Ok(v) => v,
                Err(_) => continue,
            };
            let i = v["i"].as_u64().unwrap_or(u64::MAX) as usize;
            if i != done || i >= batch.len() {
                continue;
            }
            done += 1;
            let c = &batch[i];
            rep.case(&c.class);
            rep.count("child_cases_completed", 1);
            judge_child_result(env, rep, c, &v);
        }
        if done == batch.len() {
            break;
        }
        // the child did not get through case `done`
        let c = &batch[done];
        rep.case(&c.class);
        let kind = if c.stack_kb >= 2048 { "deep-element-chain" } else { "element-loop" };
        if r.timed_out {
            rep.inconclusive(format!("child timed out on case {} ({})", c.class, kind));
        } else if let Some(sig) = r.signal {
            let what = if r.stderr_tail.contains("overflowed its stack") { "stack-overflow" } else { "signal" };
            rep.violation(
                format!("crash|{}|{}", what, kind),
                format!(
                    "evaluating an accepted filter killed the process (signal {}, {} KiB stack): [{}]; stderr: {}",
                    sig,
                    c.stack_kb,
                    c.case["text"].as_str().unwrap_or(""),
                    r.stderr_tail.lines().last().unwrap_or("")
                ),
                c.case.clone(),
            );
        } else {
            rep.inconclusive(format!(
                "child exited {:?} without finishing case {}: {}",
                r.exit_code,
                c.class,
                r.stderr_tail.lines().last().unwrap_or("")
            ));
        }
        start += done + 1;
        restarts += 1;
        if restarts >= 8 {
            // the same crash over and over: the violation is recorded, the rest adds nothing
            let skipped = cases.len().saturating_sub(start);
            rep.count("child_cases_skipped_after_repeated_crashes", skipped as u64);
            rep.note(format!("{} isolated cases not run after {} child crashes", skipped, restarts));
            break;
        }
    }
}

fn judge_child_result(env: &Env, rep: &mut Report, c: &ChildCase, v: &Value) {
    let kind = if c.stack_kb >= 2048 { "deep-element-chain" } else { "element-loop" };
    for part in ["hook", "public"] {
        if let Some(sig) = v[part]["panic"].as_str() {
            if let Some(Some(els)) = decode_filter(&c.hex) {
                if els.len() <= 64 {
                    let mut found = (0..env.events.len()).find_map(|ev| localise_opt(env, ev, &els, true));
                    if found.is_none() {
                        // the panicking element sits on the loop: cut the loop (self and backward
                        // element operands become NULL literals) and see whether the panic remains
                        let mut cut = els.clone();
                        for (i, e) in cut.iter_mut().enumerate() {
                            if let Some(ops) = e.filter_operands.as_mut() {
                                for o in ops.iter_mut() {
                                    if let Ok(Operand::ElementOperand(eo)) = Operand::try_from(&*o) {
                                        if (eo.index as usize) <= i {
                                            *o = ExtensionObject::from(&Operand::literal(Variant::Empty));
                                        }
                                    }
                                }
                            }
                        }
                        found = (0..env.events.len())
                            .find_map(|ev| localise_opt(env, ev, &cut, false).filter(|f| f.signature.starts_with(sig)));
                    }
                    if let Some(f) = found {
                        let mut case = c.case.clone();
                        if let Some(m) = &f.minimal {
                            case["minimal_text"] = json!(describe(m));
                        }
                        rep.violation(f.signature, f.detail, case);
                        return;
                    }
                }
            }
            rep.violation(
                format!("{}|{}", sig, kind),
                format!("{} evaluation panicked: {} on [{}]", part, v[part]["msg"].as_str().unwrap_or(""), c.case["text"].as_str().unwrap_or("")),
                c.case.clone(),
            );
            return;
        }
    }
    if !c.wellformed {
        return;
    }
    // a legal (loop-free) deep filter: the result must be the reference result
    let els = match decode_filter(&c.hex) {
        Some(Some(e)) => e,
        _ => return,
    };
    let exp = Model::new(&els, &env.events[0].fields).eval(0);
    let out = if let Some(h) = v["hook"]["val"].as_str() {
        match Variant::decode(&mut Cursor::new(unhex(h)), &DecodingOptions::default()) {
            Ok(v) => Out::Val(v),
            Err(_) => return,
        }
    } else if let Some(e) = v["hook"]["err"].as_u64() {
        Out::Err(StatusCode::from_bits_truncate(e as u32))
    } else {
        return;
    };
    rep.count("wellformed_results_compared", 1);
    if is_bad(&out, &exp) {
        rep.violation(
            format!("semantic|{}", kind),
            format!("real = {}, reference accepts {} on [{}]", out.short(), mask_str(&exp), c.case["text"].as_str().unwrap_or("")),
            c.case.clone(),
        );
    }
}

// ---------------------------------------------------------------------------------------------
// workloads
// ---------------------------------------------------------------------------------------------

fn like_case(env: &Env, rep: &mut Report, pattern: &str, text: &str, wellformed_expected: bool) {
    let toks = like::parse(pattern);
    let chars: Vec<char> = text.chars().collect();
    let class = match &toks {
        Some(t) => format!("like|{}|{}", like::features(t, &chars).join("+"), like::matches(t, &chars)),
        None => format!("like-hostile|len{}", pattern.chars().count().min(40) / 4),
    };
    let case = json!({"wl": "like", "pattern": pattern, "text": text, "class": class});
    rep.begin_case(&case);
    let out = real_like(env, pattern, text);
    rep.case(&class);
    rep.sample(case.clone());
    rep.count("like_evaluations", 1);
    if wellformed_expected && toks.is_none() {
        rep.inconclusive(format!("generator produced a pattern outside its own grammar: {:?}", pattern));
        return;
    }
    match (&out, &toks) {
        (Out::Panic(p), _) => rep.violation(
            format!("{}|like", p.signature()),
            format!("LIKE text {:?} pattern {:?} panicked: {} at {}:{}", text, pattern, p.msg, p.file, p.line),
            case,
        ),
        (_, None) => {
            rep.count("like_hostile_patterns_survived", 1);
        }
        (Out::Val(Variant::Boolean(b)), Some(t)) => {
            rep.count("like_results_compared", 1);
            if *b != like::matches(t, &chars) {
                if let Some(f) = like_finding(env, t, &chars) {
                    let mut c = case;
                    if let Some(m) = &f.minimal {
                        c["minimal_text"] = json!(describe(m));
                    }
                    rep.violation(f.signature, f.detail, c);
                }
            }
        }
        (o, Some(_)) => rep.violation(
            "like-mismatch|non-boolean-result".to_string(),
            format!("LIKE text {:?} pattern {:?} gave {}", text, pattern, o.short()),
            case,
        ),
    }
}

fn deep_chain(kind: u64, n: usize) -> Vec<ContentFilterElement> {
    // n elements, element i refers to i+1, the last one is a leaf
    let mut els = Vec::with_capacity(n);
    for i in 0..n {
        if i + 1 == n {
            els.push(genf::element(FilterOperator::Equals, vec![genf::lit(Variant::Int32(1)), genf::lit(Variant::Int32(1))]));
        } else {
            let next = Operand::element(i as u32 + 1);
            els.push(match kind {
                0 => genf::element(FilterOperator::Not, vec![next]),
                1 => genf::element(FilterOperator::And, vec![genf::lit(Variant::Boolean(true)), next]),
                2 => genf::element(FilterOperator::Or, vec![next, genf::lit(Variant::Boolean(false))]),
                _ => genf::element(FilterOperator::InList, vec![genf::lit(Variant::Boolean(true)), genf::lit(Variant::Int32(7)), next]),
            });
        }
    }
    els
}

fn loop_filter(rng: &mut Rng) -> Vec<ContentFilterElement> {
    let n = 1 + rng.usize(6);
    let op = *rng.pick(&[0u64, 1, 2, 3]);
    let mut els = deep_chain(op, n + 1);
    // close a loop: some element refers back to an element on the path
    let from = rng.usize(n);
    let to = rng.usize(from + 1);
    let back = Operand::element(to as u32);
    els[from] = match rng.below(4) {
        0 => genf::element(FilterOperator::Not, vec![back]),
        1 => genf::element(FilterOperator::And, vec![Operand::element(to as u32), back]),
        2 => genf::element(FilterOperator::Equals, vec![back, genf::lit(Variant::Boolean(true))]),
        _ => genf::element(FilterOperator::Between, vec![genf::lit(Variant::Int32(1)), back, Operand::element(from as u32)]),
    };
    els
}

pub fn c39(args: &Args, rep: &mut Report) {
    rep.max_violations = 400;
    let env = build_env();
    if let Some(path) = &args.replay {
        replay(&env, rep, path);
        return;
    }
    let mut rng = Rng::new(args.seed ^ 0xC39 ^ ((args.shard as u64) << 32));
    let mut ctx = Ctx::default();

    // sanity of the environment: the three events are visible to the public evaluate
    match public_eval(&env, &event_filter_of(None)) {
        Ok(sel) if sel == vec![0, 1, 2] => {}
        other => {
            rep.inconclusive(format!("environment: the raised events are not all selected by an empty where clause: {:?}", other.map_err(|p| p.msg)));
            return;
        }
    }

    // 1. LIKE: structured patterns against near-miss texts, plus hostile pattern soup (safety only)
    let n_like = args.budget(60_000, 1_200_000);
    for i in 0..n_like {
        if i % 8 == 7 {
            let p = like::gen_hostile(&mut rng);
            let t = crate::gen::string(&mut rng, 20);
            like_case(&env, rep, &p, &t, false);
        } else {
            let p = like::gen_pattern(&mut rng);
            let t = like::gen_subject(&mut rng, &p);
            like_case(&env, rep, &like::render(&p), &t, true);
        }
    }

    // 2. single elements of every operator with boundary literals and event fields
    let n_one = args.budget(60_000, 1_200_000);
    for _ in 0..n_one {
        let op = *rng.pick(genf::LEAF_OPS);
        let el = genf::leaf(&mut rng, op);
        // ordering operators: a > b and b > a may not both be TRUE, whatever the reading
        if matches!(op, FilterOperator::GreaterThan | FilterOperator::LessThan) {
            antisymmetry(&env, rep, &el);
        }
        check_filter(&env, rep, &mut ctx, Some(vec![el]), "one", None);
    }

    // 3. well-formed trees with shared sub-elements
    let n_tree = args.budget(20_000, 400_000);
    for _ in 0..n_tree {
        let els = genf::tree(&mut rng, 10);
        check_filter(&env, rep, &mut ctx, Some(els), "tree", None);
    }

    // 4. malformed filters (one malformation each), accepted or not is up to validate
    let n_mal = args.budget(16_000, 320_000);
    for i in 0..n_mal {
        let mut els = genf::tree(&mut rng, 8);
        let what = genf::MALFORMATIONS[(i as usize) % genf::MALFORMATIONS.len()];
        // mostly a reachable element
        let reach = {
            let m = Model::new(&els, &env.events[0].fields);
            reachable_from(&m, 0)
        };
        let k = if rng.chance(5, 6) { *rng.pick(&reach) } else { rng.usize(els.len()) };
        genf::malform(&mut rng, &mut els, k, what);
        check_filter(&env, rep, &mut ctx, Some(els), "mal", Some(what));
    }
    if args.shard == 0 {
        check_filter(&env, rep, &mut ctx, None, "mal", Some("elements-none"));
        check_filter(&env, rep, &mut ctx, Some(vec![]), "mal", Some("elements-empty"));
    }
    // odd simple attribute operands
    for _ in 0..args.budget(2_000, 40_000) {
        let op = *rng.pick(genf::CMP_OPS);
        let el = genf::element(op, vec![genf::odd_attr(&mut rng), genf::value_operand(&mut rng)]);
        check_filter(&env, rep, &mut ctx, Some(vec![el]), "oddattr", None);
    }

    // 5. loops among element operands and deep legal chains: isolated child, bounded stack
    for _ in 0..args.budget(240, 2_400) {
        let els = loop_filter(&mut rng);
        check_filter(&env, rep, &mut ctx, Some(els), "loop", Some("loop"));
    }
    if args.shard == 0 {
        for kind in 0..4u64 {
            for n in [41usize, 100, 250, 500, 1000] {
                check_filter(&env, rep, &mut ctx, Some(deep_chain(kind, n)), "deep", None);
            }
        }
    }
    let pending = std::mem::take(&mut ctx.pending);
    rep.count("cases_run_in_isolated_child", pending.len() as u64);
    run_child_cases(&env, rep, pending);

    // 6. evidence only: how many leaf evaluations a legal filter with shared sub-elements costs
    if args.shard == 0 {
        shared_dag_steps(&env, rep);
    }
}

fn antisymmetry(env: &Env, rep: &mut Report, el: &ContentFilterElement) {
    let ops = match &el.filter_operands {
        Some(o) if o.len() == 2 => o,
        _ => return,
    };
    let swapped = ContentFilterElement { filter_operator: el.filter_operator, filter_operands: Some(vec![ops[1].clone(), ops[0].clone()]) };
    let a = vec![el.clone()];
    let b = vec![swapped];
    for ev in 0..env.events.len() {
        let (x, y) = (hook_eval(env, ev, &a, 0), hook_eval(env, ev, &b, 0));
        rep.count("antisymmetry_pairs", 1);
        if let (Out::Val(Variant::Boolean(true)), Out::Val(Variant::Boolean(true))) = (&x, &y) {
            let class = element_class(env, ev, &a, 0);
            let case = json!({"wl": "one", "filter": encode_filter(&Some(a.clone())), "class": format!("antisymmetry|{}", class), "text": describe(&a)});
            let _ = &class;
            rep.violation(
                "semantic|antisymmetry|ordering-true-in-both-directions".to_string(),
                format!("[{}] and the same with swapped operands are both TRUE (event {})", describe(&a), ev),
                case,
            );
            return;
        }
    }
}

fn shared_dag_steps(env: &Env, rep: &mut Report) {
    for d in [4usize, 8, 12, 16] {
        let mut els = Vec::new();
        for i in 0..d {
            els.push(genf::element(FilterOperator::And, vec![Operand::element(i as u32 + 1), Operand::element(i as u32 + 1)]));
        }
        els.push(genf::element(FilterOperator::Equals, vec![genf::attr(COUNTER_NAME), genf::lit(Variant::Int32(1))]));
        env.counter.store(0, AtomicOrdering::Relaxed);
        let out = hook_eval(env, 0, &els, 0);
        let steps = env.counter.load(AtomicOrdering::Relaxed);
        rep.count(&format!("shared_dag_depth{}_elements{}_leaf_reads", d, d + 1), steps);
        if !matches!(out, Out::Val(Variant::Boolean(true))) {
            rep.note(format!("shared-element filter of depth {} evaluated to {}", d, out.short()));
        }
    }
    rep.note("shared sub-elements are re-evaluated per path: leaf reads double with every level (evidence only, termination is not in question)".to_string());
}

fn replay(env: &Env, rep: &mut Report, path: &str) {
    let v: Value = match std::fs::read_to_string(path).ok().and_then(|s| serde_json::from_str(&s).ok()) {
        Some(v) => v,
        None => {
            rep.inconclusive(format!("cannot read replay file {}", path));
            return;
        }
    };
    let case = &v["case"];
    let wl = case["wl"].as_str().unwrap_or("");
    if wl == "like" {
        let p = case["pattern"].as_str().unwrap_or("");
        let t = case["text"].as_str().unwrap_or("");
        like_case(env, rep, p, t, false);
        return;
    }
    let els = match case["filter"].as_str().and_then(decode_filter) {
        Some(e) => e,
        None => {
            rep.inconclusive("replay case has no decodable filter".to_string());
            return;
        }
    };
    let mut ctx = Ctx::default();
    if wl == "one" {
        if let Some(e) = els.as_ref().and_then(|e| e.first()) {
            if matches!(e.filter_operator, FilterOperator::GreaterThan | FilterOperator::LessThan) {
                antisymmetry(env, rep, e);
            }
        }
    }
    let wl = wl.to_string();
    check_filter(env, rep, &mut ctx, els, &wl, case["injected"].as_str());
    let pending = std::mem::take(&mut ctx.pending);
    run_child_cases(env, rep, pending);
}
