//! Reference evaluator for ContentFilter where-clauses, written from OPC UA Part 4 7.4 (FilterOperator
//! table, conversion rules, data precedence table, logical AND/OR/NOT truth tables). It does not look
//! at operator.rs. Where Part 4 leaves a result open (or two readings are defensible) the reference
//! returns a SET of acceptable results; `any` means "unspecified, safety only".
use crate::like;
use opcua::types::operand::Operand;
use opcua::types::service_types::{ContentFilterElement, FilterOperator, SimpleAttributeOperand};
use opcua::types::*;
use std::cmp::Ordering;
use std::collections::HashMap;
use std::convert::TryFrom;

pub const T: u8 = 1;
pub const F: u8 = 2;
pub const N: u8 = 4;
pub const ANYB: u8 = 7;

#[derive(Clone, Debug)]
pub struct Exp {
    pub vals: Vec<Variant>,
    pub any: bool,
}

pub fn same(a: &Variant, b: &Variant) -> bool {
    match (a, b) {
        (Variant::Double(x), Variant::Double(y)) => x.to_bits() == y.to_bits() || (x.is_nan() && y.is_nan()),
        (Variant::Float(x), Variant::Float(y)) => x.to_bits() == y.to_bits() || (x.is_nan() && y.is_nan()),
        _ => a == b,
    }
}

impl Exp {
    pub fn any() -> Exp {
        Exp { vals: vec![], any: true }
    }
    pub fn one(v: Variant) -> Exp {
        Exp { vals: vec![v], any: false }
    }
    pub fn from_mask(m: u8) -> Exp {
        if m & ANYB == ANYB {
            // Part 4 leaves the outcome open: nothing is demanded of the result
            return Exp { vals: vec![Variant::Boolean(true), Variant::Boolean(false), Variant::Empty], any: true };
        }
        let mut vals = vec![];
        if m & T != 0 {
            vals.push(Variant::Boolean(true));
        }
        if m & F != 0 {
            vals.push(Variant::Boolean(false));
        }
        if m & N != 0 {
            vals.push(Variant::Empty);
        }
        Exp { vals, any: false }
    }
    pub fn accepts(&self, v: &Variant) -> bool {
        self.any || self.vals.iter().any(|x| same(x, v))
    }
    pub fn concrete(&self) -> Option<&Variant> {
        if !self.any && self.vals.len() == 1 {
            Some(&self.vals[0])
        } else {
            None
        }
    }
    /// How the value resolves to a Boolean operand of And/Or/Not: mask over T/F/N
    pub fn tri(&self) -> u8 {
        if self.any {
            return ANYB;
        }
        let mut m = 0;
        for v in &self.vals {
            m |= match v {
                Variant::Boolean(true) => T,
                Variant::Boolean(false) => F,
                Variant::Empty => N,
                Variant::String(s) => {
                    if s.is_null() {
                        ANYB
                    } else {
                        let s = s.as_ref();
                        match s {
                            "true" | "1" => T,
                            "false" | "0" => F,
                            _ => {
                                let l = s.trim().to_ascii_lowercase();
                                if l == "true" || l == "false" || l == "1" || l == "0" {
                                    ANYB
                                } else {
                                    N
                                }
                            }
                        }
                    }
                }
                Variant::Array(_) | Variant::Variant(_) | Variant::DataValue(_) | Variant::ExtensionObject(_) => ANYB,
                // every other source type has only an explicit (or no) conversion to Boolean: NULL
                _ => N,
            };
        }
        m
    }
}

#[derive(Clone, Copy, Debug, PartialEq)]
pub enum CmpOp {
    Eq,
    Gt,
    Lt,
    Ge,
    Le,
}

fn holds(op: CmpOp, o: Option<Ordering>) -> bool {
    match (op, o) {
        (_, None) => false,
        (CmpOp::Eq, Some(o)) => o == Ordering::Equal,
        (CmpOp::Gt, Some(o)) => o == Ordering::Greater,
        (CmpOp::Lt, Some(o)) => o == Ordering::Less,
        (CmpOp::Ge, Some(o)) => o != Ordering::Less,
        (CmpOp::Le, Some(o)) => o != Ordering::Greater,
    }
}

fn tf(b: bool) -> u8 {
    if b {
        T
    } else {
        F
    }
}

/// Part 4 data precedence rank (1 = highest precedence); None = not in the table
pub fn rank(t: VariantTypeId) -> Option<u8> {
    Some(match t {
        VariantTypeId::Double => 1,
        VariantTypeId::Float => 2,
        VariantTypeId::Int64 => 3,
        VariantTypeId::UInt64 => 4,
        VariantTypeId::Int32 => 5,
        VariantTypeId::UInt32 => 6,
        VariantTypeId::StatusCode => 7,
        VariantTypeId::Int16 => 8,
        VariantTypeId::UInt16 => 9,
        VariantTypeId::SByte => 10,
        VariantTypeId::Byte => 11,
        VariantTypeId::Boolean => 12,
        VariantTypeId::Guid => 13,
        VariantTypeId::String => 14,
        VariantTypeId::ExpandedNodeId => 15,
        VariantTypeId::NodeId => 16,
        VariantTypeId::LocalizedText => 17,
        VariantTypeId::QualifiedName => 18,
        _ => return None,
    })
}

#[derive(Clone, Copy, Debug)]
pub enum Num {
    I(i128),
    F32(f32),
    F64(f64),
}

pub fn int_range(t: VariantTypeId) -> Option<(i128, i128)> {
    Some(match t {
        VariantTypeId::SByte => (i8::MIN as i128, i8::MAX as i128),
        VariantTypeId::Byte => (0, u8::MAX as i128),
        VariantTypeId::Int16 => (i16::MIN as i128, i16::MAX as i128),
        VariantTypeId::UInt16 => (0, u16::MAX as i128),
        VariantTypeId::Int32 => (i32::MIN as i128, i32::MAX as i128),
        VariantTypeId::UInt32 => (0, u32::MAX as i128),
        VariantTypeId::Int64 => (i64::MIN as i128, i64::MAX as i128),
        VariantTypeId::UInt64 => (0, u64::MAX as i128),
        _ => return None,
    })
}

pub fn num_of(v: &Variant) -> Option<Num> {
    Some(match v {
        Variant::SByte(x) => Num::I(*x as i128),
        Variant::Byte(x) => Num::I(*x as i128),
        Variant::Int16(x) => Num::I(*x as i128),
        Variant::UInt16(x) => Num::I(*x as i128),
        Variant::Int32(x) => Num::I(*x as i128),
        Variant::UInt32(x) => Num::I(*x as i128),
        Variant::Int64(x) => Num::I(*x as i128),
        Variant::UInt64(x) => Num::I(*x as i128),
        Variant::Float(x) => Num::F32(*x),
        Variant::Double(x) => Num::F64(*x),
        _ => return None,
    })
}

pub fn int_variant(t: VariantTypeId, v: i128) -> Variant {
    match t {
        VariantTypeId::SByte => Variant::SByte(v as i8),
        VariantTypeId::Byte => Variant::Byte(v as u8),
        VariantTypeId::Int16 => Variant::Int16(v as i16),
        VariantTypeId::UInt16 => Variant::UInt16(v as u16),
        VariantTypeId::Int32 => Variant::Int32(v as i32),
        VariantTypeId::UInt32 => Variant::UInt32(v as u32),
        VariantTypeId::Int64 => Variant::Int64(v as i64),
        VariantTypeId::UInt64 => Variant::UInt64(v as u64),
        _ => Variant::Empty,
    }
}

fn as_f64(n: Num) -> f64 {
    match n {
        Num::I(i) => i as f64,
        Num::F32(f) => f as f64,
        Num::F64(f) => f,
    }
}

/// Exact mathematical comparison of two numbers (None when a NaN is involved)
pub fn math_cmp(a: Num, b: Num) -> Option<Ordering> {
    match (a, b) {
        (Num::I(x), Num::I(y)) => Some(x.cmp(&y)),
        (Num::I(x), f) => int_float_cmp(x, as_f64(f)),
        (f, Num::I(y)) => int_float_cmp(y, as_f64(f)).map(|o| o.reverse()),
        (x, y) => as_f64(x).partial_cmp(&as_f64(y)),
    }
}

fn int_float_cmp(i: i128, f: f64) -> Option<Ordering> {
    if f.is_nan() {
        return None;
    }
    if f >= 1e30 {
        return Some(Ordering::Less);
    }
    if f <= -1e30 {
        return Some(Ordering::Greater);
    }
    let fl = f.floor();
    let fi = fl as i128; // exact: |f| < 1e30 and fl is an integer
    Some(match i.cmp(&fi) {
        Ordering::Equal => {
            if f > fl {
                Ordering::Less
            } else {
                Ordering::Equal
            }
        }
        o => o,
    })
}

/// Implicit numeric conversion to the target type as Part 4 / the C06 statement describe it:
/// integers must be representable, floating targets take the nearest representable value.
fn conv_num(n: Num, target: VariantTypeId) -> Option<Num> {
    match target {
        VariantTypeId::Double => Some(Num::F64(as_f64(n))),
        VariantTypeId::Float => Some(Num::F32(match n {
            Num::I(i) => i as f32,
            Num::F32(f) => f,
            Num::F64(f) => f as f32,
        })),
        t => {
            let (lo, hi) = int_range(t)?;
            match n {
                Num::I(i) if i >= lo && i <= hi => Some(Num::I(i)),
                _ => None,
            }
        }
    }
}

fn typed_cmp(a: Num, b: Num) -> Option<Ordering> {
    match (a, b) {
        (Num::I(x), Num::I(y)) => Some(x.cmp(&y)),
        (Num::F32(x), Num::F32(y)) => x.partial_cmp(&y),
        (x, y) => as_f64(x).partial_cmp(&as_f64(y)),
    }
}

fn is_nan(n: Num) -> bool {
    match n {
        Num::I(_) => false,
        Num::F32(f) => f.is_nan(),
        Num::F64(f) => f.is_nan(),
    }
}

fn is_zero_pair_mixed_sign(a: Num, b: Num) -> bool {
    let (x, y) = (as_f64(a), as_f64(b));
    x == 0.0 && y == 0.0 && x.is_sign_negative() != y.is_sign_negative()
}

pub fn is_complex(t: VariantTypeId) -> bool {
    matches!(
        t,
        VariantTypeId::Array
            | VariantTypeId::ExtensionObject
            | VariantTypeId::DataValue
            | VariantTypeId::Variant
            | VariantTypeId::DiagnosticInfo
    )
}

fn is_intlike(t: VariantTypeId) -> bool {
    int_range(t).is_some()
}

fn is_numeric(t: VariantTypeId) -> bool {
    is_intlike(t) || matches!(t, VariantTypeId::Float | VariantTypeId::Double)
}

fn canonical_int(s: &str) -> Option<i128> {
    let body = s.strip_prefix('-').unwrap_or(s);
    if body.is_empty() || body.len() > 25 || !body.bytes().all(|b| b.is_ascii_digit()) {
        return None;
    }
    if body.len() > 1 && body.starts_with('0') {
        return None;
    }
    if s == "-0" {
        return None;
    }
    s.parse::<i128>().ok()
}

fn canonical_decimal(s: &str) -> bool {
    let body = s.strip_prefix('-').unwrap_or(s);
    let mut parts = body.split('.');
    let (a, b, c) = (parts.next(), parts.next(), parts.next());
    match (a, b, c) {
        (Some(a), Some(b), None) => {
            !a.is_empty()
                && !b.is_empty()
                && a.len() + b.len() <= 15
                && a.bytes().all(|x| x.is_ascii_digit())
                && b.bytes().all(|x| x.is_ascii_digit())
                && !(a.len() > 1 && a.starts_with('0'))
        }
        _ => false,
    }
}

fn clearly_not_a_number(s: &str) -> bool {
    let l = s.to_ascii_lowercase();
    !s.bytes().any(|b| b.is_ascii_digit()) && !l.contains("inf") && !l.contains("nan")
}

enum Conv {
    Ok(Variant),
    Fail,
    Unclear,
}

/// String -> target (numeric, Boolean, Guid) implicit conversion, only for clear-cut texts
fn conv_string(s: &UAString, target: VariantTypeId) -> Conv {
    if s.is_null() {
        return Conv::Unclear;
    }
    let s = s.as_ref();
    match target {
        VariantTypeId::Boolean => match s {
            "true" | "1" => Conv::Ok(Variant::Boolean(true)),
            "false" | "0" => Conv::Ok(Variant::Boolean(false)),
            _ => {
                let l = s.trim().to_ascii_lowercase();
                if l == "true" || l == "false" || l == "1" || l == "0" {
                    Conv::Unclear
                } else {
                    Conv::Fail
                }
            }
        },
        VariantTypeId::Guid => {
            let b = s.as_bytes();
            let shape = b.len() == 36
                && b.iter().enumerate().all(|(i, c)| {
                    if i == 8 || i == 13 || i == 18 || i == 23 {
                        *c == b'-'
                    } else {
                        c.is_ascii_hexdigit()
                    }
                });
            if shape {
                match <Guid as std::str::FromStr>::from_str(s) {
                    Ok(g) => Conv::Ok(Variant::from(g)),
                    Err(_) => Conv::Unclear,
                }
            } else if b.len() != 36 && b.len() != 38 && b.len() != 32 {
                Conv::Fail
            } else {
                Conv::Unclear
            }
        }
        VariantTypeId::Float | VariantTypeId::Double => {
            if canonical_int(s).is_some() || canonical_decimal(s) {
                if target == VariantTypeId::Double {
                    match s.parse::<f64>() {
                        Ok(f) => Conv::Ok(Variant::Double(f)),
                        Err(_) => Conv::Unclear,
                    }
                } else {
                    match s.parse::<f32>() {
                        Ok(f) => Conv::Ok(Variant::Float(f)),
                        Err(_) => Conv::Unclear,
                    }
                }
            } else if s.is_empty() || clearly_not_a_number(s) {
                Conv::Fail
            } else {
                Conv::Unclear
            }
        }
        t if is_intlike(t) => {
            if let Some(i) = canonical_int(s) {
                let (lo, hi) = int_range(t).unwrap();
                if i >= lo && i <= hi {
                    Conv::Ok(int_variant(t, i))
                } else {
                    Conv::Fail
                }
            } else if s.is_empty() || clearly_not_a_number(s) {
                Conv::Fail
            } else {
                Conv::Unclear
            }
        }
        _ => Conv::Unclear,
    }
}

fn is_null_value(v: &Variant) -> bool {
    matches!(v, Variant::Empty)
}

fn same_type_mask(op: CmpOp, a: &Variant, b: &Variant) -> u8 {
    if let (Some(x), Some(y)) = (num_of(a), num_of(b)) {
        if is_nan(x) || is_nan(y) {
            return ANYB;
        }
        if is_zero_pair_mixed_sign(x, y) {
            return ANYB;
        }
        return tf(holds(op, typed_cmp(x, y)));
    }
    let eq_only = |equal: bool| -> u8 {
        if op == CmpOp::Eq {
            tf(equal)
        } else {
            ANYB
        }
    };
    match (a, b) {
        (Variant::Boolean(x), Variant::Boolean(y)) => eq_only(x == y),
        (Variant::DateTime(x), Variant::DateTime(y)) => tf(holds(op, Some(x.ticks().cmp(&y.ticks())))),
        (Variant::String(x), Variant::String(y)) | (Variant::XmlElement(x), Variant::XmlElement(y)) => {
            if x.is_null() || y.is_null() {
                ANYB
            } else if op != CmpOp::Eq {
                ANYB
            } else if x == y {
                T
            } else if x.as_ref().to_lowercase() == y.as_ref().to_lowercase() {
                ANYB
            } else {
                F
            }
        }
        (Variant::Guid(x), Variant::Guid(y)) => eq_only(x == y),
        (Variant::ByteString(x), Variant::ByteString(y)) => {
            if x.is_null() || y.is_null() {
                ANYB
            } else {
                eq_only(x == y)
            }
        }
        (Variant::NodeId(x), Variant::NodeId(y)) => eq_only(x == y),
        (Variant::ExpandedNodeId(x), Variant::ExpandedNodeId(y)) => eq_only(x == y),
        (Variant::QualifiedName(x), Variant::QualifiedName(y)) => {
            if x.name.is_null() || y.name.is_null() {
                ANYB
            } else {
                eq_only(x == y)
            }
        }
        (Variant::StatusCode(x), Variant::StatusCode(y)) => eq_only(x.bits() == y.bits()),
        (Variant::LocalizedText(x), Variant::LocalizedText(y)) => {
            if op != CmpOp::Eq || x.text.is_null() || y.text.is_null() {
                ANYB
            } else if x == y {
                T
            } else if x.text != y.text {
                F
            } else {
                ANYB
            }
        }
        _ => ANYB,
    }
}

/// Acceptable results (mask over T/F/N) of a comparison operator on two resolved operand values
pub fn cmp_mask(op: CmpOp, a: &Variant, b: &Variant) -> u8 {
    if is_null_value(a) || is_null_value(b) {
        // Part 4: an element with a null operand evaluates to NULL; "returns FALSE if the implicit
        // conversion fails" is the other defensible reading
        return F | N;
    }
    let (ta, tb) = (a.type_id(), b.type_id());
    if is_complex(ta) || is_complex(tb) {
        return ANYB;
    }
    if ta == tb {
        return same_type_mask(op, a, b);
    }
    if ta == VariantTypeId::StatusCode || tb == VariantTypeId::StatusCode {
        return ANYB;
    }
    if ta == VariantTypeId::XmlElement || tb == VariantTypeId::XmlElement {
        return ANYB;
    }
    let (ra, rb) = match (rank(ta), rank(tb)) {
        (Some(x), Some(y)) => (x, y),
        // a type without any implicit conversion (DateTime, ByteString) against another type
        _ => return F,
    };
    // target = the type with the higher precedence (lower rank)
    let (target, hi, lo, swapped) = if ra < rb { (ta, a, b, false) } else { (tb, b, a, true) };
    let lo_t = lo.type_id();
    let oriented = |m: Option<Ordering>| -> Option<Ordering> {
        if swapped {
            m.map(|o| o.reverse())
        } else {
            m
        }
    };
    // convert `lo` to `target`
    if is_numeric(target) {
        let hn = num_of(hi).unwrap();
        if is_numeric(lo_t) {
            let ln = num_of(lo).unwrap();
            if is_nan(hn) || is_nan(ln) {
                return ANYB;
            }
            let math = tf(holds(op, oriented(math_cmp(hn, ln))));
            let part4 = match conv_num(ln, target) {
                None => F,
                Some(c) => {
                    if is_zero_pair_mixed_sign(hn, c) {
                        return ANYB;
                    }
                    tf(holds(op, oriented(typed_cmp(hn, c))))
                }
            };
            return math | part4;
        }
        if lo_t == VariantTypeId::Boolean {
            let b = matches!(lo, Variant::Boolean(true));
            if is_nan(hn) {
                return ANYB;
            }
            return tf(holds(op, oriented(math_cmp(hn, Num::I(b as i128)))));
        }
        if let Variant::String(s) = lo {
            return match conv_string(s, target) {
                Conv::Ok(c) => {
                    let cn = num_of(&c).unwrap();
                    if is_nan(hn) || is_nan(cn) || is_zero_pair_mixed_sign(hn, cn) {
                        ANYB
                    } else {
                        tf(holds(op, oriented(typed_cmp(hn, cn))))
                    }
                }
                Conv::Fail => F,
                Conv::Unclear => ANYB,
            };
        }
        // Guid, NodeId, ExpandedNodeId, LocalizedText, QualifiedName -> number: no conversion
        return F;
    }
    match target {
        VariantTypeId::Boolean => match lo {
            Variant::String(s) => match conv_string(s, target) {
                Conv::Ok(c) => {
                    if swapped {
                        same_type_mask(op, &c, hi)
                    } else {
                        same_type_mask(op, hi, &c)
                    }
                }
                Conv::Fail => F,
                Conv::Unclear => ANYB,
            },
            _ => F,
        },
        VariantTypeId::Guid => match lo {
            Variant::String(s) => match conv_string(s, target) {
                Conv::Ok(c) => {
                    if swapped {
                        same_type_mask(op, &c, hi)
                    } else {
                        same_type_mask(op, hi, &c)
                    }
                }
                Conv::Fail => F,
                Conv::Unclear => ANYB,
            },
            _ => F,
        },
        VariantTypeId::String => {
            let c = match lo {
                Variant::LocalizedText(t) => Variant::String(t.text.clone()),
                Variant::QualifiedName(q) => Variant::String(q.name.clone()),
                // NodeId / ExpandedNodeId -> String: the text form is not pinned down here
                _ => return ANYB,
            };
            if swapped {
                same_type_mask(op, &c, hi)
            } else {
                same_type_mask(op, hi, &c)
            }
        }
        VariantTypeId::ExpandedNodeId => match lo {
            Variant::NodeId(n) => {
                let c = Variant::from(ExpandedNodeId::from((**n).clone()));
                if swapped {
                    same_type_mask(op, &c, hi)
                } else {
                    same_type_mask(op, hi, &c)
                }
            }
            _ => F,
        },
        VariantTypeId::NodeId => F,
        VariantTypeId::LocalizedText => match (hi, lo) {
            (Variant::LocalizedText(t), Variant::QualifiedName(q)) => {
                if op == CmpOp::Eq && !t.text.is_null() && !q.name.is_null() && t.text != q.name {
                    F
                } else {
                    ANYB
                }
            }
            _ => ANYB,
        },
        _ => ANYB,
    }
}

/// Which kind of comparison this is, for violation signatures
pub fn cmp_class(a: &Variant, b: &Variant) -> String {
    if is_null_value(a) || is_null_value(b) {
        return "null-operand".into();
    }
    let (ta, tb) = (a.type_id(), b.type_id());
    if is_complex(ta) || is_complex(tb) {
        return "complex".into();
    }
    let target = match (rank(ta), rank(tb)) {
        (Some(x), Some(y)) => {
            if x <= y {
                ta
            } else {
                tb
            }
        }
        _ => {
            if ta == tb {
                ta
            } else {
                return "no-conversion".into();
            }
        }
    };
    let nan = [a, b].iter().any(|v| num_of(v).map(is_nan).unwrap_or(false));
    if nan {
        return "nan".into();
    }
    if ta == tb {
        return if is_numeric(ta) {
            "numeric-same-type".into()
        } else if ta == VariantTypeId::Boolean {
            "boolean".into()
        } else {
            "nonnumeric".into()
        };
    }
    if is_numeric(target) {
        let lo = if target == ta { b } else { a };
        if let Some(n) = num_of(lo) {
            return if conv_num(n, target).is_none() {
                "numeric-mixed-out-of-range".into()
            } else {
                "numeric-mixed".into()
            };
        }
        return match lo {
            Variant::Boolean(_) => "boolean-to-numeric".into(),
            Variant::String(_) => "string-to-numeric".into(),
            _ => "nonnumeric-vs-numeric".into(),
        };
    }
    if target == VariantTypeId::Boolean {
        return "to-boolean".into();
    }
    "nonnumeric".into()
}

fn and3(a: u8, b: u8) -> u8 {
    // Part 4 logical AND truth table
    match (a, b) {
        (F, _) | (_, F) => F,
        (T, T) => T,
        _ => N,
    }
}

fn or3(a: u8, b: u8) -> u8 {
    match (a, b) {
        (T, _) | (_, T) => T,
        (F, F) => F,
        _ => N,
    }
}

fn not3(a: u8) -> u8 {
    match a {
        T => F,
        F => T,
        _ => N,
    }
}

fn bits(m: u8) -> Vec<u8> {
    [T, F, N].iter().cloned().filter(|b| m & b != 0).collect()
}

pub fn combine(a: u8, b: u8, f: fn(u8, u8) -> u8) -> u8 {
    let mut m = 0;
    for x in bits(a) {
        for y in bits(b) {
            m |= f(x, y);
        }
    }
    m
}

fn to_like_string(v: &Variant) -> Option<Option<String>> {
    // Some(Some(s)): resolves to this string; Some(None): cannot resolve to a string; None: unclear
    match v {
        Variant::String(s) => {
            if s.is_null() {
                None
            } else {
                Some(Some(s.as_ref().to_string()))
            }
        }
        Variant::LocalizedText(t) => {
            if t.text.is_null() {
                None
            } else {
                Some(Some(t.text.as_ref().to_string()))
            }
        }
        Variant::QualifiedName(q) => {
            if q.name.is_null() {
                None
            } else {
                Some(Some(q.name.as_ref().to_string()))
            }
        }
        Variant::NodeId(_) | Variant::ExpandedNodeId(_) | Variant::XmlElement(_) => None,
        Variant::Array(_) | Variant::Variant(_) | Variant::DataValue(_) | Variant::ExtensionObject(_) => None,
        Variant::Empty => None,
        _ => Some(None),
    }
}

pub fn builtin_type_of_node(n: &NodeId) -> Option<VariantTypeId> {
    if n.namespace != 0 {
        return None;
    }
    if let Identifier::Numeric(i) = n.identifier {
        return Some(match i {
            1 => VariantTypeId::Boolean,
            2 => VariantTypeId::SByte,
            3 => VariantTypeId::Byte,
            4 => VariantTypeId::Int16,
            5 => VariantTypeId::UInt16,
            6 => VariantTypeId::Int32,
            7 => VariantTypeId::UInt32,
            8 => VariantTypeId::Int64,
            9 => VariantTypeId::UInt64,
            10 => VariantTypeId::Float,
            11 => VariantTypeId::Double,
            12 => VariantTypeId::String,
            _ => return None,
        });
    }
    None
}

#[derive(Clone, Debug, Default)]
pub struct Shape {
    /// every element reachable from element 0 is well-formed per Part 4
    pub wellformed: bool,
    /// a loop is reachable from element 0
    pub cyclic: bool,
    pub problems: Vec<String>,
    pub reachable: usize,
    pub depth: usize,
}

pub fn required_operands(op: FilterOperator) -> Option<(usize, usize)> {
    Some(match op {
        FilterOperator::IsNull | FilterOperator::Not => (1, 1),
        FilterOperator::Equals
        | FilterOperator::GreaterThan
        | FilterOperator::LessThan
        | FilterOperator::GreaterThanOrEqual
        | FilterOperator::LessThanOrEqual
        | FilterOperator::Like
        | FilterOperator::And
        | FilterOperator::Or
        | FilterOperator::Cast
        | FilterOperator::BitwiseAnd
        | FilterOperator::BitwiseOr => (2, 2),
        FilterOperator::Between => (3, 3),
        FilterOperator::InList => (2, usize::MAX),
        _ => return None,
    })
}

pub struct Model<'a> {
    pub elements: &'a [ContentFilterElement],
    pub fields: &'a HashMap<String, Variant>,
    memo: HashMap<usize, Exp>,
    operands: Vec<Option<Vec<Operand>>>,
}

impl<'a> Model<'a> {
    pub fn new(elements: &'a [ContentFilterElement], fields: &'a HashMap<String, Variant>) -> Model<'a> {
        let operands = elements
            .iter()
            .map(|e| match &e.filter_operands {
                None => Some(vec![]),
                Some(ops) => {
                    let mut v = Vec::new();
                    for o in ops {
                        match Operand::try_from(o) {
                            Ok(o) => v.push(o),
                            Err(_) => return None,
                        }
                    }
                    Some(v)
                }
            })
            .collect();
        Model { elements, fields, memo: HashMap::new(), operands }
    }

    pub fn operands_of(&self, i: usize) -> Option<&Vec<Operand>> {
        self.operands.get(i).and_then(|o| o.as_ref())
    }

    /// Structural analysis of what is reachable from element `root`
    pub fn shape(&self, root: usize) -> Shape {
        let mut sh = Shape { wellformed: true, ..Default::default() };
        if self.elements.is_empty() {
            return sh;
        }
        // iterative DFS with colours for loop detection
        let n = self.elements.len();
        let mut colour = vec![0u8; n];
        let mut depth_of = vec![0usize; n];
        fn visit(m: &Model, i: usize, colour: &mut Vec<u8>, depth_of: &mut Vec<usize>, sh: &mut Shape, d: usize) {
            colour[i] = 1;
            sh.reachable += 1;
            if d > sh.depth {
                sh.depth = d;
            }
            depth_of[i] = d;
            let e = &m.elements[i];
            match m.operands_of(i) {
                None => {
                    sh.wellformed = false;
                    sh.problems.push(format!("element {}: undecodable operand", i));
                }
                Some(ops) => {
                    match required_operands(e.filter_operator) {
                        None => {
                            sh.wellformed = false;
                            sh.problems.push(format!("element {}: operator {:?} not covered", i, e.filter_operator));
                        }
                        Some((lo, hi)) => {
                            if ops.len() < lo || ops.len() > hi {
                                sh.wellformed = false;
                                sh.problems.push(format!("element {}: {} operands", i, ops.len()));
                            }
                        }
                    }
                    for o in ops {
                        match o {
                            Operand::AttributeOperand(_) => {
                                sh.wellformed = false;
                                sh.problems.push(format!("element {}: AttributeOperand", i));
                            }
                            Operand::ElementOperand(eo) => {
                                let j = eo.index as usize;
                                if j >= m.elements.len() {
                                    sh.wellformed = false;
                                    sh.problems.push(format!("element {}: element operand out of range", i));
                                } else if colour[j] == 1 {
                                    sh.cyclic = true;
                                    sh.wellformed = false;
                                    sh.problems.push(format!("element {}: loop through {}", i, j));
                                } else if colour[j] == 0 {
                                    if d < 5000 {
                                        visit(m, j, colour, depth_of, sh, d + 1);
                                    }
                                }
                            }
                            _ => {}
                        }
                    }
                }
            }
            colour[i] = 2;
        }
        if root < n {
            visit(self, root, &mut colour, &mut depth_of, &mut sh, 1);
        }
        sh
    }

    fn field(&self, o: &SimpleAttributeOperand) -> Exp {
        if o.attribute_id != AttributeId::Value as u32 || !o.index_range.is_empty() {
            return Exp::any();
        }
        match &o.browse_path {
            Some(p) if p.len() == 1 => {
                if p[0].name.is_null() {
                    return Exp::any();
                }
                if p[0].namespace_index != 0 {
                    return Exp::any();
                }
                match self.fields.get(p[0].name.as_ref()) {
                    Some(v) => Exp::one(v.clone()),
                    None => Exp::one(Variant::Empty),
                }
            }
            _ => Exp::any(),
        }
    }

    pub fn operand(&mut self, o_idx: (usize, usize)) -> Exp {
        let op = match self.operands_of(o_idx.0).and_then(|v| v.get(o_idx.1)) {
            Some(o) => o,
            None => return Exp::any(),
        };
        match op {
            Operand::LiteralOperand(l) => Exp::one(l.value.clone()),
            Operand::SimpleAttributeOperand(s) => {
                let s = s.clone();
                self.field(&s)
            }
            Operand::ElementOperand(e) => {
                let j = e.index as usize;
                self.eval(j)
            }
            Operand::AttributeOperand(_) => Exp::any(),
        }
    }

    /// Reference result of element i. Only meaningful when shape(i).wellformed.
    pub fn eval(&mut self, i: usize) -> Exp {
        if i >= self.elements.len() {
            return Exp::any();
        }
        if let Some(e) = self.memo.get(&i) {
            return e.clone();
        }
        // guard against loops: a loop makes the clause illegal, result unspecified
        self.memo.insert(i, Exp::any());
        let r = self.eval_inner(i);
        self.memo.insert(i, r.clone());
        r
    }

    fn eval_inner(&mut self, i: usize) -> Exp {
        let op = self.elements[i].filter_operator;
        let n = match self.operands_of(i) {
            Some(v) => v.len(),
            None => return Exp::any(),
        };
        match required_operands(op) {
            Some((lo, hi)) if n >= lo && n <= hi => {}
            _ => return Exp::any(),
        }
        let cmp = |op| -> Option<CmpOp> {
            Some(match op {
                FilterOperator::Equals => CmpOp::Eq,
                FilterOperator::GreaterThan => CmpOp::Gt,
                FilterOperator::LessThan => CmpOp::Lt,
                FilterOperator::GreaterThanOrEqual => CmpOp::Ge,
                FilterOperator::LessThanOrEqual => CmpOp::Le,
                _ => return None,
            })
        };
        if let Some(c) = cmp(op) {
            let a = self.operand((i, 0));
            let b = self.operand((i, 1));
            return match (a.concrete(), b.concrete()) {
                (Some(a), Some(b)) => Exp::from_mask(cmp_mask(c, a, b)),
                _ => Exp::from_mask(ANYB),
            };
        }
        match op {
            FilterOperator::IsNull => {
                let a = self.operand((i, 0));
                if a.any {
                    return Exp::from_mask(T | F);
                }
                let mut m = 0;
                for v in &a.vals {
                    m |= match v {
                        Variant::Empty => T,
                        Variant::String(s) | Variant::XmlElement(s) if s.is_null() => T | F,
                        Variant::ByteString(s) if s.is_null() => T | F,
                        Variant::NodeId(n) if n.is_null() => T | F,
                        Variant::Array(_) | Variant::Variant(_) | Variant::DataValue(_) => T | F,
                        _ => F,
                    };
                }
                Exp::from_mask(m)
            }
            FilterOperator::Not => {
                let a = self.operand((i, 0)).tri();
                let mut m = 0;
                for x in bits(a) {
                    m |= not3(x);
                }
                Exp::from_mask(m)
            }
            FilterOperator::And | FilterOperator::Or => {
                let a = self.operand((i, 0)).tri();
                let b = self.operand((i, 1)).tri();
                Exp::from_mask(combine(a, b, if op == FilterOperator::And { and3 } else { or3 }))
            }
            FilterOperator::Between => {
                let a = self.operand((i, 0));
                let b = self.operand((i, 1));
                let c = self.operand((i, 2));
                match (a.concrete(), b.concrete(), c.concrete()) {
                    (Some(a), Some(b), Some(c)) => {
                        let m1 = cmp_mask(CmpOp::Ge, a, b);
                        let m2 = cmp_mask(CmpOp::Le, a, c);
                        let mut m = combine(m1, m2, and3);
                        // a FALSE half with a NULL half: both FALSE and NULL are defensible
                        if (m1 | m2) & N != 0 && m & N != 0 {
                            m |= F;
                        }
                        Exp::from_mask(m)
                    }
                    _ => Exp::from_mask(ANYB),
                }
            }
            FilterOperator::InList => {
                let a = self.operand((i, 0));
                let mut m = F;
                let mut saw_null = false;
                for k in 1..n {
                    let b = self.operand((i, k));
                    let mk = match (a.concrete(), b.concrete()) {
                        (Some(a), Some(b)) => cmp_mask(CmpOp::Eq, a, b),
                        _ => ANYB,
                    };
                    if mk & N != 0 {
                        saw_null = true;
                    }
                    m = combine(m, mk, or3);
                }
                if saw_null && m & N != 0 {
                    m |= F;
                }
                Exp::from_mask(m)
            }
            FilterOperator::Like => {
                let a = self.operand((i, 0));
                let b = self.operand((i, 1));
                let (a, b) = match (a.concrete(), b.concrete()) {
                    (Some(a), Some(b)) => (a.clone(), b.clone()),
                    _ => return Exp::from_mask(ANYB),
                };
                if matches!(a, Variant::Empty) || matches!(b, Variant::Empty) {
                    return Exp::from_mask(F | N);
                }
                match (to_like_string(&a), to_like_string(&b)) {
                    (Some(Some(s)), Some(Some(p))) => match like::parse(&p) {
                        Some(toks) => {
                            let chars: Vec<char> = s.chars().collect();
                            Exp::from_mask(tf(like::matches(&toks, &chars)))
                        }
                        None => Exp::from_mask(ANYB),
                    },
                    (Some(None), Some(_)) | (Some(_), Some(None)) => Exp::from_mask(F | N),
                    _ => Exp::from_mask(ANYB),
                }
            }
            FilterOperator::BitwiseAnd | FilterOperator::BitwiseOr => {
                let a = self.operand((i, 0));
                let b = self.operand((i, 1));
                let (a, b) = match (a.concrete(), b.concrete()) {
                    (Some(a), Some(b)) => (a.clone(), b.clone()),
                    _ => return Exp::any(),
                };
                let (ta, tb) = (a.type_id(), b.type_id());
                let unclear = |t: VariantTypeId| {
                    is_complex(t) || matches!(t, VariantTypeId::String | VariantTypeId::Boolean | VariantTypeId::StatusCode)
                };
                if unclear(ta) || unclear(tb) {
                    return Exp::any();
                }
                if !is_intlike(ta) || !is_intlike(tb) {
                    // an operand that cannot be resolved to an integer is considered NULL
                    return Exp::one(Variant::Empty);
                }
                let target = if rank(ta).unwrap() <= rank(tb).unwrap() { ta } else { tb };
                let (x, y) = match (num_of(&a), num_of(&b)) {
                    (Some(Num::I(x)), Some(Num::I(y))) => (x, y),
                    _ => return Exp::any(),
                };
                let (lo, hi) = int_range(target).unwrap();
                if x < lo || x > hi || y < lo || y > hi {
                    return Exp::any();
                }
                // two's complement of the target width: i128 arithmetic on in-range values is exact
                let r = if op == FilterOperator::BitwiseAnd { x & y } else { x | y };
                Exp::one(int_variant(target, r))
            }
            FilterOperator::Cast => {
                let a = self.operand((i, 0));
                let b = self.operand((i, 1));
                let (a, b) = match (a.concrete(), b.concrete()) {
                    (Some(a), Some(b)) => (a.clone(), b.clone()),
                    _ => return Exp::any(),
                };
                let node = match &b {
                    Variant::NodeId(n) => (**n).clone(),
                    Variant::ExpandedNodeId(n) => {
                        if !n.namespace_uri.is_null() || n.server_index != 0 {
                            return Exp::any();
                        }
                        n.node_id.clone()
                    }
                    Variant::Empty => return Exp::one(Variant::Empty),
                    v if is_complex(v.type_id()) || matches!(v, Variant::String(_)) => return Exp::any(),
                    // not a NodeId: error -> NULL
                    _ => return Exp::one(Variant::Empty),
                };
                let target = match builtin_type_of_node(&node) {
                    Some(t) => t,
                    None => return Exp::any(),
                };
                if a.type_id() == target {
                    return Exp::one(a);
                }
                if let Some(Num::I(x)) = num_of(&a) {
                    if let Some((lo, hi)) = int_range(target) {
                        return if x >= lo && x <= hi {
                            Exp::one(int_variant(target, x))
                        } else {
                            Exp::one(Variant::Empty)
                        };
                    }
                    if target == VariantTypeId::Double && x.abs() < (1i128 << 53) {
                        return Exp::one(Variant::Double(x as f64));
                    }
                    if target == VariantTypeId::String {
                        return Exp::one(Variant::from(x.to_string()));
                    }
                }
                Exp::any()
            }
            _ => Exp::any(),
        }
    }
}
