//! Transport-level workloads: bounded buffering (C10), segmentation independence (C11),
//! sequence numbers and replay (C12), handshake and close gating (C15).
#[allow(unused_imports)]
pub(crate) use vh_common::{common, gen, pki};
pub mod p_frame;
pub use p_frame::dispatch;
