//! C10 bounded buffering, C11 segmentation independence, C12 sequence numbers / replay,
//! C15 handshake and close gating. All four observe the real transport code of /repo:
//! the server `TcpTransport` (cfg hooks and, for C15, its real socket loop), `TcpCodec`,
//! the client `SendBuffer` / `TransportState`, `MessageWriter`, `Chunker`.
#![allow(clippy::too_many_arguments)]
use crate::common::*;
use crate::pki;

use std::collections::{BTreeMap, BTreeSet};
use std::future::Future;
use std::path::PathBuf;
use std::pin::Pin;
use std::sync::Arc;
use std::task::{Context, Poll};

use bytes::BytesMut;
use serde_json::{json, Value};
use tokio_util::codec::{Decoder, Encoder};

use opcua::core::comms::chunker::Chunker;
use opcua::core::comms::message_chunk::{MessageChunk, MessageChunkType, MessageIsFinalType};
use opcua::core::comms::message_writer::MessageWriter;
use opcua::core::comms::secure_channel::{Role, SecureChannel};
use opcua::core::comms::tcp_codec::{Message, TcpCodec};
use opcua::core::comms::tcp_types::{
    AcknowledgeMessage, ErrorMessage, HelloMessage, MessageHeader, MessageType,
};
use opcua::core::supported_message::SupportedMessage;
use opcua::crypto::{CertificateStore, SecurityPolicy};
use opcua::server::builder::ServerBuilder;
use opcua::server::comms::tcp_transport::{TcpTransport, VerifOut, VerifOutbox};
use opcua::server::comms::transport::Transport;
use opcua::server::server::Server;
use opcua::sync::RwLock;
use opcua::types::status_code::StatusCode;
use opcua::types::*;
use opcua::verif::client::{Completion, SendBuffer, VerifTransportState};

pub fn dispatch(args: &Args, rep: &mut Report) -> bool {
    match args.prop.as_str() {
        "C10" => c10(args, rep),
        "C11" => c11(args, rep),
        "C12" => c12(args, rep),
        "C15" => c15(args, rep),
        _ => return false,
    }
    true
}

// ---------------------------------------------------------------------------------------------
// shared helpers
// ---------------------------------------------------------------------------------------------

const ENDPOINT_URL: &str = "opc.tcp://127.0.0.1:4855/";
/// chunk header (12) + symmetric security header (4) + sequence header (8)
const SYM_OVERHEAD: usize = 24;

fn read_replay(path: &str) -> Option<Value> {
    let s = std::fs::read_to_string(path).ok()?;
    let v: Value = serde_json::from_str(&s).ok()?;
    Some(v.get("case").cloned().unwrap_or(v))
}

fn u(v: &Value, k: &str) -> u64 {
    match v.get(k) {
        Some(Value::Number(n)) => n.as_u64().unwrap_or_else(|| n.to_string().parse().unwrap_or(0)),
        Some(Value::String(s)) => s.parse().unwrap_or(0),
        _ => 0,
    }
}

fn s<'a>(v: &'a Value, k: &str) -> &'a str {
    v.get(k).and_then(|x| x.as_str()).unwrap_or("")
}

fn status_name(st: StatusCode) -> String {
    format!("{}", st)
}

#[derive(Clone, Copy, Debug)]
struct Limits {
    max_message_size: usize,
    max_chunk_count: usize,
    send_buffer_size: usize,
    receive_buffer_size: usize,
}

impl Limits {
    fn json(&self) -> Value {
        json!({"max_message_size": self.max_message_size, "max_chunk_count": self.max_chunk_count,
               "send_buffer_size": self.send_buffer_size, "receive_buffer_size": self.receive_buffer_size})
    }
    fn from_json(v: &Value) -> Limits {
        Limits {
            max_message_size: u(v, "max_message_size") as usize,
            max_chunk_count: u(v, "max_chunk_count") as usize,
            send_buffer_size: u(v, "send_buffer_size") as usize,
            receive_buffer_size: u(v, "receive_buffer_size") as usize,
        }
    }
    fn key(&self) -> String {
        format!("{}/{}/{}/{}", self.max_message_size, self.max_chunk_count, self.send_buffer_size, self.receive_buffer_size)
    }
}

/// Scratch directory and servers of one workload process; removed on drop
struct Env {
    dir: PathBuf,
    servers: BTreeMap<String, Server>,
}

impl Env {
    fn new(tag: &str) -> Env {
        Env { dir: pki::scratch_dir(tag), servers: BTreeMap::new() }
    }

    /// A real `Server` (anonymous, None endpoint) with the given transport limits; never started,
    /// only used as the factory of its connections' `TcpTransport`s.
    fn server(&mut self, lim: &Limits) -> &Server {
        let key = lim.key();
        if !self.servers.contains_key(&key) {
            let dir = self.dir.join(format!("srv_{}", self.servers.len()));
            let server = ServerBuilder::new_anonymous("verif-frame")
                .application_uri("urn:verif:frame")
                .product_uri("urn:verif:frame")
                .host_and_port("127.0.0.1", 4855)
                .pki_dir(dir)
                .create_sample_keypair(false)
                .max_message_size(lim.max_message_size)
                .max_chunk_count(lim.max_chunk_count)
                .send_buffer_size(lim.send_buffer_size)
                .receive_buffer_size(lim.receive_buffer_size)
                .server()
                .expect("server configuration");
            self.servers.insert(key.clone(), server);
        }
        &self.servers[&key]
    }

    fn cert_store(&self) -> Arc<RwLock<CertificateStore>> {
        Arc::new(RwLock::new(CertificateStore::new(&self.dir.join("peer_pki"))))
    }

    /// A peer-side channel (no certificates; None security unless configured by `pair_sign`)
    fn channel(&self, role: Role, dec: DecodingOptions) -> SecureChannel {
        SecureChannel::new(self.cert_store(), role, dec)
    }
}

impl Drop for Env {
    fn drop(&mut self) {
        self.servers.clear();
        let _ = std::fs::remove_dir_all(&self.dir);
    }
}

fn wide_decoding_options() -> DecodingOptions {
    DecodingOptions {
        max_message_size: 0,
        max_chunk_count: 0,
        max_string_length: 16 * 1024 * 1024,
        max_byte_string_length: 16 * 1024 * 1024,
        max_array_length: 1_000_000,
        ..Default::default()
    }
}

/// Configures two channels as the two ends of one symmetric Sign channel (no OPN exchange: the
/// nonces are set directly and both sides derive their keys with the real key derivation).
fn pair_sign(a: &mut SecureChannel, b: &mut SecureChannel, channel_id: u32, token_id: u32, rng: &mut Rng) {
    let policy = SecurityPolicy::Basic256Sha256;
    let n = policy.secure_channel_nonce_length();
    let na = rng.bytes(n);
    let nb = rng.bytes(n);
    for (c, local, remote) in [(&mut *a, &na, &nb), (&mut *b, &nb, &na)] {
        c.set_security_policy(policy);
        c.set_security_mode(MessageSecurityMode::Sign);
        c.set_local_nonce(local);
        c.set_remote_nonce(remote);
        c.derive_keys();
        c.set_secure_channel_id(channel_id);
        c.set_token_id(token_id);
    }
}

fn req_header(handle: u32) -> RequestHeader {
    RequestHeader::new(&NodeId::null(), &DateTime::null(), handle)
}

fn get_endpoints(handle: u32) -> SupportedMessage {
    GetEndpointsRequest {
        request_header: req_header(handle),
        endpoint_url: UAString::from(ENDPOINT_URL),
        locale_ids: None,
        profile_uris: None,
    }
    .into()
}

/// A GetEndpoints request whose encoding is about `pad` bytes long (locale id padding)
fn get_endpoints_padded(handle: u32, pad: usize) -> SupportedMessage {
    let mut locale_ids = Vec::new();
    let mut left = pad;
    while left > 0 {
        let n = left.min(4000);
        locale_ids.push(UAString::from("x".repeat(n)));
        left -= n;
    }
    GetEndpointsRequest {
        request_header: req_header(handle),
        endpoint_url: UAString::from(ENDPOINT_URL),
        locale_ids: if locale_ids.is_empty() { None } else { Some(locale_ids) },
        profile_uris: None,
    }
    .into()
}

fn create_session(handle: u32) -> SupportedMessage {
    CreateSessionRequest {
        request_header: req_header(handle),
        client_description: ApplicationDescription {
            application_uri: UAString::from("urn:verif:peer"),
            product_uri: UAString::from("urn:verif:peer"),
            application_name: LocalizedText::new("", "peer"),
            application_type: ApplicationType::Client,
            gateway_server_uri: UAString::null(),
            discovery_profile_uri: UAString::null(),
            discovery_urls: None,
        },
        server_uri: UAString::null(),
        endpoint_url: UAString::from(ENDPOINT_URL),
        session_name: UAString::from("s"),
        client_nonce: ByteString::from(vec![7u8; 32]),
        client_certificate: ByteString::null(),
        requested_session_timeout: 60000.0,
        max_response_message_size: 0,
    }
    .into()
}

fn read_request(handle: u32, nodes: usize, range_len: usize) -> SupportedMessage {
    ReadRequest {
        request_header: req_header(handle),
        max_age: 0.0,
        timestamps_to_return: TimestampsToReturn::Both,
        nodes_to_read: Some(
            (0..nodes)
                .map(|i| ReadValueId {
                    node_id: NodeId::new(0, 2258u32 + i as u32),
                    attribute_id: 13,
                    index_range: if range_len == 0 { UAString::null() } else { UAString::from("1".repeat(range_len)) },
                    data_encoding: QualifiedName::null(),
                })
                .collect(),
        ),
    }
    .into()
}

fn open_secure_channel(handle: u32, renew: bool) -> SupportedMessage {
    OpenSecureChannelRequest {
        request_header: req_header(handle),
        client_protocol_version: 0,
        request_type: if renew { SecurityTokenRequestType::Renew } else { SecurityTokenRequestType::Issue },
        security_mode: MessageSecurityMode::None,
        client_nonce: ByteString::from(vec![0u8; 1]),
        requested_lifetime: 600_000,
    }
    .into()
}

fn close_secure_channel(handle: u32) -> SupportedMessage {
    CloseSecureChannelRequest { request_header: req_header(handle) }.into()
}

fn hello_message() -> HelloMessage {
    HelloMessage::new(ENDPOINT_URL, 65536, 65536, 0, 0)
}

fn msg_name(m: &SupportedMessage) -> String {
    let d = format!("{:?}", m);
    d.split(|c: char| !c.is_alphanumeric()).next().unwrap_or("?").to_string()
}

/// The body (node id + encoded message) the real Chunker produces for a message
fn message_body(msg: &SupportedMessage, sc: &SecureChannel) -> (MessageChunkType, Vec<u8>) {
    let chunks = Chunker::encode(1, 1, 0, 0, sc, msg).expect("chunker encode");
    let info = chunks[0].chunk_info(sc).expect("chunk info");
    (
        info.message_header.message_type,
        chunks[0].data[info.body_offset..info.body_offset + info.body_length].to_vec(),
    )
}

/// Splits `body` into `parts` consecutive slices (the last may be empty only when body is)
fn split_body(body: &[u8], sizes: &[usize]) -> Vec<Vec<u8>> {
    let mut out = Vec::new();
    let mut pos = 0;
    for (i, sz) in sizes.iter().enumerate() {
        let end = if i + 1 == sizes.len() { body.len() } else { (pos + sz).min(body.len()) };
        out.push(body[pos..end].to_vec());
        pos = end;
    }
    out
}

/// Overwrites the secure channel id of an (unsecured) chunk
fn patch_channel_id(chunk: &mut MessageChunk, id: u32) {
    chunk.data[8..12].copy_from_slice(&id.to_le_bytes());
}

/// One server connection driven through the cfg hooks, without a socket
struct HookConn {
    t: TcpTransport,
    out: VerifOutbox,
    lim: Limits,
}

impl HookConn {
    fn new(server: &Server, lim: &Limits) -> HookConn {
        HookConn { t: server.new_transport(), out: VerifOutbox::new(), lim: *lim }
    }
    fn hello(&mut self) -> Result<(), StatusCode> {
        self.t.verif_process_hello(hello_message(), &self.out, self.lim.send_buffer_size, self.lim.receive_buffer_size)
    }
    fn feed(&mut self, chunk: MessageChunk) -> Result<(), StatusCode> {
        self.t.verif_process_chunk(chunk, &self.out)
    }
    fn drain(&mut self) -> Vec<(u32, SupportedMessage)> {
        self.out
            .drain()
            .into_iter()
            .filter_map(|m| match m {
                VerifOut::Message(id, m) => Some((id, m)),
                VerifOut::Quit => None,
            })
            .collect()
    }
    /// HEL + OPN(Issue, None) performed by `peer`; returns false if the server refused either
    fn open(&mut self, peer: &mut SecureChannel) -> Result<(), String> {
        self.hello().map_err(|e| format!("hello refused: {}", e))?;
        let acks = self.drain();
        if !matches!(acks.first(), Some((_, SupportedMessage::AcknowledgeMessage(_)))) {
            return Err("no ACK".into());
        }
        let opn = Chunker::encode(1, 1, 0, 0, peer, &open_secure_channel(1, false)).map_err(|e| format!("{}", e))?;
        for c in opn {
            self.feed(c).map_err(|e| format!("open refused: {}", e))?;
        }
        for (_, m) in self.drain() {
            if let SupportedMessage::OpenSecureChannelResponse(r) = m {
                peer.set_security_token(r.security_token.clone());
                return Ok(());
            }
        }
        Err("no OpenSecureChannelResponse".into())
    }
}

impl Drop for HookConn {
    fn drop(&mut self) {
        // what the connection task does at the end: clears the sessions of this connection
        self.t.finish(StatusCode::Good);
    }
}

fn new_runtime() -> tokio::runtime::Runtime {
    tokio::runtime::Builder::new_current_thread().enable_all().build().expect("tokio runtime")
}

fn noop_cx_poll<F: Future>(f: Pin<&mut F>) -> Poll<F::Output> {
    let waker = futures::task::noop_waker();
    let mut cx = Context::from_waker(&waker);
    f.poll(&mut cx)
}

// ---------------------------------------------------------------------------------------------
// C15 handshake and close gating
// ---------------------------------------------------------------------------------------------

/// The frame kinds. OPNi / OPNr are acceptable Issue / Renew requests; OPNm and OPNv are Issue requests
/// that a server turns down with a fault and without issuing anything (OPNm: security mode Invalid, the
/// last thing `open_secure_channel` looks at; OPNv: a protocol version other than the HEL's, the first).
const C15_ALPHABET: [&str; 9] = ["HEL", "OPNi", "OPNr", "OPNm", "OPNv", "MSGg", "MSGc", "MSGr", "CLO"];

#[derive(Clone, Copy, Debug, PartialEq, Eq)]
enum RefState {
    New,
    HelloDone,
    ChannelOpen,
    Closed,
}

impl RefState {
    fn name(&self) -> &'static str {
        match self {
            RefState::New => "new",
            RefState::HelloDone => "hello-done",
            RefState::ChannelOpen => "channel-open",
            RefState::Closed => "closed",
        }
    }
}

/// What was observed for one frame: what came back on the socket, and (for frames sent in lock step)
/// by how much the server's cumulated session count grew while the frame was being served
#[derive(Clone, Debug, Default)]
struct FrameObs {
    /// response classes, e.g. "ACK", "OPN:OpenSecureChannelResponse", "MSG:ServiceFault", "ERR"
    responses: Vec<String>,
    eof: bool,
    silent: bool,
    /// sessions the server created while this frame was the only one outstanding (lock-step frames)
    sessions: u32,
}

/// One run of a frame sequence: the first `lock` frames in lock step, the rest in one write
#[derive(Clone, Debug, Default)]
struct C15Run {
    obs: Vec<FrameObs>,
    /// sessions the server created between the burst being written and the connection task ending
    burst_sessions: u32,
    /// the connection task was seen to end (otherwise the session counts are not attributable)
    finished: bool,
    /// how often the silence timeout ran out
    timeouts: u64,
}

/// Server-side observation point: the cumulated session count of the server's diagnostics, which grows
/// by one for every CreateSession the server carried out, whether or not a response was ever written
struct SessionProbe {
    metrics: opcua::server::metrics::ServerMetrics,
}

impl SessionProbe {
    fn new() -> SessionProbe {
        SessionProbe { metrics: opcua::server::metrics::ServerMetrics::new() }
    }
    fn created(&mut self, server: &Server) -> u32 {
        let state = server.server_state();
        let state = state.read();
        self.metrics.update_from_server_state(&state);
        self.metrics.diagnostics.server_diagnostics_summary().cumulated_session_count
    }
}

struct C15Peer {
    sc: SecureChannel,
    seq: u32,
    req: u32,
}

fn open_secure_channel_with(handle: u32, renew: bool, mode: MessageSecurityMode, version: u32) -> SupportedMessage {
    OpenSecureChannelRequest {
        request_header: req_header(handle),
        client_protocol_version: version,
        request_type: if renew { SecurityTokenRequestType::Renew } else { SecurityTokenRequestType::Issue },
        security_mode: mode,
        client_nonce: ByteString::from(vec![0u8; 1]),
        requested_lifetime: 600_000,
    }
    .into()
}

impl C15Peer {
    /// The bytes of the next frame of the given kind with valid contents for the peer's view of the
    /// connection (its channel id / token id once a channel was issued), and the request id used.
    fn frame(&mut self, kind: &str) -> (Vec<u8>, u32) {
        if kind == "HEL" {
            return (hello_message().encode_to_vec(), 0);
        }
        self.req += 1;
        self.seq += 1;
        let handle = self.req;
        let msg = match kind {
            "OPNi" => open_secure_channel(handle, false),
            "OPNr" => open_secure_channel(handle, true),
            "OPNm" => open_secure_channel_with(handle, false, MessageSecurityMode::Invalid, 0),
            "OPNv" => open_secure_channel_with(handle, false, MessageSecurityMode::None, 1),
            "MSGg" => get_endpoints(handle),
            "MSGc" => create_session(handle),
            "MSGr" => read_request(handle, 1, 0),
            "CLO" => close_secure_channel(handle),
            _ => panic!("unknown frame kind {}", kind),
        };
        let chunks = Chunker::encode(self.seq, self.req, 0, 0, &self.sc, &msg).expect("encode frame");
        (chunks[0].data.clone(), self.req)
    }
}

fn frame_class(kind: &str) -> &'static str {
    match kind {
        "HEL" => "HEL",
        "OPNi" | "OPNr" | "OPNm" | "OPNv" => "OPN",
        "CLO" => "CLO",
        _ => "MSG",
    }
}

/// Runs one frame sequence against a fresh connection served by the real `TcpTransport::run`
/// loop over a loopback socket. The first `lock` frames go out in lock step (after each frame wait
/// for its answer or for EOF); the remaining ones, if any, are written back to back in ONE write, so
/// that the server's reader finds them in its buffer together, and are then waited for together.
/// The server's cumulated session count is sampled after every lock-step frame and after the
/// connection task has ended.
async fn c15_run_socket(
    server: &Server,
    listener: &tokio::net::TcpListener,
    env: &Env,
    seq: &[&str],
    lock: usize,
    silence_ms: u64,
) -> Result<C15Run, String> {
    use tokio::io::{AsyncReadExt, AsyncWriteExt};
    let lock = lock.min(seq.len());
    let mut probe = SessionProbe::new();
    let mut sessions_seen = probe.created(server);
    let addr = listener.local_addr().map_err(|e| e.to_string())?;
    let (client, accepted) = tokio::join!(tokio::net::TcpStream::connect(addr), listener.accept());
    let mut client = client.map_err(|e| format!("connect: {}", e))?;
    let (srv_sock, _) = accepted.map_err(|e| format!("accept: {}", e))?;
    let _ = client.set_nodelay(true);
    let _ = srv_sock.set_nodelay(true);
    let transport = Arc::new(RwLock::new(server.new_transport()));
    TcpTransport::run(transport.clone(), srv_sock, 1000.0);

    let mut peer = C15Peer { sc: env.channel(Role::Client, wide_decoding_options()), seq: 0, req: 0 };
    let mut codec = TcpCodec::new(wide_decoding_options());
    let mut inbuf = BytesMut::new();
    let mut obs: Vec<FrameObs> = Vec::new();
    let mut eof = false;
    // request id -> index of the frame that carried it
    let mut by_req: BTreeMap<u32, usize> = BTreeMap::new();
    // HEL frames sent and not yet acknowledged, oldest first (answers arrive in order)
    let mut hel_unacked: std::collections::VecDeque<usize> = std::collections::VecDeque::new();
    let mut last_hel: Option<usize> = None;
    let mut burst_sessions = 0u32;
    let mut timeouts = 0u64;

    // one phase per lock-step frame, then one phase for the whole burst
    let mut phases: Vec<(usize, usize)> = (0..lock).map(|i| (i, i + 1)).collect();
    if lock < seq.len() {
        phases.push((lock, seq.len()));
    }
    for (a, b) in phases {
        let is_burst = a >= lock;
        let last = b - 1;
        let mut bytes: Vec<u8> = Vec::new();
        for idx in a..b {
            let (frame, req) = peer.frame(seq[idx]);
            bytes.extend_from_slice(&frame);
            obs.push(FrameObs::default());
            if seq[idx] == "HEL" {
                last_hel = Some(idx);
                hel_unacked.push_back(idx);
            } else {
                by_req.insert(req, idx);
            }
        }
        if eof {
            for o in &mut obs[a..b] {
                o.eof = true;
            }
            continue;
        }
        if client.write_all(&bytes).await.is_err() {
            // the server is gone; reading will tell
        }
        let _ = client.flush().await;
        // wait for the answers of this phase's frames or for EOF
        let mut answered: BTreeSet<usize> = BTreeSet::new();
        while answered.len() < b - a && !eof {
            // decode whatever is buffered
            loop {
                match codec.decode(&mut inbuf) {
                    Ok(Some(m)) => {
                        let (target, class) = match m {
                            Message::Acknowledge(_) => (hel_unacked.pop_front().or(last_hel).unwrap_or(last), "ACK".to_string()),
                            Message::Error(_) => (last, "ERR".to_string()),
                            Message::Hello(_) => (last, "HEL?".to_string()),
                            Message::Chunk(c) => match c.chunk_info(&peer.sc) {
                                Ok(info) => {
                                    let t = match info.message_header.message_type {
                                        MessageChunkType::Message => "MSG",
                                        MessageChunkType::OpenSecureChannel => "OPN",
                                        MessageChunkType::CloseSecureChannel => "CLO",
                                    };
                                    let target = by_req.get(&info.sequence_header.request_id).cloned().unwrap_or(last);
                                    let name = match Chunker::decode(&[c], &peer.sc, None) {
                                        Ok(m) => {
                                            if let SupportedMessage::OpenSecureChannelResponse(r) = &m {
                                                if r.response_header.service_result.is_good() {
                                                    peer.sc.set_security_token(r.security_token.clone());
                                                }
                                            }
                                            msg_name(&m)
                                        }
                                        Err(e) => format!("undecodable({})", e),
                                    };
                                    (target, format!("{}:{}", t, name))
                                }
                                Err(e) => (last, format!("chunk?({})", e)),
                            },
                        };
                        if target >= a && target < b && class != "ERR" {
                            answered.insert(target);
                        }
                        obs[target].responses.push(class);
                    }
                    Ok(None) => break,
                    Err(e) => return Err(format!("peer cannot decode server bytes: {}", e)),
                }
            }
            if answered.len() >= b - a {
                break;
            }
            let mut tmp = [0u8; 16384];
            // Every frame of the alphabet is either answered or makes the server close, so this
            // timeout only runs out against a server that silently ignores a frame. It never decides
            // a verdict: answers are attributed by request id whenever they arrive.
            match tokio::time::timeout(std::time::Duration::from_millis(silence_ms), client.read(&mut tmp)).await {
                Err(_) => {
                    timeouts += 1;
                    for idx in a..b {
                        if !answered.contains(&idx) {
                            obs[idx].silent = true;
                        }
                    }
                    break;
                }
                Ok(Ok(0)) | Ok(Err(_)) => {
                    eof = true;
                    obs[last].eof = true;
                }
                Ok(Ok(n)) => inbuf.extend_from_slice(&tmp[..n]),
            }
        }
        if !is_burst {
            // lock step: this frame is the only thing the server had to work on since the last sample
            let now = probe.created(server);
            obs[last].sessions = now.saturating_sub(sessions_seen);
            sessions_seen = now;
        }
    }
    if !eof && obs.iter().any(|o| o.silent) {
        let mut tmp = [0u8; 16384];
        while let Ok(Ok(n)) = tokio::time::timeout(std::time::Duration::from_millis(silence_ms), client.read(&mut tmp)).await {
            if n == 0 {
                break;
            }
            inbuf.extend_from_slice(&tmp[..n]);
        }
        while let Ok(Some(m)) = codec.decode(&mut inbuf) {
            if let Message::Chunk(c) = m {
                if let Ok(info) = c.chunk_info(&peer.sc) {
                    let t = match info.message_header.message_type {
                        MessageChunkType::Message => "MSG",
                        MessageChunkType::OpenSecureChannel => "OPN",
                        MessageChunkType::CloseSecureChannel => "CLO",
                    };
                    if let Some(target) = by_req.get(&info.sequence_header.request_id) {
                        obs[*target].responses.push(format!("{}:late", t));
                    }
                }
            }
        }
    }
    drop(client);
    // let the connection task run to its end: everything the server was going to do with what it
    // received has been done then, and its sessions are cleared before the next case
    let mut finished = false;
    for i in 0..50_000 {
        if transport.read().is_finished() {
            finished = true;
            break;
        }
        if i < 64 {
            tokio::task::yield_now().await;
        } else {
            tokio::time::sleep(std::time::Duration::from_micros(200)).await;
        }
    }
    // what the server created after the last lock-step sample belongs to the burst, or, without a
    // burst, to the last frame
    let now = probe.created(server);
    let rest = now.saturating_sub(sessions_seen);
    if lock < seq.len() {
        burst_sessions = rest;
    } else if let Some(o) = obs.last_mut() {
        o.sessions += rest;
    }
    Ok(C15Run { obs, burst_sessions, finished, timeouts })
}

/// The four-state reference automaton. Returns the violations (signature, detail) of one observed
/// run and the state path.
///
/// For frames sent in lock step the state follows what was observed (ACK, OpenSecureChannelResponse,
/// EOF). Inside a burst the answers that would confirm a transition may never be written (the server
/// may tear the connection down with answers still queued), so the walk is permissive there: a HEL in
/// `new` is taken as acknowledged and an OPN in `hello-done` whose answer was not seen is taken as
/// having opened the channel. A CLO closes in either mode. What stays forbidden in a burst is exactly
/// what no permitted behaviour can produce: a request carried out before any HEL / OPN of the
/// sequence, or after a CLO.
fn c15_oracle(seq: &[&str], lock: usize, run: &C15Run) -> (Vec<(String, String)>, String) {
    let obs = &run.obs;
    let mut st = RefState::New;
    let mut path = String::from("N");
    let mut viol = Vec::new();
    // an OPN was turned down in hello-done (part of the history shape, named in the signature)
    let mut opn_rejected = false;
    let mut burst_permitted = 0u32;
    let mut burst_forbidden: BTreeSet<String> = BTreeSet::new();
    let mut burst_after_rejected = false;
    let shape = |obs: &[FrameObs]| obs.iter().map(|o| o.responses.join("+")).collect::<Vec<_>>();
    for (i, kind) in seq.iter().enumerate() {
        let o = &obs[i];
        let fc = frame_class(kind);
        let in_burst = i >= lock;
        let after = if st == RefState::HelloDone && opn_rejected { "|after=rejected-OPN" } else { "" };
        for r in &o.responses {
            let rclass = r.split(':').next().unwrap_or("?");
            if rclass == "ERR" {
                continue; // an error frame is never "answering a service"
            }
            let permitted = match st {
                RefState::New => fc == "HEL" && rclass == "ACK",
                RefState::HelloDone => match fc {
                    "HEL" => rclass == "ACK",
                    // an OPN may be answered by its response or by a fault
                    "OPN" => r == "OPN:OpenSecureChannelResponse" || r == "MSG:ServiceFault",
                    _ => false,
                },
                RefState::ChannelOpen => true,
                RefState::Closed => false,
            };
            if !permitted {
                viol.push((
                    format!("forbidden-response|state={}|frame={}|response={}{}", st.name(), fc, rclass, after),
                    format!(
                        "frame #{} ({}) was answered with {} while the connection was in reference state {}; sequence {:?} (first {} in lock step), observations {:?}",
                        i, kind, r, st.name(), seq, lock, shape(obs)
                    ),
                ));
            }
        }
        // server-side observation: a session can only come from a CreateSession on an open channel
        if *kind == "MSGc" && st == RefState::ChannelOpen {
            if in_burst {
                burst_permitted += 1;
            }
        } else {
            if in_burst && *kind == "MSGc" {
                burst_forbidden.insert(st.name().to_string());
                burst_after_rejected |= !after.is_empty();
            }
            if !in_burst && o.sessions > 0 {
                viol.push((
                    format!("processed-request|state={}|frame={}|arrival=lock-step|observed=session-created{}", st.name(), fc, after),
                    format!(
                        "the server created {} session(s) while serving frame #{} ({}) in reference state {}; sequence {:?}, observations {:?}",
                        o.sessions, i, kind, st.name(), seq, shape(obs)
                    ),
                ));
            }
        }
        // transition
        let acked = o.responses.iter().any(|r| r == "ACK") || in_burst;
        let opn_answer_seen = o.responses.iter().any(|r| r.starts_with("OPN:") || r.starts_with("MSG:"));
        let opened = o.responses.iter().any(|r| r == "OPN:OpenSecureChannelResponse") || (in_burst && !opn_answer_seen);
        if st == RefState::HelloDone && fc == "OPN" && !opened {
            opn_rejected = true;
        }
        st = match (st, fc) {
            (RefState::Closed, _) => RefState::Closed,
            (_, "CLO") => RefState::Closed,
            (RefState::New, "HEL") if acked => RefState::HelloDone,
            (RefState::HelloDone, "OPN") if opened => RefState::ChannelOpen,
            (s, _) => s,
        };
        if o.eof {
            // the server dropped the connection: nothing can be answered any more
            st = RefState::Closed;
        }
        path.push(match st {
            RefState::New => 'N',
            RefState::HelloDone => 'H',
            RefState::ChannelOpen => 'O',
            RefState::Closed => 'X',
        });
    }
    if lock < seq.len() && run.burst_sessions > burst_permitted {
        let states = if burst_forbidden.is_empty() { "no-CreateSession".to_string() } else { burst_forbidden.iter().cloned().collect::<Vec<_>>().join("+") };
        viol.push((
            format!(
                "processed-request|state={}|frame=MSG|arrival=burst|observed=session-created{}",
                states,
                if burst_after_rejected { "|after=rejected-OPN" } else { "" }
            ),
            format!(
                "the server created {} session(s) out of the frames {:?} written back to back after {:?}, but only {} CreateSession of that burst \
                 met an open channel; the others met reference state(s) {}; observations {:?}",
                run.burst_sessions, &seq[lock..], &seq[..lock], burst_permitted, states, shape(obs)
            ),
        ));
    }
    (viol, path)
}

/// Wall-clock budget for waiting on a server that ignores frames (never needed on the real tree)
struct Silence {
    budget_ms: i64,
    events: u64,
}

impl Silence {
    fn timeout_ms(&self) -> u64 {
        if self.budget_ms > 0 {
            250
        } else {
            10
        }
    }
}

/// Runs and judges one case: `seq` with its first `lock` frames in lock step and the rest as one burst
/// (`lock == seq.len()`: all in lock step). Returns whether the connection was still open at the end.
fn c15_eval(
    rt: &tokio::runtime::Runtime,
    server: &Server,
    listener: &tokio::net::TcpListener,
    env: &Env,
    seq: &[&str],
    lock: usize,
    record: bool,
    silence: &mut Silence,
    rep: &mut Report,
) -> Option<bool> {
    let lock = lock.min(seq.len());
    let burst = lock < seq.len();
    let case = if burst {
        json!({"seq": seq, "lock": lock, "class": format!("{} | {}", seq[..lock].join(" "), seq[lock..].join(" "))})
    } else {
        json!({"seq": seq, "class": seq.join(" ")})
    };
    rep.begin_case(&case);
    let silence_ms = silence.timeout_ms();
    let r = catch(|| rt.block_on(c15_run_socket(server, listener, env, seq, lock, silence_ms)));
    if let Ok(Ok(run)) = &r {
        silence.events += run.obs.iter().filter(|o| o.silent).count() as u64;
        silence.budget_ms -= (run.timeouts * silence_ms) as i64;
    }
    if !record {
        // a prefix every shard needs in order to know whether it is alive; reported by shard 0 only
        return match r {
            Ok(Ok(run)) => Some(run.obs.last().map(|o| !o.eof).unwrap_or(true)),
            _ => None,
        };
    }
    let run = match r {
        Err(p) => {
            rep.case(&format!("panic {}", seq.join(" ")));
            rep.violation(p.signature(), format!("panic while serving {:?}: {} at {}:{}", seq, p.msg, p.file, p.line), case);
            return None;
        }
        Ok(Err(e)) => {
            rep.inconclusive(format!("socket run of {:?} failed: {}", seq, e));
            return None;
        }
        Ok(Ok(o)) => o,
    };
    if let Some(p) = take_uncaught_panic() {
        rep.violation(p.signature(), format!("connection task panicked while serving {:?}: {} at {}:{}", seq, p.msg, p.file, p.line), case.clone());
    }
    if !run.finished {
        rep.inconclusive(format!("the connection task serving {:?} did not end after the peer hung up; session counts are not attributable", seq));
        return None;
    }
    let obs = &run.obs;
    let (viol, path) = c15_oracle(seq, lock, &run);
    let shape: Vec<String> = obs
        .iter()
        .map(|o| {
            let mut r: Vec<&str> = o.responses.iter().map(|r| r.split(':').next().unwrap_or("?")).collect();
            if o.eof {
                r.push("eof");
            }
            if o.silent {
                r.push("silent");
            }
            if o.sessions > 0 {
                r.push("session");
            }
            r.join("+")
        })
        .collect();
    let classes = seq.iter().map(|k| frame_class(k)).collect::<Vec<_>>();
    if burst {
        rep.case(&format!(
            "burst {} / {} | {} | {} | sessions={}",
            classes[..lock].join(","), classes[lock..].join(","), path, shape.join(","), run.burst_sessions
        ));
    } else {
        rep.case(&format!("{} | {} | {}", classes.join(","), path, shape.join(",")));
    }
    rep.sample(json!({"seq": seq, "lock_step_frames": lock, "reference_path": path, "burst_sessions_created": run.burst_sessions,
        "observed": obs.iter().map(|o| json!({"responses": o.responses, "eof": o.eof, "sessions_created": o.sessions})).collect::<Vec<_>>()}));
    rep.count("frames_sent", seq.len() as u64);
    rep.count("responses_observed", obs.iter().map(|o| o.responses.len() as u64).sum());
    rep.count("connections_closed_by_server", obs.iter().any(|o| o.eof) as u64);
    rep.count("frames_neither_answered_nor_closed", obs.iter().filter(|o| o.silent).count() as u64);
    rep.count("sessions_created_by_the_server", obs.iter().map(|o| o.sessions as u64).sum::<u64>() + run.burst_sessions as u64);
    if burst {
        rep.count("burst_cases", 1);
        rep.count("frames_sent_in_bursts", (seq.len() - lock) as u64);
    } else {
        rep.count("lock_step_cases", 1);
    }
    for (sig, detail) in viol {
        rep.violation(sig, detail, case.clone());
    }
    Some(obs.last().map(|o| !o.eof).unwrap_or(true))
}

pub fn c15(args: &Args, rep: &mut Report) {
    let depth: usize = if args.thorough() { 6 } else { 5 };
    // frames written back to back after a lock-step prefix
    let max_burst: usize = if args.thorough() { 4 } else { 3 };
    let mut env = Env::new("c15");
    let lim = Limits { max_message_size: 327_675, max_chunk_count: 5, send_buffer_size: 65536, receive_buffer_size: 65536 };
    env.server(&lim);
    let rt = new_runtime();
    let listener = match rt.block_on(tokio::net::TcpListener::bind("127.0.0.1:0")) {
        Ok(l) => l,
        Err(e) => {
            rep.inconclusive(format!("cannot bind a loopback listener: {}", e));
            return;
        }
    };
    let server = &env.servers[&lim.key()];

    if let Some(path) = &args.replay {
        let Some(case) = read_replay(path) else {
            rep.inconclusive("cannot read replay file");
            return;
        };
        let seq: Vec<String> = case["seq"].as_array().map(|a| a.iter().filter_map(|x| x.as_str().map(|s| s.to_string())).collect()).unwrap_or_default();
        let seq: Vec<&str> = seq.iter().map(|s| C15_ALPHABET.iter().find(|a| **a == s.as_str()).cloned().unwrap_or("HEL")).collect();
        let lock = if case.get("lock").is_some() { u(&case, "lock") as usize } else { seq.len() };
        c15_eval(&rt, server, &listener, &env, &seq, lock, true, &mut Silence { budget_ms: 20_000, events: 0 }, rep);
        return;
    }

    // Depth-first over the sequence tree, in lock step. A node is extended only while the server keeps
    // the connection open: once the peer has seen EOF nothing can be answered to any extension, so
    // all extensions of a closed prefix are decided by that prefix (counted, not re-run).
    // Every prefix that is still open (and the empty one) is also the lock-step part of burst cases:
    // each sequence of 2..max_burst further frames is written back to back in one write after it.
    // Sharding: sequences of up to two frames are run by every shard (18 connections; recorded by shard 0)
    // so that each shard knows which prefixes are open; longer ones belong to the shard given by their
    // second and third frame, with their bursts. The bursts of the shared prefixes are dealt out in turn.
    let nl = C15_ALPHABET.len();
    let pos = |k: &str| C15_ALPHABET.iter().position(|a| *a == k).unwrap_or(0);
    let owner = |seq: &[&str]| -> Option<usize> {
        if seq.len() < 3 {
            None
        } else {
            Some((pos(seq[1]) * nl + pos(seq[2])) % args.shards)
        }
    };
    let mut pruned: u64 = 0;
    let mut silence = Silence { budget_ms: 20_000, events: 0 };
    let started = std::time::Instant::now();
    let deadline_s = if args.thorough() { 900 } else { 150 };
    let mut out_of_time = false;
    let mut shared_bursts: usize = 0;
    // the bursts that follow one open lock-step prefix
    let mut run_bursts = |prefix: &[&str], silence: &mut Silence, rep: &mut Report, out_of_time: &mut bool| {
        let shared = owner(prefix).is_none();
        for m in 2..=max_burst.min(depth.saturating_sub(prefix.len())) {
            let total = nl.pow(m as u32);
            for code in 0..total {
                if shared {
                    shared_bursts += 1;
                    if shared_bursts % args.shards != args.shard {
                        continue;
                    }
                }
                if started.elapsed().as_secs() > deadline_s {
                    *out_of_time = true;
                    return;
                }
                let mut seq: Vec<&str> = prefix.to_vec();
                let mut c = code;
                let mut suffix = vec![""; m];
                for slot in suffix.iter_mut().rev() {
                    *slot = C15_ALPHABET[c % nl];
                    c /= nl;
                }
                seq.extend_from_slice(&suffix);
                c15_eval(&rt, server, &listener, &env, &seq, prefix.len(), true, silence, rep);
            }
        }
    };
    run_bursts(&[], &mut silence, rep, &mut out_of_time);
    let mut stack: Vec<Vec<&str>> = C15_ALPHABET.iter().rev().map(|k| vec![*k]).collect();
    while let Some(seq) = stack.pop() {
        if out_of_time || started.elapsed().as_secs() > deadline_s {
            // only reachable when the server ignores frames instead of answering or closing
            rep.inconclusive(format!(
                "enumeration stopped after {} s with {} sequences still queued: the server left {} frames without answer or close",
                deadline_s, stack.len() + 1, silence.events
            ));
            break;
        }
        let own = owner(&seq);
        if own.map(|o| o != args.shard).unwrap_or(false) {
            continue;
        }
        let record = own.is_some() || args.shard == 0;
        let alive = c15_eval(&rt, server, &listener, &env, &seq, seq.len(), record, &mut silence, rep);
        let remaining = depth - seq.len();
        match alive {
            Some(true) if remaining > 0 => {
                run_bursts(&seq, &mut silence, rep, &mut out_of_time);
                for k in C15_ALPHABET.iter().rev() {
                    let mut n = seq.clone();
                    n.push(*k);
                    stack.push(n);
                }
            }
            Some(false) => {
                // nl + nl^2 + ... + nl^remaining lock-step extensions decided by this closed prefix
                let mut n: u64 = 0;
                let mut p: u64 = 1;
                for _ in 0..remaining {
                    p *= nl as u64;
                    n += p;
                }
                // a shared prefix is evaluated by every shard; attribute its subtree to shard 0 only
                if record {
                    pruned += n;
                }
            }
            _ => {}
        }
    }
    if silence.events > 0 {
        rep.note(format!(
            "shard {}: {} frames were neither answered nor followed by a close within the silence timeout (250 ms, 10 ms after 20 s in total); \
             late answers are still attributed by request id, but an answer later than that would be missed",
            args.shard, silence.events
        ));
    }
    rep.count("sequences_decided_by_a_closed_prefix", pruned);
    if args.shard == 0 {
        rep.count("max_sequence_length", depth as u64);
        rep.count("max_burst_length", max_burst as u64);
    }
    drop(listener);
    drop(rt);
}

// ---------------------------------------------------------------------------------------------
// C10 bounded buffering
// ---------------------------------------------------------------------------------------------

const C10_FLAVOURS: [&str; 9] = [
    "valid", "same-seq", "wrong-channel", "alt-request", "random", "abort-mix", "opn-intermediate", "pre-open", "final-at",
];

/// One history of chunks against one server connection. Everything needed to rerun it is in `case`.
fn c10_server_case(case: &Value, env: &mut Env, _shard: usize, rep: &mut Report) {
    let lim = Limits::from_json(&case["lim"]);
    let flavour = s(case, "flavour").to_string();
    let body = u(case, "body") as usize;
    let n = u(case, "n") as usize;
    let mut rng = Rng::new(u(case, "cseed"));
    let mcc = lim.max_chunk_count;
    let mms = lim.max_message_size;
    let class = format!(
        "server {} mcc={} mms={} body={} n={}",
        flavour,
        mcc,
        mms,
        if body == 0 { "0".to_string() } else if body + SYM_OVERHEAD >= mms && mms > 0 { ">=mms".into() } else if body < 100 { "small".into() } else { "large".into() },
        if mcc > 0 && n > mcc { ">mcc" } else { "<=mcc" }
    );
    rep.begin_case(case);
    let r = catch(|| {
        let mut peer = env.channel(Role::Client, wide_decoding_options());
        let server = env.server(&lim);
        let mut conn = HookConn::new(server, &lim);
        let mut events: Vec<(String, String, Value)> = Vec::new(); // (kind, signature/detail, _)
        let mut counters: BTreeMap<&'static str, u64> = BTreeMap::new();
        if flavour == "pre-open" {
            if let Err(e) = conn.hello() {
                return (vec![("inconclusive".to_string(), format!("hello refused: {}", e), Value::Null)], counters);
            }
            conn.drain();
        } else if let Err(e) = conn.open(&mut peer) {
            return (vec![("inconclusive".to_string(), e, Value::Null)], counters);
        }
        let channel_id = peer.secure_channel_id();
        // the message whose pieces are sent: a real request, so that a final chunk can complete it
        let total_body = if flavour == "final-at" { body.max(1) * n.max(1) } else { 0 };
        let (_, real_body) = message_body(&get_endpoints_padded(77, total_body.saturating_sub(80)), &peer);
        let mut seq: u32 = 2;
        let mut reported_count = false;
        let mut reported_bytes = false;
        let mut max_count = 0usize;
        let mut max_bytes = 0usize;
        let mut sent_since_boundary = 0usize;
        let mut body_since_boundary = 0usize;
        let mut pos = 0usize;
        for i in 0..n {
            let last = i + 1 == n;
            let mut is_final = MessageIsFinalType::Intermediate;
            let mut mtype = MessageChunkType::Message;
            let mut req = 9u32;
            let mut ch = channel_id;
            let mut sq = seq;
            let data: Vec<u8>;
            match flavour.as_str() {
                "same-seq" => sq = 2,
                "wrong-channel" => ch = channel_id.wrapping_add(1 + rng.below(5) as u32),
                "alt-request" => req = 9 + (i as u32 % 2),
                "random" => {
                    sq = rng.next_u32();
                    req = rng.next_u32();
                    if rng.chance(1, 3) {
                        ch = rng.next_u32();
                    }
                }
                "abort-mix" => {
                    // an abort chunk now and then; the stretches in between go past the limit
                    let stretch = if mcc > 0 { mcc + 2 } else { 40 };
                    if i % (stretch + 1) == stretch {
                        is_final = MessageIsFinalType::FinalError;
                    }
                }
                "opn-intermediate" => mtype = MessageChunkType::OpenSecureChannel,
                "final-at" => {
                    if last {
                        is_final = MessageIsFinalType::Final;
                    }
                }
                _ => {}
            }
            if flavour == "final-at" {
                let end = if last { real_body.len() } else { (pos + body).min(real_body.len()) };
                data = real_body[pos..end].to_vec();
                pos = end;
            } else {
                data = vec![0x5a; body];
            }
            let mut chunk = MessageChunk::new(sq, req, mtype, is_final, &peer, &data).expect("chunk");
            if ch != channel_id {
                patch_channel_id(&mut chunk, ch);
            }
            let chunk_len = chunk.data.len();
            seq = seq.wrapping_add(1);
            let res = conn.feed(chunk);
            *counters.entry("server_chunks_fed").or_insert(0) += 1;
            *counters.entry("server_bytes_fed").or_insert(0) += chunk_len as u64;
            let responses = conn.drain();
            match res {
                Err(e) => {
                    *counters.entry("server_errors_returned").or_insert(0) += 1;
                    events.push(("end".into(), format!("step {} -> {}", i, status_name(e)), Value::Null));
                    break; // the reading loop ends the connection on an error
                }
                Ok(()) => {
                    if is_final == MessageIsFinalType::FinalError {
                        sent_since_boundary = 0;
                        body_since_boundary = 0;
                    } else {
                        sent_since_boundary += 1;
                        body_since_boundary += data.len();
                    }
                    let (count, bytes) = conn.t.verif_pending_chunks();
                    max_count = max_count.max(count);
                    max_bytes = max_bytes.max(bytes);
                    // "never buffers more bytes than the maximum message size" is read literally: what the
                    // transport holds for the incomplete message, chunk headers included (they are memory too, and
                    // with empty bodies they are all there is)
                    let body_bytes = bytes.saturating_sub(count * SYM_OVERHEAD);
                    if mcc > 0 && count > mcc && !reported_count {
                        reported_count = true;
                        events.push((
                            "violation".into(),
                            "server-pending|chunk-count-above-max_chunk_count".into(),
                            json!(format!("after chunk #{} ({}) the transport holds {} pending chunks, max_chunk_count is {}, no error was returned", i, flavour, count, mcc)),
                        ));
                    }
                    if mms > 0 && bytes > mms && !reported_bytes {
                        reported_bytes = true;
                        events.push((
                            "violation".into(),
                            "server-pending|bytes-above-max_message_size".into(),
                            json!(format!("after chunk #{} ({}) the transport holds {} bytes in {} pending chunks ({} without chunk headers), max_message_size is {}, no error was returned", i, flavour, bytes, count, body_bytes, mms)),
                        ));
                    }
                    if is_final == MessageIsFinalType::Final {
                        let answered = !responses.is_empty();
                        if answered {
                            *counters.entry("server_messages_accepted").or_insert(0) += 1;
                            if mcc > 0 && sent_since_boundary > mcc {
                                events.push((
                                    "violation".into(),
                                    "server-accept|message-of-more-than-max_chunk_count-chunks".into(),
                                    json!(format!("a message of {} chunks was reassembled and answered ({}), max_chunk_count is {}", sent_since_boundary, msg_name(&responses[0].1), mcc)),
                                ));
                            } else if mms > 0 && body_since_boundary > mms {
                                events.push((
                                    "violation".into(),
                                    "server-accept|message-larger-than-max_message_size".into(),
                                    json!(format!("a message with {} body bytes in {} chunks was reassembled and answered ({}), max_message_size is {}", body_since_boundary, sent_since_boundary, msg_name(&responses[0].1), mms)),
                                ));
                            } else {
                                *counters.entry("server_messages_accepted_within_limits").or_insert(0) += 1;
                            }
                        }
                        sent_since_boundary = 0;
                        body_since_boundary = 0;
                    }
                }
            }
        }
        *counters.entry("server_max_pending_chunks_seen").or_insert(0) = max_count as u64;
        *counters.entry("server_max_pending_bytes_seen").or_insert(0) = max_bytes as u64;
        *counters.entry("server_histories_with_pending_chunks_above_limit").or_insert(0) += reported_count as u64;
        *counters.entry("server_histories_with_pending_bytes_above_limit").or_insert(0) += reported_bytes as u64;
        (events, counters)
    });
    rep.case(&class);
    rep.sample(case.clone());
    match r {
        Err(p) => rep.violation(p.signature(), format!("panic: {} at {}:{}", p.msg, p.file, p.line), case.clone()),
        Ok((events, counters)) => {
            for (k, v) in counters {
                if k.starts_with("server_max_") {
                    // a maximum, not a sum: kept out of the summed counters (see the shard note)
                    let k = format!("~{}", k);
                    let cur = rep.counters.get(&k).cloned().unwrap_or(0);
                    if v > cur {
                        rep.counters.insert(k, v);
                    }
                } else {
                    rep.count(k, v);
                }
            }
            for (kind, a, b) in events {
                match kind.as_str() {
                    "violation" => rep.violation(a, b.as_str().unwrap_or("").to_string(), case.clone()),
                    "inconclusive" => rep.inconclusive(format!("C10 server case could not be set up: {}", a)),
                    _ => {}
                }
            }
        }
    }
}

fn c10_header_bytes(kind: &str, declared: u32) -> Vec<u8> {
    let mut h = Vec::with_capacity(12);
    h.extend_from_slice(&kind.as_bytes()[..4]);
    h.extend_from_slice(&declared.to_le_bytes());
    h
}

/// A frame header declaring `declared` bytes followed by a trickle of body
fn c10_codec_case(case: &Value, rep: &mut Report) {
    let mms = u(case, "mms") as usize;
    let declared = u(case, "declared") as u32;
    let kind = s(case, "kind").to_string();
    let trickle = u(case, "trickle") as usize;
    let over = mms > 0 && declared as usize > mms;
    let rel = if mms == 0 {
        "nolimit".to_string()
    } else if declared as usize == mms {
        "=max".into()
    } else if declared as usize == mms + 1 {
        "max+1".into()
    } else if (declared as usize) < mms {
        "<max".into()
    } else if declared >= 0x8000_0000 {
        ">=2^31".into()
    } else {
        ">max".into()
    };
    rep.begin_case(case);
    let r = catch(|| {
        let mut codec = TcpCodec::new(DecodingOptions { max_message_size: mms, ..wide_decoding_options() });
        let mut buf = BytesMut::new();
        let header = c10_header_bytes(&kind, declared);
        let mut fed = 0usize;
        let mut waits_after_header = 0u64;
        let mut first_wait_len = 0usize;
        let mut outcome = "pending".to_string();
        let mut max_buffered = 0usize;
        // always go past the 8 header bytes, even when the declaration is smaller than a header
        let limit = (declared as usize).min(8 + trickle).max(12);
        let mut step = 1usize;
        while fed < limit {
            let take = step.min(limit - fed);
            for k in 0..take {
                let idx = fed + k;
                // channel id 1 after the 8 byte header of a chunk, filler afterwards
                buf.extend_from_slice(&[if idx < 8 { header[idx] } else if idx == 8 { 1 } else { 0 }]);
            }
            fed += take;
            if fed > 24 {
                step = 997;
            }
            max_buffered = max_buffered.max(buf.len());
            match codec.decode(&mut buf) {
                Ok(None) => {
                    if fed > 8 {
                        if waits_after_header == 0 {
                            first_wait_len = fed;
                        }
                        waits_after_header += 1;
                    }
                }
                Ok(Some(_)) => {
                    outcome = format!("frame@{}", fed);
                    break;
                }
                Err(e) => {
                    outcome = format!("error@{}:{}", if fed <= 9 { fed.to_string() } else { "later".to_string() }, e.kind() as u32);
                    break;
                }
            }
        }
        (outcome, waits_after_header, first_wait_len, max_buffered, fed)
    });
    rep.case(&format!("codec {} declared{} mms={}", kind, rel, mms));
    rep.sample(case.clone());
    match r {
        Err(p) => rep.violation(p.signature(), format!("panic: {} at {}:{}", p.msg, p.file, p.line), case.clone()),
        Ok((outcome, waits, first_wait_len, max_buffered, fed)) => {
            rep.count("codec_headers_fed", 1);
            rep.count("codec_bytes_fed", fed as u64);
            if over {
                rep.count("codec_oversized_declarations", 1);
                if outcome.starts_with("frame") {
                    rep.violation(
                        "codec-accepts|declared-size-above-max_message_size",
                        format!("{} frame declaring {} bytes yielded a frame with max_message_size {}", kind, declared, mms),
                        case.clone(),
                    );
                } else if waits > 0 {
                    rep.violation(
                        "codec-waits|declared-size-above-max_message_size",
                        format!(
                            "{} header declaring {} bytes (max_message_size {}): decode returned Ok(None) {} times with more than the 8 header bytes buffered (first with {} bytes, up to {} bytes buffered), outcome {}",
                            kind, declared, mms, waits, first_wait_len, max_buffered, outcome
                        ),
                        case.clone(),
                    );
                } else if outcome.starts_with("error") {
                    rep.count("codec_oversized_rejected", 1);
                } else {
                    rep.inconclusive(format!("codec case fed too little to decide: {:?}", case));
                }
            } else if outcome.starts_with("error") {
                rep.count("codec_within_limit_rejected", 1);
            } else {
                rep.count("codec_within_limit_waited_or_framed", 1);
            }
        }
    }
}

fn c10_limit_sets() -> Vec<Limits> {
    vec![
        Limits { max_message_size: 327_675, max_chunk_count: 5, send_buffer_size: 65536, receive_buffer_size: 65536 },
        Limits { max_message_size: 32_768, max_chunk_count: 0, send_buffer_size: 8196, receive_buffer_size: 8196 },
        Limits { max_message_size: 8196, max_chunk_count: 1, send_buffer_size: 8196, receive_buffer_size: 8196 },
        Limits { max_message_size: 0, max_chunk_count: 64, send_buffer_size: 65536, receive_buffer_size: 65536 },
        Limits { max_message_size: 100_000, max_chunk_count: 12, send_buffer_size: 16384, receive_buffer_size: 16384 },
    ]
}

fn c10_server_cases(args: &Args, rng: &mut Rng) -> Vec<Value> {
    let mut cases = Vec::new();
    let sets = c10_limit_sets();
    // grid: every flavour x limit set x body size class, histories running well past both limits
    for lim in &sets {
        let mcc = lim.max_chunk_count;
        let mms = lim.max_message_size;
        let mut bodies: Vec<usize> = vec![0, 1, 200, 8196 - SYM_OVERHEAD];
        if mms > 0 {
            bodies.push(mms / 4);
            bodies.push(mms.saturating_sub(SYM_OVERHEAD));
            bodies.push(mms);
        }
        bodies.sort();
        bodies.dedup();
        for flavour in C10_FLAVOURS.iter() {
            for &body in &bodies {
                if *flavour == "final-at" {
                    // messages of exactly k chunks around the chunk limit and body totals around the size limit
                    let mut ks: Vec<usize> = vec![1, 2];
                    if mcc > 0 {
                        ks.extend([mcc.saturating_sub(1).max(1), mcc, mcc + 1, 2 * mcc + 1]);
                    }
                    if mms > 0 && body > 0 {
                        let k = mms / body;
                        ks.extend([k.max(1), k + 1, k + 2]);
                    }
                    ks.sort();
                    ks.dedup();
                    for k in ks {
                        if body == 0 || k * (body + SYM_OVERHEAD) > 3_000_000 || k > 3000 {
                            continue;
                        }
                        cases.push(json!({"part": "server", "lim": lim.json(), "flavour": flavour, "body": body, "n": k, "cseed": rng.next_u64() >> 12}));
                    }
                    continue;
                }
                let by_count = if mcc > 0 { 3 * mcc + 4 } else { 0 };
                let by_bytes = if mms > 0 { (2 * mms) / (body + SYM_OVERHEAD) + 3 } else { 0 };
                let mut n = by_count.max(by_bytes).max(16);
                // keep one history below ~6 MB and 400 chunks: both are far beyond every limit used here
                n = n.min(400).min(6_000_000 / (body + SYM_OVERHEAD) + 2);
                if mcc > 0 {
                    n = n.max(mcc + 2);
                }
                cases.push(json!({"part": "server", "lim": lim.json(), "flavour": flavour, "body": body, "n": n, "cseed": rng.next_u64() >> 12}));
            }
        }
    }
    // seeded random histories
    let extra = if args.thorough() { 1500 } else { 120 };
    for _ in 0..extra {
        let lim = *rng.pick(&sets);
        let flavour = *rng.pick(&C10_FLAVOURS);
        let body = match rng.below(4) {
            0 => rng.usize(64),
            1 => rng.usize(9000),
            2 => lim.max_message_size.max(4096) / (1 + rng.usize(8)),
            _ => rng.usize(70_000),
        };
        let mut n = 2 + rng.usize(if args.thorough() { 600 } else { 200 });
        n = n.min(6_000_000 / (body + SYM_OVERHEAD) + 2);
        if flavour == "final-at" && body == 0 {
            continue;
        }
        cases.push(json!({"part": "server", "lim": lim.json(), "flavour": flavour, "body": body, "n": n, "cseed": rng.next_u64() >> 12}));
    }
    cases
}

fn c10_codec_cases(args: &Args) -> Vec<Value> {
    let mut cases = Vec::new();
    let kinds = ["HELF", "ACKF", "ERRF", "MSGF", "MSGC", "MSGA", "OPNF", "OPNC", "CLOF", "CLOA"];
    let trickle = if args.thorough() { 2_000_000 } else { 70_000 };
    for &mms in &[1usize, 100, 8196, 65_536, 327_675, 0] {
        let mut sizes: BTreeSet<u32> = BTreeSet::new();
        if mms > 0 {
            for d in [mms.saturating_sub(1), mms, mms + 1, mms + 2, mms + 1024, 2 * mms, 16 * mms] {
                sizes.insert(d as u32);
            }
        }
        for d in [0u32, 8, 9, 1 << 20, 1 << 24, (1 << 31) - 1, 1 << 31, (1 << 31) + 1, u32::MAX - 1, u32::MAX] {
            sizes.insert(d);
        }
        for &d in &sizes {
            for kind in kinds.iter() {
                cases.push(json!({"part": "codec", "mms": mms, "declared": d, "kind": kind, "trickle": trickle}));
            }
        }
    }
    cases
}

pub fn c10(args: &Args, rep: &mut Report) {
    let mut env = Env::new("c10");
    if let Some(path) = &args.replay {
        let Some(case) = read_replay(path) else {
            rep.inconclusive("cannot read replay file");
            return;
        };
        if s(&case, "part") == "codec" {
            c10_codec_case(&case, rep);
        } else {
            c10_server_case(&case, &mut env, 0, rep);
        }
        return;
    }
    // the case list is a function of the seed only; shards take every shards-th case
    let mut rng = Rng::new(args.seed ^ 0xC10);
    let mut cases = c10_codec_cases(args);
    cases.extend(c10_server_cases(args, &mut rng));
    for (i, case) in cases.iter().enumerate() {
        if i % args.shards != args.shard {
            continue;
        }
        if s(case, "part") == "codec" {
            c10_codec_case(case, rep);
        } else {
            c10_server_case(case, &mut env, args.shard, rep);
        }
    }
    let mc = rep.counters.remove("~server_max_pending_chunks_seen").unwrap_or(0);
    let mb = rep.counters.remove("~server_max_pending_bytes_seen").unwrap_or(0);
    rep.note(format!(
        "shard {}: largest pending list seen {} chunks / {} bytes; peak RSS {} kB (supporting evidence only)",
        args.shard, mc, mb, peak_rss_kb()
    ));
}

// ---------------------------------------------------------------------------------------------
// C11 segmentation independence
// ---------------------------------------------------------------------------------------------

fn ua_string_bytes(v: Option<&str>) -> Vec<u8> {
    match v {
        None => (-1i32).to_le_bytes().to_vec(),
        Some(t) => {
            let mut b = (t.len() as i32).to_le_bytes().to_vec();
            b.extend_from_slice(t.as_bytes());
            b
        }
    }
}

fn with_size(kind: &[u8; 4], rest: &[u8]) -> Vec<u8> {
    let mut f = kind.to_vec();
    f.extend_from_slice(&((8 + rest.len()) as u32).to_le_bytes());
    f.extend_from_slice(rest);
    f
}

/// Frames written by hand from Part 6 (not with the repository's encoder)
fn frame_hel(url: &str, sizes: [u32; 5]) -> Vec<u8> {
    let mut r = Vec::new();
    for v in sizes {
        r.extend_from_slice(&v.to_le_bytes());
    }
    r.extend_from_slice(&ua_string_bytes(Some(url)));
    with_size(b"HELF", &r)
}

fn frame_ack(sizes: [u32; 5]) -> Vec<u8> {
    let mut r = Vec::new();
    for v in sizes {
        r.extend_from_slice(&v.to_le_bytes());
    }
    with_size(b"ACKF", &r)
}

fn frame_err(code: u32, reason: Option<&str>) -> Vec<u8> {
    let mut r = code.to_le_bytes().to_vec();
    r.extend_from_slice(&ua_string_bytes(reason));
    with_size(b"ERRF", &r)
}

/// kind = "MSG"/"OPN"/"CLO", fin = b'F'/b'C'/b'A'; payload follows the 12 byte chunk header
fn frame_chunk(kind: &str, fin: u8, channel: u32, payload: &[u8]) -> Vec<u8> {
    let mut k = [0u8; 4];
    k[..3].copy_from_slice(kind.as_bytes());
    k[3] = fin;
    let mut r = channel.to_le_bytes().to_vec();
    r.extend_from_slice(payload);
    with_size(&k, &r)
}

fn frame_tag(m: &Message) -> &'static str {
    match m {
        Message::Hello(_) => "HEL",
        Message::Acknowledge(_) => "ACK",
        Message::Error(_) => "ERR",
        Message::Chunk(_) => "CHK",
    }
}

/// (tag, canonical bytes) of a decoded frame; the bytes come from the repository's encoder
fn canon(m: Message) -> (&'static str, Vec<u8>) {
    let tag = frame_tag(&m);
    let mut out = BytesMut::new();
    let mut codec = TcpCodec::new(wide_decoding_options());
    match codec.encode(m, &mut out) {
        Ok(()) => (tag, out.to_vec()),
        Err(_) => (tag, Vec::new()),
    }
}

/// Feeds the stream to a fresh codec the way tokio's FramedRead does: append a segment, then call
/// decode until it asks for more. Returns the frames and the first error, if any.
fn decode_segmented(stream: &[u8], cuts: &[usize], mms: usize) -> (Vec<(&'static str, Vec<u8>)>, Option<String>, usize) {
    let mut codec = TcpCodec::new(DecodingOptions { max_message_size: mms, ..wide_decoding_options() });
    let mut buf = BytesMut::new();
    let mut frames = Vec::new();
    let mut start = 0usize;
    let mut bounds: Vec<usize> = cuts.to_vec();
    bounds.push(stream.len());
    for end in bounds {
        if end <= start {
            continue;
        }
        buf.extend_from_slice(&stream[start..end]);
        start = end;
        loop {
            match codec.decode(&mut buf) {
                Ok(Some(m)) => frames.push(canon(m)),
                Ok(None) => break,
                Err(e) => return (frames, Some(e.to_string()), buf.len()),
            }
        }
    }
    (frames, None, buf.len())
}

/// An AsyncRead that hands out the stream in the scripted segments
struct ScriptReader {
    data: Vec<u8>,
    bounds: Vec<usize>,
    pos: usize,
    next: usize,
}

impl tokio::io::AsyncRead for ScriptReader {
    fn poll_read(mut self: Pin<&mut Self>, _cx: &mut Context<'_>, buf: &mut tokio::io::ReadBuf<'_>) -> Poll<std::io::Result<()>> {
        if self.pos >= self.data.len() {
            return Poll::Ready(Ok(())); // EOF
        }
        while self.next < self.bounds.len() && self.bounds[self.next] <= self.pos {
            self.next += 1;
        }
        let end = if self.next < self.bounds.len() { self.bounds[self.next] } else { self.data.len() };
        let n = (end - self.pos).min(buf.remaining());
        let pos = self.pos;
        buf.put_slice(&self.data[pos..pos + n]);
        self.pos += n;
        Poll::Ready(Ok(()))
    }
}

/// The same through the real tokio_util FramedRead, which is what both server and client use
fn decode_framed_read(stream: &[u8], cuts: &[usize], mms: usize) -> (Vec<(&'static str, Vec<u8>)>, Option<String>) {
    use futures::StreamExt;
    let reader = ScriptReader { data: stream.to_vec(), bounds: cuts.to_vec(), pos: 0, next: 0 };
    let mut fr = tokio_util::codec::FramedRead::new(reader, TcpCodec::new(DecodingOptions { max_message_size: mms, ..wide_decoding_options() }));
    let mut frames = Vec::new();
    let mut err = None;
    futures::executor::block_on(async {
        while let Some(item) = fr.next().await {
            match item {
                Ok(m) => frames.push(canon(m)),
                Err(e) => {
                    err = Some(e.to_string());
                    break;
                }
            }
        }
    });
    (frames, err)
}

fn small_frame_shapes() -> Vec<(&'static str, Vec<u8>)> {
    vec![
        ("E0", frame_err(0x8001_0000, None)),
        ("E1", frame_err(0x807D_0000, Some("bad"))),
        ("AK", frame_ack([0, 65536, 65536, 327_675, 5])),
        ("HL", frame_hel("opc.tcp://h/", [0, 8196, 8196, 0, 0])),
        ("M0", frame_chunk("MSG", b'F', 1, &[])),
        ("MC", frame_chunk("MSG", b'C', 7, &[1, 2, 3, 4, 5, 6, 7, 8, 9, 10, 11, 12, 13])),
        ("OP", frame_chunk("OPN", b'F', 0, &[0xff; 18])),
        ("CL", frame_chunk("CLO", b'F', 2, &[3; 12])),
        ("MA", frame_chunk("MSG", b'A', 1, &[9, 9, 9, 9])),
    ]
}

struct C11Stats {
    segmentations: u64,
    frames: u64,
}

/// Compares one segmentation of a stream with the frames it was built from
fn c11_check_segmentation(
    truth: &[Vec<u8>],
    stream: &[u8],
    cuts: &[usize],
    mms: usize,
    via_framed_read: bool,
    stats: &mut C11Stats,
) -> Option<(String, String)> {
    let (frames, err, leftover) = if via_framed_read {
        let (f, e) = decode_framed_read(stream, cuts, mms);
        (f, e, 0)
    } else {
        decode_segmented(stream, cuts, mms)
    };
    stats.segmentations += 1;
    stats.frames += frames.len() as u64;
    let how = if via_framed_read { "FramedRead" } else { "decode" };
    if let Some(e) = err {
        return Some((
            format!("codec-segmentation|error-on-valid-stream|{}", how),
            format!("decoding failed with '{}' after {} of {} frames, cuts {:?}", normalize_msg(&e), frames.len(), truth.len(), &cuts[..cuts.len().min(12)]),
        ));
    }
    if frames.len() != truth.len() {
        return Some((
            format!("codec-segmentation|frame-count-differs|{}", how),
            format!("{} frames decoded, {} sent, {} bytes left in the buffer, cuts {:?}", frames.len(), truth.len(), leftover, &cuts[..cuts.len().min(12)]),
        ));
    }
    for (i, (f, t)) in frames.iter().zip(truth.iter()).enumerate() {
        if &f.1 != t {
            return Some((
                format!("codec-segmentation|frame-differs|{}", how),
                format!("frame #{} ({}) differs from the frame sent ({} vs {} bytes), cuts {:?}", i, f.0, f.1.len(), t.len(), &cuts[..cuts.len().min(12)]),
            ));
        }
    }
    None
}

/// All segmentations (bounded as described in the rule) of one small stream
fn c11_small_stream(names: &[&str], truth: &[Vec<u8>], all_cutsets_upto: usize, rep: &mut Report, stats: &mut C11Stats) {
    let stream: Vec<u8> = truth.concat();
    let n = stream.len();
    let case_base = json!({"part": "codec-small", "frames": names, "stream": hex(&stream)});
    rep.begin_case(&case_base);
    let mms = 65536;
    let mut first: Option<(String, String, Vec<usize>)> = None;
    let mut count: u64 = 0;
    let mut run = |cuts: &[usize], stats: &mut C11Stats, first: &mut Option<(String, String, Vec<usize>)>| {
        if let Some((sig, det)) = c11_check_segmentation(truth, &stream, cuts, mms, false, stats) {
            if first.is_none() {
                *first = Some((sig, det, cuts.to_vec()));
            }
        }
    };
    let mode;
    let r = catch(|| {
        if n <= all_cutsets_upto {
            // every subset of the n-1 cut positions
            for mask in 0u64..(1u64 << (n - 1)) {
                let cuts: Vec<usize> = (1..n).filter(|p| mask >> (p - 1) & 1 == 1).collect();
                run(&cuts, stats, &mut first);
                count += 1;
            }
        } else {
            run(&[], stats, &mut first);
            let every: Vec<usize> = (1..n).collect();
            run(&every, stats, &mut first);
            count += 2;
            for a in 1..n {
                run(&[a], stats, &mut first);
                count += 1;
                for b in a + 1..n {
                    run(&[a, b], stats, &mut first);
                    count += 1;
                }
            }
            // every second byte, every third byte: many tiny reads across every header
            for k in 2..=9usize {
                let cuts: Vec<usize> = (1..n).filter(|p| p % k == 0).collect();
                run(&cuts, stats, &mut first);
                count += 1;
            }
        }
    });
    mode = if n <= all_cutsets_upto { "all-cutsets" } else { "single+double+bytewise" };
    rep.case(&format!("codec-small {} {}", names.join(","), mode));
    rep.sample(json!({"part": "codec-small", "frames": names, "bytes": n, "segmentations": count, "mode": mode}));
    match r {
        Err(p) => rep.violation(p.signature(), format!("panic: {} at {}:{}", p.msg, p.file, p.line), case_base),
        Ok(()) => {
            if let Some((sig, det, cuts)) = first {
                let mut case = case_base;
                case["cuts"] = json!(cuts);
                rep.violation(sig, format!("frames {:?}: {}", names, det), case);
            }
        }
    }
}

fn c11_replay_codec(case: &Value, rep: &mut Report) {
    let stream = unhex(s(case, "stream"));
    let cuts: Vec<usize> = case["cuts"].as_array().map(|a| a.iter().filter_map(|x| x.as_u64().map(|x| x as usize)).collect()).unwrap_or_default();
    let mms = if case.get("mms").is_some() { u(case, "mms") as usize } else { 65536 };
    // the frames sent are recovered from the declared sizes in the stream itself
    let mut truth = Vec::new();
    let mut pos = 0;
    while pos + 8 <= stream.len() {
        let sz = u32::from_le_bytes([stream[pos + 4], stream[pos + 5], stream[pos + 6], stream[pos + 7]]) as usize;
        if sz < 8 || pos + sz > stream.len() {
            break;
        }
        truth.push(stream[pos..pos + sz].to_vec());
        pos += sz;
    }
    let mut stats = C11Stats { segmentations: 0, frames: 0 };
    for via in [false, true] {
        let r = catch(|| c11_check_segmentation(&truth, &stream, &cuts, mms, via, &mut stats));
        rep.case(&format!("replay codec via_framed_read={}", via));
        match r {
            Err(p) => rep.violation(p.signature(), format!("panic: {}", p.msg), case.clone()),
            Ok(Some((sig, det))) => rep.violation(sig, det, case.clone()),
            Ok(None) => {}
        }
    }
}

fn c11_random_frame(rng: &mut Rng, mms: usize) -> (String, Vec<u8>) {
    let size_class = rng.below(10);
    let payload_len = match size_class {
        0 => 0,
        1 => rng.usize(16),
        2 | 3 => rng.usize(300),
        4 | 5 => 8196 - 12 - rng.usize(3),
        6 => rng.usize(20_000),
        7 => 65535 - 12 + rng.usize(3),
        8 => mms - 12 - rng.usize(2), // at and just below the largest frame the codec may accept
        _ => rng.usize(mms - 12),
    }
    .min(mms - 12);
    match rng.below(8) {
        0 => {
            let url = format!("opc.tcp://{}/", "h".repeat(1 + rng.usize(60)));
            ("HEL".into(), frame_hel(&url, [0, rng.next_u32(), rng.next_u32(), rng.next_u32(), rng.next_u32()]))
        }
        1 => ("ACK".into(), frame_ack([0, rng.next_u32(), rng.next_u32(), rng.next_u32(), rng.next_u32()])),
        2 => {
            let reason = if rng.bool() { None } else { Some("r".repeat(1 + rng.usize(200))) };
            ("ERR".into(), frame_err(rng.next_u32(), reason.as_deref()))
        }
        k => {
            let kind = ["MSG", "OPN", "CLO"][rng.usize(3)];
            let fin = [b'F', b'C', b'A'][rng.usize(3)];
            let _ = k;
            let payload = rng.bytes(payload_len);
            (format!("{}{}{}", kind, fin as char, payload_len), frame_chunk(kind, fin, rng.next_u32(), &payload))
        }
    }
}

fn c11_random_cuts(rng: &mut Rng, truth: &[Vec<u8>], n: usize) -> (String, Vec<usize>) {
    let mut cuts: BTreeSet<usize> = BTreeSet::new();
    let kind = rng.below(6);
    let name;
    match kind {
        0 => {
            name = "random-few";
            for _ in 0..rng.usize(6) {
                cuts.insert(1 + rng.usize(n - 1));
            }
        }
        1 => {
            name = "random-many";
            for _ in 0..rng.usize(200) {
                cuts.insert(1 + rng.usize(n - 1));
            }
        }
        2 => {
            name = "fixed-block";
            let b = *rng.pick(&[1usize, 2, 3, 7, 8, 9, 11, 12, 13, 512, 1460, 4096, 8192, 8196, 65536]);
            // byte-at-a-time only over short streams
            let b = if b < 7 && n > 40_000 { 1460 } else { b };
            let mut p = b;
            while p < n {
                cuts.insert(p);
                p += b;
            }
        }
        3 | 4 => {
            name = "around-headers";
            // cuts inside and right after every frame header, and just before every frame end
            let mut off = 0usize;
            for f in truth {
                for d in [1usize, 3, 4, 7, 8, 9, 11, 12, 13] {
                    if rng.chance(2, 3) && d < f.len() {
                        cuts.insert(off + d);
                    }
                }
                for d in [1usize, 2] {
                    if f.len() > d && rng.bool() {
                        cuts.insert(off + f.len() - d);
                    }
                }
                if rng.bool() {
                    cuts.insert(off + f.len());
                }
                off += f.len();
            }
        }
        _ => {
            name = "frame-boundaries-shifted";
            let shift = rng.usize(12) as i64 - 6;
            let mut off = 0i64;
            for f in truth {
                off += f.len() as i64;
                let p = off + shift;
                if p > 0 && (p as usize) < n {
                    cuts.insert(p as usize);
                }
            }
        }
    }
    cuts.remove(&0);
    cuts.remove(&n);
    (name.to_string(), cuts.into_iter().filter(|c| *c < n).collect())
}

// ---- the client send buffer under partial writes -------------------------------------------

#[derive(Clone, Debug)]
enum WriteStep {
    Accept(usize),
    AcceptAll,
    Pending,
}

/// An AsyncWrite that takes a scripted number of bytes per call (then everything)
struct ScriptSink {
    data: Vec<u8>,
    script: Vec<WriteStep>,
    next: usize,
    calls: u64,
    zero_writes: u64,
    pendings: u64,
}

impl ScriptSink {
    fn new(script: Vec<WriteStep>) -> ScriptSink {
        ScriptSink { data: Vec::new(), script, next: 0, calls: 0, zero_writes: 0, pendings: 0 }
    }
}

impl tokio::io::AsyncWrite for ScriptSink {
    fn poll_write(mut self: Pin<&mut Self>, _cx: &mut Context<'_>, buf: &[u8]) -> Poll<std::io::Result<usize>> {
        self.calls += 1;
        let step = if self.next < self.script.len() { self.script[self.next].clone() } else { WriteStep::AcceptAll };
        self.next += 1;
        match step {
            WriteStep::Pending => {
                self.pendings += 1;
                Poll::Pending
            }
            WriteStep::AcceptAll => {
                self.data.extend_from_slice(buf);
                Poll::Ready(Ok(buf.len()))
            }
            WriteStep::Accept(n) => {
                let n = n.min(buf.len());
                if n == 0 {
                    self.zero_writes += 1;
                }
                self.data.extend_from_slice(&buf[..n]);
                Poll::Ready(Ok(n))
            }
        }
    }
    fn poll_flush(self: Pin<&mut Self>, _cx: &mut Context<'_>) -> Poll<std::io::Result<()>> {
        Poll::Ready(Ok(()))
    }
    fn poll_shutdown(self: Pin<&mut Self>, _cx: &mut Context<'_>) -> Poll<std::io::Result<()>> {
        Poll::Ready(Ok(()))
    }
}

fn write_script(kind: &str, param: usize, total_hint: usize, rng: &mut Rng) -> Vec<WriteStep> {
    let mut sc = Vec::new();
    match kind {
        "all" => {}
        "fixed" => {
            for _ in 0..(total_hint / param.max(1) + 8) {
                sc.push(WriteStep::Accept(param.max(1)));
            }
        }
        "zero-then-n" => {
            for _ in 0..(total_hint / param.max(1) + 8) {
                sc.push(WriteStep::Accept(0));
                sc.push(WriteStep::Accept(param.max(1)));
            }
        }
        "split-at" => {
            sc.push(WriteStep::Accept(param));
        }
        "split-at-then-one" => {
            sc.push(WriteStep::Accept(param));
            sc.push(WriteStep::Accept(1));
        }
        "pending-then-split" => {
            sc.push(WriteStep::Pending);
            sc.push(WriteStep::Accept(param));
            sc.push(WriteStep::Pending);
        }
        _ => {
            // "random": a mix of tiny, zero, block sized and full writes with cancelled (pending) polls
            let mut left = total_hint as i64 + 64;
            while left > 0 {
                let st = match rng.below(12) {
                    0 => WriteStep::Accept(0),
                    1 | 2 => WriteStep::Pending,
                    3 | 4 => WriteStep::Accept(1),
                    5 => WriteStep::Accept(1 + rng.usize(16)),
                    6 => WriteStep::Accept(1 + rng.usize(2000)),
                    7 => WriteStep::Accept(*rng.pick(&[4095usize, 4096, 4097, 8195, 8196, 8197, 1460])),
                    8 => WriteStep::AcceptAll,
                    _ => WriteStep::Accept(1 + rng.usize(param.max(2))),
                };
                if let WriteStep::Accept(n) = &st {
                    left -= *n as i64;
                } else if let WriteStep::AcceptAll = &st {
                    left -= 4096;
                }
                sc.push(st);
            }
        }
    }
    sc
}

struct SendRun {
    /// bytes the sink received
    sink: Vec<u8>,
    /// result of every SendBuffer::write, in order
    writes: Vec<Result<u32, StatusCode>>,
    calls: u64,
    zero_writes: u64,
    pendings: u64,
    error: Option<String>,
}

/// Drives a SendBuffer exactly like the client's transport poll loop does: encode the next chunk
/// when nothing is readable, write to the socket while something is, otherwise take the next
/// outgoing message. A poll that returns Pending is dropped (the select! in the real loop cancels it).
/// With `stop_at_refusal` the history ends at the first refused write, as the client's poll loop does
/// (it closes the transport); without it the remaining messages are still written to the same buffer,
/// which is what any other user of `SendBuffer` that survives a refused request does.
fn drive_send_buffer(
    sb: &mut SendBuffer,
    sc: &SecureChannel,
    msgs: Vec<(u32, SupportedMessage)>,
    script: Vec<WriteStep>,
    stop_at_refusal: bool,
) -> SendRun {
    let mut sink = ScriptSink::new(script);
    let mut queue: std::collections::VecDeque<(u32, SupportedMessage)> = msgs.into();
    let mut writes = Vec::new();
    let mut error = None;
    let mut guard: u64 = 0;
    loop {
        guard += 1;
        if guard > 50_000_000 {
            error = Some("no progress after 5e7 loop turns".to_string());
            break;
        }
        if sb.should_encode_chunks() {
            if let Err(e) = sb.encode_next_chunk(sc) {
                error = Some(format!("encode_next_chunk: {}", e));
                break;
            }
        }
        if sb.can_read() {
            let fut = sb.read_into_async(&mut sink);
            let mut fut = Box::pin(fut);
            match noop_cx_poll(fut.as_mut()) {
                Poll::Ready(Ok(())) => {}
                Poll::Ready(Err(e)) => {
                    error = Some(format!("read_into_async: {}", e));
                    break;
                }
                Poll::Pending => {} // cancelled
            }
        } else if let Some((req, msg)) = queue.pop_front() {
            let r = sb.write(req, msg, sc);
            let refused = r.is_err();
            writes.push(r);
            if refused && stop_at_refusal {
                // the client's poll loop closes the transport when a write is refused
                queue.clear();
            }
        } else {
            break;
        }
    }
    SendRun { sink: sink.data, writes, calls: sink.calls, zero_writes: sink.zero_writes, pendings: sink.pendings, error }
}

/// What the wire must carry for the given messages: the real Chunker's chunks, each passed through
/// the channel's apply_security, concatenated. Messages the buffer must refuse yield nothing.
fn expected_wire(
    sc: &SecureChannel,
    msgs: &[(u32, SupportedMessage)],
    send_buffer_size: usize,
    max_message_size: usize,
    max_chunk_count: usize,
) -> (Vec<u8>, Vec<bool>, Vec<usize>) {
    let mut wire = Vec::new();
    let mut accepted = Vec::new();
    let mut chunk_counts = Vec::new();
    let mut seq = 1u32;
    for (req, msg) in msgs {
        match Chunker::encode(seq, *req, max_message_size, send_buffer_size, sc, msg) {
            Ok(chunks) if max_chunk_count == 0 || chunks.len() <= max_chunk_count => {
                seq += chunks.len() as u32;
                chunk_counts.push(chunks.len());
                for c in &chunks {
                    let mut dst = vec![0u8; c.data.len() + 4096];
                    let n = sc.apply_security(c, &mut dst).expect("apply_security");
                    wire.extend_from_slice(&dst[..n]);
                }
                accepted.push(true);
            }
            _ => {
                accepted.push(false);
                chunk_counts.push(0);
                break; // nothing is sent after a refused message (the transport closes)
            }
        }
    }
    (wire, accepted, chunk_counts)
}

fn c11_sendbuf_case(case: &Value, env: &Env, rep: &mut Report) {
    let security = s(case, "security").to_string();
    let sbs = u(case, "send_buffer_size") as usize;
    let mms = u(case, "max_message_size") as usize;
    let mcc = u(case, "max_chunk_count") as usize;
    let sizes: Vec<usize> = case["msgs"].as_array().map(|a| a.iter().filter_map(|x| x.as_u64().map(|x| x as usize)).collect()).unwrap_or_default();
    let script_kind = s(case, "script").to_string();
    let param = u(case, "param") as usize;
    let mut rng = Rng::new(u(case, "cseed"));
    rep.begin_case(case);
    let r = catch(|| {
        let mut sc = env.channel(Role::Client, wide_decoding_options());
        let mut rx = env.channel(Role::Server, wide_decoding_options());
        if security == "sign" {
            pair_sign(&mut sc, &mut rx, 5, 2, &mut rng);
        } else {
            sc.set_secure_channel_id(5);
            rx.set_secure_channel_id(5);
        }
        let msgs: Vec<(u32, SupportedMessage)> = sizes
            .iter()
            .enumerate()
            .map(|(i, sz)| (1001 + i as u32, read_request(500 + i as u32, 1 + sz / 4000, (*sz).min(3900 * (1 + sz / 4000)) / (1 + sz / 4000))))
            .collect();
        let (wire, accepted, chunk_counts) = expected_wire(&sc, &msgs, sbs, mms, mcc);
        let script = write_script(&script_kind, param, wire.len(), &mut rng);
        let mut sb = SendBuffer::new(sbs, mms, mcc);
        let run = drive_send_buffer(&mut sb, &sc, msgs.clone(), script, true);
        // decode back what the sink got, with the receiving end of the channel
        let mut decoded: Vec<Vec<u8>> = Vec::new();
        let mut decode_err = None;
        let mut verified_chunks = 0u64;
        let mut skipped_reassembly = 0usize;
        {
            let mut codec = TcpCodec::new(wide_decoding_options());
            let mut buf = BytesMut::from(&run.sink[..]);
            let mut pending: Vec<MessageChunk> = Vec::new();
            loop {
                match codec.decode(&mut buf) {
                    Ok(Some(Message::Chunk(c))) => match rx.verify_and_remove_security(&c.data) {
                        Ok(plain) => {
                            let fin = plain.message_header(&wide_decoding_options()).map(|h| h.is_final).unwrap_or(MessageIsFinalType::Final);
                            pending.push(plain);
                            verified_chunks += 1;
                            // Reassembly of secured multi-chunk messages is the business of C07 (the
                            // receive path keeps the padding inside the bodies); here secured chunks
                            // are only verified one by one and single-chunk messages decoded.
                            if fin == MessageIsFinalType::Final && security != "none" && pending.len() > 1 {
                                pending.clear();
                                skipped_reassembly += 1;
                                continue;
                            }
                            if fin == MessageIsFinalType::Final {
                                match Chunker::decode(&pending, &rx, None) {
                                    Ok(m) => decoded.push(m.encode_to_vec()),
                                    Err(e) => {
                                        decode_err = Some(format!("message {} does not decode: {}", decoded.len(), e));
                                        break;
                                    }
                                }
                                pending.clear();
                            }
                        }
                        Err(e) => {
                            decode_err = Some(format!("chunk rejected by the receiving channel: {}", e));
                            break;
                        }
                    },
                    Ok(Some(_)) => {
                        decode_err = Some("non-chunk frame in the send buffer output".into());
                        break;
                    }
                    Ok(None) => {
                        if !buf.is_empty() {
                            decode_err = Some(format!("{} trailing bytes do not form a frame", buf.len()));
                        }
                        break;
                    }
                    Err(e) => {
                        decode_err = Some(format!("framing error: {}", e));
                        break;
                    }
                }
            }
        }
        let want: Vec<Vec<u8>> = msgs
            .iter()
            .zip(accepted.iter())
            .zip(chunk_counts.iter())
            .filter(|((_, a), cc)| **a && (security == "none" || **cc == 1))
            .map(|(((_, m), _), _)| m.encode_to_vec())
            .collect();
        let _ = skipped_reassembly;
        (run, wire, accepted, chunk_counts, decoded, want, decode_err, verified_chunks)
    });
    let total_chunks: usize;
    match &r {
        Ok((_, _, _, cc, _, _, _, _)) => total_chunks = cc.iter().sum(),
        Err(_) => total_chunks = 0,
    }
    rep.case(&format!(
        "sendbuf {} sbs={} msgs={} chunks={} script={} refuse={}",
        security,
        sbs,
        sizes.len().min(4),
        match total_chunks { 0 => "0", 1 => "1", 2..=3 => "2-3", _ => "4+" },
        script_kind,
        (mms > 0 || mcc > 0) as u8
    ));
    rep.sample(case.clone());
    match r {
        Err(p) => rep.violation(p.signature(), format!("panic: {} at {}:{}", p.msg, p.file, p.line), case.clone()),
        Ok((run, wire, accepted, _cc, decoded, want, decode_err, verified_chunks)) => {
            rep.count("sendbuf_chunks_verified_by_receiving_channel", verified_chunks);
            rep.count("sendbuf_bytes_expected", wire.len() as u64);
            rep.count("sendbuf_sink_write_calls", run.calls);
            rep.count("sendbuf_zero_length_writes", run.zero_writes);
            rep.count("sendbuf_cancelled_polls", run.pendings);
            rep.count("sendbuf_chunks_expected", total_chunks as u64);
            if let Some(e) = run.error {
                rep.violation(format!("sendbuffer|driver-error|{}", normalize_msg(&e)), e, case.clone());
                return;
            }
            for (i, (w, a)) in run.writes.iter().zip(accepted.iter()).enumerate() {
                if w.is_ok() != *a {
                    rep.violation(
                        "sendbuffer|write-result-differs-from-chunker",
                        format!("message {} : SendBuffer::write gave {:?}, the chunker with the same limits {}", i, w.as_ref().map_err(|e| status_name(*e)), if *a { "accepts it" } else { "refuses it" }),
                        case.clone(),
                    );
                    return;
                }
            }
            if run.sink != wire {
                let common = run.sink.iter().zip(wire.iter()).take_while(|(a, b)| a == b).count();
                let kind = if run.sink.len() < wire.len() && common == run.sink.len() {
                    "lost-tail"
                } else if run.sink.len() > wire.len() && common == wire.len() {
                    "extra-tail"
                } else if run.sink.len() < wire.len() {
                    "lost-bytes"
                } else if run.sink.len() > wire.len() {
                    "repeated-or-extra-bytes"
                } else {
                    "corrupted-bytes"
                };
                rep.violation(
                    format!("sendbuffer|{}", kind),
                    format!("sink received {} bytes, the secured chunks are {} bytes, first difference at offset {} (script {} {})", run.sink.len(), wire.len(), common, script_kind, param),
                    case.clone(),
                );
                return;
            }
            if let Some(e) = decode_err {
                rep.violation("sendbuffer|output-does-not-decode", e, case.clone());
            } else if decoded != want {
                rep.violation("sendbuffer|decoded-messages-differ", format!("{} messages decoded, {} written", decoded.len(), want.len()), case.clone());
            } else {
                rep.count("sendbuf_messages_decoded_back", decoded.len() as u64);
            }
        }
    }
}

fn c11_sendbuf_cases(args: &Args, rng: &mut Rng) -> Vec<Value> {
    let mut cases = Vec::new();
    let mk = |security: &str, sbs: usize, mms: usize, mcc: usize, msgs: &[usize], script: &str, param: usize, rng: &mut Rng| {
        json!({"part": "sendbuf", "security": security, "send_buffer_size": sbs, "max_message_size": mms, "max_chunk_count": mcc,
               "msgs": msgs, "script": script, "param": param, "cseed": rng.next_u64() >> 12})
    };
    // exhaustive single split points over a one-chunk and a two-chunk message
    for security in ["none", "sign"] {
        let one = 60usize;
        for p in 0..=(one + 120) {
            cases.push(mk(security, 8196, 0, 0, &[one], "split-at", p, rng));
        }
        for p in (0..=(one + 120)).step_by(3) {
            cases.push(mk(security, 8196, 0, 0, &[one, one], "split-at-then-one", p, rng));
            cases.push(mk(security, 8196, 0, 0, &[one], "pending-then-split", p, rng));
        }
        // around the chunk boundary of a multi chunk message
        for p in [0usize, 1, 8195, 8196, 8197, 16391, 16392, 16393] {
            cases.push(mk(security, 8196, 0, 0, &[20_000], "split-at", p, rng));
            cases.push(mk(security, 8196, 0, 0, &[20_000, 100], "split-at-then-one", p, rng));
        }
        for k in [1usize, 2, 3, 7, 100, 4095, 4096, 4097, 8195, 8196, 8197, 100_000] {
            cases.push(mk(security, 8196, 0, 0, &[100, 9000, 0, 30_000], "fixed", k, rng));
            cases.push(mk(security, 8196, 0, 0, &[17_000, 50], "zero-then-n", k, rng));
        }
        cases.push(mk(security, 8196, 0, 0, &[100, 9000, 0, 30_000], "all", 0, rng));
        cases.push(mk(security, 65536, 0, 0, &[100_000, 10, 70_000], "all", 0, rng));
        // a refused message must leave no trace on the wire (and ends the history: the transport closes)
        cases.push(mk(security, 8196, 20_000, 0, &[100, 30_000, 200], "fixed", 1000, rng));
        cases.push(mk(security, 8196, 0, 2, &[100, 30_000, 200, 9000], "fixed", 5000, rng));
    }
    let extra = if args.thorough() { 6000 } else { 400 };
    for _ in 0..extra {
        let security = if rng.bool() { "none" } else { "sign" };
        let sbs = *rng.pick(&[8196usize, 8196, 9000, 16384, 65536]);
        let nm = 1 + rng.usize(6);
        let msgs: Vec<usize> = (0..nm)
            .map(|_| match rng.below(5) {
                0 => rng.usize(200),
                1 => sbs - 200 + rng.usize(400),
                2 => 2 * sbs - 300 + rng.usize(600),
                3 => rng.usize(5 * sbs),
                _ => rng.usize(2000),
            })
            .collect();
        let (mms, mcc) = match rng.below(4) {
            0 => (sbs * 2, 0),
            1 => (0, 1 + rng.usize(3)),
            _ => (0, 0),
        };
        let script = *rng.pick(&["random", "random", "random", "fixed", "zero-then-n", "all"]);
        let param = match rng.below(4) {
            0 => 1 + rng.usize(8),
            1 => 1 + rng.usize(sbs),
            2 => sbs - 2 + rng.usize(5),
            _ => 1 + rng.usize(100_000),
        };
        // byte-at-a-time over large payloads is slow and adds nothing over the grid above
        let param = if (script == "fixed" || script == "zero-then-n") && param < 16 && msgs.iter().sum::<usize>() > 60_000 { param + 64 } else { param };
        cases.push(mk(security, sbs, mms, mcc, &msgs, script, param, rng));
    }
    cases
}

pub fn c11(args: &Args, rep: &mut Report) {
    let env = Env::new("c11");
    if let Some(path) = &args.replay {
        let Some(case) = read_replay(path) else {
            rep.inconclusive("cannot read replay file");
            return;
        };
        if s(&case, "part") == "sendbuf" {
            c11_sendbuf_case(&case, &env, rep);
        } else {
            c11_replay_codec(&case, rep);
        }
        return;
    }
    let mut stats = C11Stats { segmentations: 0, frames: 0 };
    // (1) small streams, every segmentation within the bounds; streams are dealt round-robin to shards
    let shapes = small_frame_shapes();
    let maxlen = if args.thorough() { 4 } else { 3 };
    let all_cutsets_upto = if args.thorough() { 21 } else { 17 };
    let mut idx = 0usize;
    let mut streams: u64 = 0;
    for len in 1..=maxlen {
        let total = shapes.len().pow(len as u32);
        for code in 0..total {
            idx += 1;
            if idx % args.shards != args.shard {
                continue;
            }
            let mut c = code;
            let mut names = Vec::new();
            let mut truth = Vec::new();
            for _ in 0..len {
                let (n, f) = &shapes[c % shapes.len()];
                names.push(*n);
                truth.push(f.clone());
                c /= shapes.len();
            }
            c11_small_stream(&names, &truth, all_cutsets_upto, rep, &mut stats);
            streams += 1;
        }
    }
    rep.count("codec_small_streams", streams);
    // (2) large random streams through the real FramedRead and through plain decode calls
    let mut rng = Rng::new(args.seed ^ 0xC11 ^ ((args.shard as u64) << 32));
    let n_streams = args.budget(400, 8000);
    let per_stream = if args.thorough() { 30 } else { 25 };
    for _ in 0..n_streams {
        let mms = *rng.pick(&[65536usize, 65536, 100_000, 327_675]);
        let nf = 1 + rng.usize(6);
        let mut names = Vec::new();
        let mut truth = Vec::new();
        for _ in 0..nf {
            let (n, f) = c11_random_frame(&mut rng, mms);
            names.push(n);
            truth.push(f);
        }
        let stream: Vec<u8> = truth.concat();
        let n = stream.len();
        let case_base = json!({"part": "codec-large", "frames": names, "mms": mms, "bytes": n});
        rep.begin_case(&case_base);
        let mut first: Option<(String, String, Vec<usize>)> = None;
        let mut kinds: BTreeSet<String> = BTreeSet::new();
        let r = catch(|| {
            for k in 0..per_stream {
                let (kind, cuts) = c11_random_cuts(&mut rng, &truth, n);
                kinds.insert(kind);
                let via = k % 2 == 0;
                if let Some((sig, det)) = c11_check_segmentation(&truth, &stream, &cuts, mms, via, &mut stats) {
                    if first.is_none() {
                        first = Some((sig, det, cuts));
                    }
                }
            }
        });
        let big = truth.iter().map(|f| f.len()).max().unwrap_or(0);
        rep.case(&format!(
            "codec-large frames={} biggest={} kinds={}",
            nf,
            if big + 2 >= mms { "at-max" } else if big > 60_000 { ">60k" } else if big > 8000 { ">8k" } else { "small" },
            kinds.len()
        ));
        rep.sample(case_base.clone());
        match r {
            Err(p) => rep.violation(p.signature(), format!("panic: {} at {}:{}", p.msg, p.file, p.line), case_base),
            Ok(()) => {
                if let Some((sig, det, cuts)) = first {
                    // a replayable witness needs the bytes; keep it only when reasonably small
                    let mut case = case_base;
                    if n <= 200_000 {
                        case["stream"] = json!(hex(&stream));
                    }
                    case["cuts"] = json!(cuts);
                    rep.violation(sig, det, case);
                }
            }
        }
    }
    rep.count("codec_segmentations_checked", stats.segmentations);
    rep.count("codec_frames_decoded", stats.frames);
    // (3) the client send buffer under scripted partial writes
    let mut rng = Rng::new(args.seed ^ 0xC11B);
    let cases = c11_sendbuf_cases(args, &mut rng);
    for (i, case) in cases.iter().enumerate() {
        if i % args.shards != args.shard {
            continue;
        }
        c11_sendbuf_case(case, &env, rep);
    }
}

// ---------------------------------------------------------------------------------------------
// C12 sequence numbers and replay
// ---------------------------------------------------------------------------------------------

#[derive(Clone, Debug)]
struct ChunkSpec {
    seq: u32,
    req: u32,
    channel: u32,
    fin: u8,
    body: Vec<u8>,
}

impl ChunkSpec {
    fn json(&self) -> Value {
        json!({"seq": self.seq, "req": self.req, "ch": self.channel, "fin": (self.fin as char).to_string(), "len": self.body.len()})
    }
}

/// Parses the chunks found in `wire` (frames of the real codec; secured chunks are opened with the
/// receiving channel) into (sequence number, request id, final flag, chunk type)
fn parse_emitted(wire: &[u8], rx: &mut SecureChannel) -> Result<Vec<(u32, u32, MessageIsFinalType, MessageChunkType)>, String> {
    let mut codec = TcpCodec::new(wide_decoding_options());
    let mut buf = BytesMut::from(wire);
    let mut out = Vec::new();
    loop {
        match codec.decode(&mut buf) {
            Ok(Some(Message::Chunk(c))) => {
                let plain = rx.verify_and_remove_security(&c.data).map_err(|e| format!("emitted chunk {} rejected by the receiving channel: {}", out.len(), e))?;
                let info = plain.chunk_info(rx).map_err(|e| format!("chunk info: {}", e))?;
                out.push((info.sequence_header.sequence_number, info.sequence_header.request_id, info.message_header.is_final, info.message_header.message_type));
            }
            Ok(Some(Message::Acknowledge(_))) => {}
            Ok(Some(m)) => return Err(format!("unexpected {} frame in the output", frame_tag(&m))),
            Ok(None) => {
                if !buf.is_empty() {
                    return Err(format!("{} trailing bytes", buf.len()));
                }
                return Ok(out);
            }
            Err(e) => return Err(format!("framing error in the output: {}", e)),
        }
    }
}

/// Checks the emitted chunks of one sender history. `accepted_ids` are the request ids of the
/// messages the sender accepted, in order.
/// For a numbering flaw the third member is the index (in `emitted`) of the chunk whose number does
/// not follow its predecessor's.
fn c12_sender_oracle_at(
    who: &str,
    emitted: &[(u32, u32, MessageIsFinalType, MessageChunkType)],
    accepted_ids: &[u32],
) -> Option<(String, String, Option<usize>)> {
    for (i, w) in emitted.windows(2).enumerate() {
        let (a, b) = (w[0].0, w[1].0);
        if b != a.wrapping_add(1) || b == 0 {
            let kind = if b == a { "sequence-number-repeated" } else if b < a { "sequence-number-decreased" } else { "sequence-number-gap" };
            return Some((format!("{}|{}", who, kind), format!("chunk sequence numbers {} then {}", a, b), Some(i + 1)));
        }
    }
    c12_sender_oracle_rest(who, emitted, accepted_ids).map(|(s, d)| (s, d, None))
}

fn c12_sender_oracle_rest(who: &str, emitted: &[(u32, u32, MessageIsFinalType, MessageChunkType)], accepted_ids: &[u32]) -> Option<(String, String)> {
    // group into messages
    let mut groups: Vec<Vec<&(u32, u32, MessageIsFinalType, MessageChunkType)>> = vec![vec![]];
    for e in emitted {
        groups.last_mut().unwrap().push(e);
        if e.2 != MessageIsFinalType::Intermediate {
            groups.push(vec![]);
        }
    }
    if groups.last().map(|g| g.is_empty()).unwrap_or(false) {
        groups.pop();
    } else if !emitted.is_empty() {
        return Some((format!("{}|last-message-without-final-chunk", who), "the last emitted chunk is not final".into()));
    }
    if groups.len() != accepted_ids.len() {
        return Some((format!("{}|message-count-differs", who), format!("{} messages on the wire, {} accepted by the sender", groups.len(), accepted_ids.len())));
    }
    for (g, id) in groups.iter().zip(accepted_ids.iter()) {
        if g.iter().any(|c| c.1 != *id) {
            return Some((
                format!("{}|request-id-differs-within-message", who),
                format!("message written with request id {} carries request ids {:?}", id, g.iter().map(|c| c.1).collect::<Vec<_>>()),
            ));
        }
    }
    None
}

/// Where the refused writes of a sender history lie: "0" none, "last" only at the end of the history,
/// "then-accepted" at least one refused write is followed by an accepted one
fn refusal_shape(results: &[bool]) -> &'static str {
    match results.iter().position(|ok| !ok) {
        None => "0",
        Some(p) if results[p..].iter().any(|ok| *ok) => "then-accepted",
        Some(_) => "last",
    }
}

/// A numbering flaw at the first chunk of a message whose write directly followed refused writes is
/// named as such, with the status of those refusals (the history shape is part of the signature).
/// `results[i]` is None for an accepted write and the status name of a refused one.
fn qualify_after_refusal(
    sig: String,
    at: Option<usize>,
    emitted: &[(u32, u32, MessageIsFinalType, MessageChunkType)],
    results: &[Option<String>],
) -> String {
    let Some(at) = at else { return sig };
    // a flaw inside a message has nothing to do with what was written before the message
    if at == 0 || emitted[at - 1].2 == MessageIsFinalType::Intermediate {
        return sig;
    }
    // ordinal (among the accepted writes) of the message that chunk `at` starts
    let ordinal = emitted[..at].iter().filter(|e| e.2 != MessageIsFinalType::Intermediate).count();
    let Some(pos) = results.iter().enumerate().filter(|(_, r)| r.is_none()).map(|(i, _)| i).nth(ordinal) else { return sig };
    let mut statuses: BTreeSet<String> = BTreeSet::new();
    let mut i = pos;
    while i > 0 && results[i - 1].is_some() {
        statuses.insert(results[i - 1].clone().unwrap_or_default());
        i -= 1;
    }
    if statuses.is_empty() {
        sig
    } else {
        format!("{}|after-refused-write={}", sig, statuses.into_iter().collect::<Vec<_>>().join("+"))
    }
}

fn c12_send_client_case(case: &Value, env: &Env, rt: &tokio::runtime::Runtime, rep: &mut Report) {
    let security = s(case, "security").to_string();
    let sbs = u(case, "send_buffer_size") as usize;
    let mms = u(case, "max_message_size") as usize;
    let mcc = u(case, "max_chunk_count") as usize;
    let sizes: Vec<usize> = case["msgs"].as_array().map(|a| a.iter().filter_map(|x| x.as_u64().map(|x| x as usize)).collect()).unwrap_or_default();
    let script_kind = s(case, "script").to_string();
    // "continue": the history goes on after a refused write (same buffer, same channel)
    let go_on = s(case, "after_refusal") == "continue";
    let mut rng = Rng::new(u(case, "cseed"));
    rep.begin_case(case);
    let r = catch(|| {
        let mut sc = env.channel(Role::Client, wide_decoding_options());
        let mut rx = env.channel(Role::Server, wide_decoding_options());
        if security == "sign" {
            pair_sign(&mut sc, &mut rx, 5, 2, &mut rng);
        } else {
            sc.set_secure_channel_id(5);
            rx.set_secure_channel_id(5);
        }
        let sc = Arc::new(RwLock::new(sc));
        let mut sb = SendBuffer::new(sbs, mms, mcc);
        // request ids are allocated by the real TransportState, as for a session's requests
        let mut state = VerifTransportState::new(sc.clone(), 0, usize::MAX, sizes.len() + 1);
        let deadline = std::time::Instant::now() + std::time::Duration::from_secs(3600);
        let mut msgs = Vec::new();
        for (i, sz) in sizes.iter().enumerate() {
            let nodes = 1 + sz / 3000;
            let m = read_request(700 + i as u32, nodes, sz / nodes);
            if state.submit(m, deadline, false).is_err() {
                return Err("submit refused".to_string());
            }
            match rt.block_on(state.wait_for_outgoing_message(&mut sb)) {
                Some((m, id)) => msgs.push((id, m)),
                None => return Err("no outgoing message".to_string()),
            }
        }
        let ids: Vec<u32> = msgs.iter().map(|m| m.0).collect();
        let total: usize = sizes.iter().sum();
        let script = write_script(&script_kind, 1 + rng.usize(9000), total + 1000, &mut rng);
        let run = {
            let g = sc.read();
            drive_send_buffer(&mut sb, &g, msgs, script, !go_on)
        };
        if let Some(e) = run.error {
            return Err(format!("driver: {}", e));
        }
        let emitted = parse_emitted(&run.sink, &mut rx)?;
        let accepted_ids: Vec<u32> = run.writes.iter().zip(ids.iter()).filter(|(w, _)| w.is_ok()).map(|(_, id)| *id).collect();
        let results: Vec<Option<String>> = run.writes.iter().map(|w| w.as_ref().err().map(|e| status_name(*e))).collect();
        Ok((emitted, ids, accepted_ids, results))
    });
    rep.sample(case.clone());
    match r {
        Err(p) => {
            rep.case(&format!("send-client panic {}", security));
            rep.violation(p.signature(), format!("panic: {} at {}:{}", p.msg, p.file, p.line), case.clone())
        }
        Ok(Err(e)) => {
            rep.case(&format!("send-client error {}", security));
            rep.violation(format!("sender-client|{}", normalize_msg(&e)), e, case.clone())
        }
        Ok(Ok((emitted, ids, accepted_ids, results))) => {
            let groups = emitted.iter().filter(|e| e.2 != MessageIsFinalType::Intermediate).count();
            let maxc = emitted.len().checked_div(groups.max(1)).unwrap_or(0);
            let accepted: Vec<bool> = results.iter().map(|r| r.is_none()).collect();
            let shape = refusal_shape(&accepted);
            rep.case(&format!(
                "send-client {} sbs={} msgs={} chunks/msg~{} refused={} script={}",
                security, sbs, ids.len().min(6), maxc.min(6), shape, script_kind
            ));
            if shape == "then-accepted" {
                rep.count("sender_client_histories_continued_after_a_refused_write", 1);
            }
            rep.count("sender_client_chunks_emitted", emitted.len() as u64);
            rep.count("sender_client_messages_emitted", groups as u64);
            rep.count("sender_client_request_ids_allocated", ids.len() as u64);
            let uniq: BTreeSet<u32> = ids.iter().cloned().collect();
            if uniq.len() != ids.len() {
                rep.violation("sender-client|request-id-reused", format!("request ids handed out: {:?}", ids), case.clone());
            }
            if let Some((sig, det, at)) = c12_sender_oracle_at("sender-client", &emitted, &accepted_ids) {
                let res: Vec<&str> = results.iter().map(|r| r.as_deref().unwrap_or("ok")).collect();
                rep.violation(qualify_after_refusal(sig, at, &emitted, &results), format!("{}; results of the writes: {:?}", det, res), case.clone());
            }
        }
    }
}

fn read_response(handle: u32, values: usize, strlen: usize) -> SupportedMessage {
    ReadResponse {
        response_header: ResponseHeader {
            timestamp: DateTime::null(),
            request_handle: handle,
            service_result: StatusCode::Good,
            service_diagnostics: DiagnosticInfo::default(),
            string_table: None,
            additional_header: ExtensionObject::null(),
        },
        results: Some((0..values).map(|i| DataValue::value_only(Variant::from("v".repeat(strlen) + &i.to_string()))).collect()),
        diagnostic_infos: None,
    }
    .into()
}

fn c12_send_server_case(case: &Value, env: &Env, rep: &mut Report) {
    let security = s(case, "security").to_string();
    let bufsize = u(case, "buffer_size") as usize;
    let mms = u(case, "max_message_size") as usize;
    let sizes: Vec<usize> = case["msgs"].as_array().map(|a| a.iter().filter_map(|x| x.as_u64().map(|x| x as usize)).collect()).unwrap_or_default();
    let flush_every = (u(case, "flush_every") as usize).max(1);
    let mcc = u(case, "max_chunk_count") as usize;
    let go_on = s(case, "after_refusal") == "continue";
    let mut rng = Rng::new(u(case, "cseed"));
    rep.begin_case(case);
    let r = catch(|| {
        let mut sc = env.channel(Role::Server, wide_decoding_options());
        let mut rx = env.channel(Role::Client, wide_decoding_options());
        if security == "sign" {
            pair_sign(&mut sc, &mut rx, 9, 4, &mut rng);
        } else {
            sc.set_secure_channel_id(9);
            rx.set_secure_channel_id(9);
        }
        // as the server's writing loop: MessageWriter::new(send_buffer_size, 0, 0) unless the case sets a limit
        let mut w = MessageWriter::new(bufsize, mms, mcc);
        let mut wire = Vec::new();
        let ack = AcknowledgeMessage {
            message_header: MessageHeader { message_type: MessageType::Acknowledge, message_size: 28 },
            protocol_version: 0,
            receive_buffer_size: 65536,
            send_buffer_size: 65536,
            max_message_size: 0,
            max_chunk_count: 0,
        };
        let _ = w.write_ack(&ack);
        wire.extend_from_slice(&w.bytes_to_write());
        let mut accepted_ids = Vec::new();
        let mut results = Vec::new();
        for (i, sz) in sizes.iter().enumerate() {
            // the server echoes the request ids of the requests; any values, not necessarily ordered
            let req = 1000u32.wrapping_add((rng.next_u32() % 50_000) * 2 + 1).wrapping_add(i as u32 * 100_003);
            let values = 1 + sz / 2000;
            let res = w.write(req, read_response(i as u32, values, sz / values), &sc);
            results.push(res.as_ref().err().map(|e| status_name(*e)));
            match res {
                Ok(_) => accepted_ids.push(req),
                // the server's writing loop ends the connection on a write error; a history marked
                // "continue" keeps writing to the same writer instead
                Err(_) if !go_on => break,
                Err(_) => {}
            }
            if (i + 1) % flush_every == 0 {
                wire.extend_from_slice(&w.bytes_to_write());
            }
        }
        wire.extend_from_slice(&w.bytes_to_write());
        let emitted = parse_emitted(&wire, &mut rx)?;
        Ok::<_, String>((emitted, accepted_ids, results))
    });
    rep.sample(case.clone());
    match r {
        Err(p) => {
            rep.case(&format!("send-server panic {}", security));
            rep.violation(p.signature(), format!("panic: {} at {}:{}", p.msg, p.file, p.line), case.clone())
        }
        Ok(Err(e)) => {
            rep.case(&format!("send-server error {}", security));
            rep.violation(format!("sender-server|{}", normalize_msg(&e)), e, case.clone())
        }
        Ok(Ok((emitted, accepted_ids, results))) => {
            let accepted: Vec<bool> = results.iter().map(|r| r.is_none()).collect();
            let shape = refusal_shape(&accepted);
            rep.case(&format!(
                "send-server {} buf={} msgs={} refused={} flush={}",
                security, bufsize, results.len().min(8), shape, flush_every.min(4)
            ));
            rep.count("sender_server_chunks_emitted", emitted.len() as u64);
            if shape == "then-accepted" {
                rep.count("sender_server_histories_continued_after_a_refused_write", 1);
            }
            if let Some((sig, det, at)) = c12_sender_oracle_at("sender-server", &emitted, &accepted_ids) {
                let res: Vec<&str> = results.iter().map(|r| r.as_deref().unwrap_or("ok")).collect();
                rep.violation(qualify_after_refusal(sig, at, &emitted, &results), format!("{}; results of the writes: {:?}", det, res), case.clone());
            }
        }
    }
}

// ---- receiver half ---------------------------------------------------------------------------

struct RecvModel {
    /// highest sequence number of any accepted message
    last_max: u32,
    channel: u32,
    next_req: u32,
    /// chunk lists of the messages accepted so far
    accepted: Vec<Vec<ChunkSpec>>,
    msg_counter: u32,
}

const C12_HOSTILE: [&str; 13] = [
    "replay-exact", "restamp", "seq-at", "permute-order", "permute-numbers", "dup", "drop", "jump-inside", "descending",
    "mixed-request", "foreign-channel", "interleave", "near-wrap",
];

fn split_sizes(total: usize, parts: usize, rng: &mut Rng) -> Vec<usize> {
    // every part at least one byte
    let mut cuts: BTreeSet<usize> = BTreeSet::new();
    while cuts.len() + 1 < parts && cuts.len() + 1 < total {
        cuts.insert(1 + rng.usize(total - 1));
    }
    let mut sizes = Vec::new();
    let mut prev = 0;
    for c in cuts {
        sizes.push(c - prev);
        prev = c;
    }
    sizes.push(total - prev);
    sizes
}

/// Builds the chunk list of one presentation from an op. `fresh_req` hands out the request id(s)
/// the receiver will take chunks for (the server takes any; the client only pending requests).
fn c12_presentation(
    op: &Value,
    model: &mut RecvModel,
    rng: &mut Rng,
    body_of: &dyn Fn(u32, usize) -> Vec<u8>,
    fresh_req: &mut dyn FnMut() -> u32,
) -> Vec<ChunkSpec> {
    let kind = s(op, "op");
    let n = (u(op, "chunks") as usize).max(1);
    let pos = u(op, "pos") as usize;
    model.msg_counter += 1;
    let handle = model.msg_counter;
    let mk = |first: u32, n: usize, req: u32, model: &RecvModel, rng: &mut Rng| -> Vec<ChunkSpec> {
        let body = body_of(handle, n);
        let sizes = split_sizes(body.len(), n, rng);
        let parts = split_body(&body, &sizes);
        let n = parts.len();
        parts
            .into_iter()
            .enumerate()
            .map(|(i, b)| ChunkSpec { seq: first.wrapping_add(i as u32), req, channel: model.channel, fin: if i + 1 == n { b'F' } else { b'C' }, body: b })
            .collect()
    };
    let next = model.last_max.wrapping_add(1);
    match kind {
        "valid" => {
            let gap = u(op, "gap") as u32;
            let req = fresh_req();
            mk(next.wrapping_add(gap), n, req, model, rng)
        }
        "replay-exact" => {
            if model.accepted.is_empty() {
                let req = fresh_req();
                return mk(next, n, req, model, rng);
            }
            let which = u(op, "which") as usize % model.accepted.len();
            model.accepted[which].clone()
        }
        "restamp" => {
            // the sequence numbers (and bodies) of an accepted message under a fresh request id
            if model.accepted.is_empty() {
                let req = fresh_req();
                return mk(next, n, req, model, rng);
            }
            let which = u(op, "which") as usize % model.accepted.len();
            let req = fresh_req();
            model.accepted[which].iter().map(|c| ChunkSpec { req, ..c.clone() }).collect()
        }
        "seq-at" => {
            // first sequence number at last accepted + offset (offset <= 0: not above the previous ones)
            let off = op.get("offset").and_then(|x| x.as_i64()).unwrap_or(0);
            let first = (model.last_max as i64 + off).clamp(0, u32::MAX as i64) as u32;
            let req = fresh_req();
            mk(first, n, req, model, rng)
        }
        "permute-order" => {
            // correct chunks, presented in another order (the final chunk may come early)
            let req = fresh_req();
            let mut v = mk(next, n.max(2), req, model, rng);
            let k = v.len();
            v.rotate_left(1 + pos % (k - 1));
            v
        }
        "permute-numbers" => {
            // bodies and final flag in order, sequence numbers permuted
            let req = fresh_req();
            let mut v = mk(next, n.max(2), req, model, rng);
            let k = v.len();
            let mut seqs: Vec<u32> = v.iter().map(|c| c.seq).collect();
            seqs.rotate_left(1 + pos % (k - 1));
            for (c, sq) in v.iter_mut().zip(seqs) {
                c.seq = sq;
            }
            v
        }
        "dup" => {
            let req = fresh_req();
            let mut v = mk(next, n, req, model, rng);
            let p = pos % v.len();
            let c = v[p].clone();
            // an intermediate copy of the chunk (a copy of the final chunk would start a new message)
            v.insert(p, ChunkSpec { fin: b'C', ..c });
            v
        }
        "drop" => {
            let req = fresh_req();
            let mut v = mk(next, n.max(3), req, model, rng);
            let p = pos % (v.len() - 1);
            v.remove(p);
            v
        }
        "jump-inside" => {
            let req = fresh_req();
            let mut v = mk(next, n.max(2), req, model, rng);
            let p = 1 + pos % (v.len() - 1);
            let jump = 1 + u(op, "jump") as u32;
            for c in v.iter_mut().skip(p) {
                c.seq = c.seq.wrapping_add(jump);
            }
            v
        }
        "descending" => {
            let req = fresh_req();
            let mut v = mk(next, n.max(2), req, model, rng);
            let k = v.len() as u32;
            for (i, c) in v.iter_mut().enumerate() {
                c.seq = next.wrapping_add(k - 1 - i as u32);
            }
            v
        }
        "mixed-request" => {
            let req = fresh_req();
            let other = fresh_req();
            let mut v = mk(next, n.max(2), req, model, rng);
            let p = pos % v.len();
            v[p].req = other;
            v
        }
        "foreign-channel" => {
            let req = fresh_req();
            let mut v = mk(next, n, req, model, rng);
            let foreign = model.channel.wrapping_add(1 + u(op, "delta") as u32);
            if op.get("all").and_then(|x| x.as_bool()).unwrap_or(false) {
                for c in v.iter_mut() {
                    c.channel = foreign;
                }
            } else {
                let p = pos % v.len();
                v[p].channel = foreign;
            }
            v
        }
        "interleave" => {
            // two messages, numbered consecutively in presentation order, chunks alternating
            let ra = fresh_req();
            let rb = fresh_req();
            let a = mk(0, n.max(2), ra, model, rng);
            model.msg_counter += 1;
            let b = mk(0, n.max(2), rb, model, rng);
            let mut v = Vec::new();
            let (mut ia, mut ib) = (a.into_iter(), b.into_iter());
            loop {
                let (x, y) = (ia.next(), ib.next());
                if x.is_none() && y.is_none() {
                    break;
                }
                v.extend(x);
                v.extend(y);
            }
            for (i, c) in v.iter_mut().enumerate() {
                c.seq = next.wrapping_add(i as u32);
            }
            v
        }
        "near-wrap" => {
            // numbering that runs up to (or across) u32::MAX
            let back = u(op, "back") as u32;
            let req = fresh_req();
            mk(u32::MAX - back, n, req, model, rng)
        }
        _ => {
            let req = fresh_req();
            mk(next, n, req, model, rng)
        }
    }
}

/// What the property lets a receiver accept: `p` are all chunks that were presented for the message.
/// Returns the reasons why accepting it is a violation (empty = acceptance is permitted).
fn c12_acceptance_flaws(p: &[ChunkSpec], model: &RecvModel) -> Vec<&'static str> {
    let mut flaws = Vec::new();
    let seqs: BTreeSet<u32> = p.iter().map(|c| c.seq).collect();
    let v: Vec<u32> = seqs.iter().cloned().collect();
    if v.windows(2).any(|w| w[1] != w[0] + 1) {
        flaws.push("non-consecutive-sequence-numbers");
    }
    if let Some(min) = v.first() {
        if *min <= model.last_max {
            if model.accepted.iter().any(|a| a.len() == p.len() && a.iter().zip(p.iter()).all(|(x, y)| x.seq == y.seq && x.req == y.req && x.body == y.body)) {
                flaws.push("replay-of-an-accepted-message");
            } else {
                flaws.push("sequence-numbers-not-above-previous");
            }
        }
    }
    let reqs: BTreeSet<u32> = p.iter().map(|c| c.req).collect();
    if reqs.len() > 1 {
        flaws.push("mixed-request-ids");
    }
    if p.iter().any(|c| c.channel != model.channel) {
        flaws.push("foreign-channel-id");
    }
    flaws
}

fn wire_chunk(spec: &ChunkSpec, sender: &SecureChannel) -> MessageChunk {
    let fin = match spec.fin {
        b'F' => MessageIsFinalType::Final,
        b'A' => MessageIsFinalType::FinalError,
        _ => MessageIsFinalType::Intermediate,
    };
    let mut c = MessageChunk::new(spec.seq, spec.req, MessageChunkType::Message, fin, sender, &spec.body).expect("chunk");
    if spec.channel != sender.secure_channel_id() {
        patch_channel_id(&mut c, spec.channel);
    }
    let mut dst = vec![0u8; c.data.len() + 4096];
    let n = sender.apply_security(&c, &mut dst).expect("apply_security");
    dst.truncate(n);
    MessageChunk { data: dst }
}

struct RecvOutcome {
    /// (signature, detail)
    violations: Vec<(String, String)>,
    accepted_ok: u64,
    rejected: u64,
    chunks: u64,
    ignored: u64,
    shape: Vec<String>,
    setup_error: Option<String>,
}

fn c12_recv_server_case(case: &Value, env: &mut Env, rep: &mut Report) {
    let security = s(case, "security").to_string();
    let ops: Vec<Value> = case["ops"].as_array().cloned().unwrap_or_default();
    let lim = Limits { max_message_size: 327_675, max_chunk_count: 0, send_buffer_size: 65536, receive_buffer_size: 65536 };
    rep.begin_case(case);
    let mut out = RecvOutcome { violations: vec![], accepted_ok: 0, rejected: 0, chunks: 0, ignored: 0, shape: vec![], setup_error: None };
    let r = catch(|| {
        let mut rng = Rng::new(u(case, "cseed"));
        let mut peer = env.channel(Role::Client, wide_decoding_options());
        let server = env.server(&lim);
        let mut conn = HookConn::new(server, &lim);
        let mut model = RecvModel { last_max: 0, channel: 0, next_req: 100, accepted: vec![], msg_counter: 0 };
        if security == "sign" {
            if let Err(e) = conn.hello() {
                out.setup_error = Some(format!("hello refused: {}", e));
                return;
            }
            conn.drain();
            let sc = conn.t.verif_secure_channel();
            let mut g = sc.write();
            pair_sign(&mut peer, &mut g, 5, 2, &mut rng);
        } else {
            if let Err(e) = conn.open(&mut peer) {
                out.setup_error = Some(e);
                return;
            }
            model.last_max = 1; // the OPN chunk
        }
        model.channel = peer.secure_channel_id();
        let body_of = |handle: u32, n: usize| -> Vec<u8> { message_body(&get_endpoints_padded(handle, n + 8), &peer).1 };
        // chunks fed since the last message boundary
        let mut pending: Vec<ChunkSpec> = Vec::new();
        'ops: for op in &ops {
            let mut next_req = model.next_req;
            let pres = {
                let mut fresh = || {
                    next_req += 1;
                    next_req
                };
                c12_presentation(op, &mut model, &mut rng, &body_of, &mut fresh)
            };
            model.next_req = next_req;
            let mut res_shape = String::new();
            for spec in &pres {
                out.chunks += 1;
                let chunk = wire_chunk(spec, &peer);
                let fed = conn.feed(chunk);
                let responses = conn.drain();
                match fed {
                    Err(e) => {
                        out.rejected += 1;
                        out.shape.push(format!("{}:rej({})", s(op, "op"), status_name(e)));
                        break 'ops; // the reading loop ends the connection
                    }
                    Ok(()) => {
                        if spec.fin == b'A' {
                            pending.clear();
                            continue;
                        }
                        pending.push(spec.clone());
                        if spec.fin == b'F' {
                            if !responses.is_empty() {
                                let flaws = c12_acceptance_flaws(&pending, &model);
                                if flaws.is_empty() {
                                    out.accepted_ok += 1;
                                    res_shape.push_str("acc");
                                } else {
                                    res_shape.push_str("ACC!");
                                    for f in &flaws {
                                        out.violations.push((
                                            format!("receiver-server|accepted|{}", f),
                                            format!(
                                                "the server answered ({}) a message presented as {} whose chunks were {}; highest sequence number accepted before: {}, channel id {}",
                                                msg_name(&responses[0].1), s(op, "op"), Value::Array(pending.iter().map(|c| c.json()).collect()).to_string(), model.last_max, model.channel
                                            ),
                                        ));
                                    }
                                }
                                let mx = pending.iter().map(|c| c.seq).max().unwrap_or(0);
                                model.last_max = model.last_max.max(mx);
                                model.accepted.push(pending.clone());
                            } else {
                                res_shape.push_str("silent");
                            }
                            pending.clear();
                        }
                    }
                }
            }
            out.shape.push(format!("{}:{}", s(op, "op"), res_shape));
        }
    });
    c12_recv_report("recv-server", &security, case, r, out, rep);
}

fn c12_recv_report(who: &str, security: &str, case: &Value, r: Result<(), PanicInfo>, out: RecvOutcome, rep: &mut Report) {
    // class: the op kinds with their outcomes, chunk counts reduced to classes
    let ops: Vec<String> = case["ops"]
        .as_array()
        .map(|a| a.iter().map(|o| format!("{}{}", s(o, "op"), match u(o, "chunks") { 0 | 1 => "1", 2 => "2", _ => "n" })).collect())
        .unwrap_or_default();
    rep.case(&format!("{} {} {} => {}", who, security, ops.join(","), out.shape.join(",")));
    rep.sample(json!({"case": case, "outcome": out.shape}));
    rep.count(&format!("{}_chunks_presented", who.replace('-', "_")), out.chunks);
    rep.count(&format!("{}_messages_accepted_as_permitted", who.replace('-', "_")), out.accepted_ok);
    rep.count(&format!("{}_presentations_rejected", who.replace('-', "_")), out.rejected);
    if out.ignored > 0 {
        rep.count(&format!("{}_chunks_ignored", who.replace('-', "_")), out.ignored);
    }
    if let Some(e) = out.setup_error {
        rep.inconclusive(format!("{} case could not be set up: {}", who, e));
    }
    for (sig, det) in out.violations {
        rep.violation(sig, det, case.clone());
    }
    if let Err(p) = r {
        let note = if p.msg.contains("overflow") { " (panics with overflow checks on; wraps silently in a release build)" } else { "" };
        rep.violation(
            format!("{}|{}", who.replace("recv", "receiver"), p.signature()),
            format!("panic in the receive path: {} at {}:{}{}; history {:?}", p.msg, p.file, p.line, note, out_shape_hint(case)),
            case.clone(),
        );
    }
}

fn out_shape_hint(case: &Value) -> Vec<String> {
    case["ops"].as_array().map(|a| a.iter().map(|o| o.to_string()).collect()).unwrap_or_default()
}

fn c12_recv_client_case(case: &Value, env: &Env, rt: &tokio::runtime::Runtime, rep: &mut Report) {
    let security = s(case, "security").to_string();
    let ops: Vec<Value> = case["ops"].as_array().cloned().unwrap_or_default();
    rep.begin_case(case);
    let mut out = RecvOutcome { violations: vec![], accepted_ok: 0, rejected: 0, chunks: 0, ignored: 0, shape: vec![], setup_error: None };
    let r = catch(|| {
        let mut rng = Rng::new(u(case, "cseed"));
        let mut client_sc = env.channel(Role::Client, wide_decoding_options());
        let mut sender = env.channel(Role::Server, wide_decoding_options());
        if security == "sign" {
            pair_sign(&mut sender, &mut client_sc, 5, 2, &mut rng);
        } else {
            sender.set_secure_channel_id(5);
            client_sc.set_secure_channel_id(5);
        }
        let client_sc = Arc::new(RwLock::new(client_sc));
        let mut state = VerifTransportState::new(client_sc.clone(), 0, usize::MAX, 64);
        let mut sb = SendBuffer::new(65536, 0, 0);
        let deadline = std::time::Instant::now() + std::time::Duration::from_secs(3600);
        let mut model = RecvModel { last_max: 0, channel: 5, next_req: 0, accepted: vec![], msg_counter: 0 };
        let body_of = |handle: u32, n: usize| -> Vec<u8> { message_body(&read_response(handle, 1 + n / 8, 8), &sender).1 };
        // request id -> (completion, chunks presented for it)
        let mut pending: BTreeMap<u32, (Completion, Vec<ChunkSpec>)> = BTreeMap::new();
        'ops: for op in &ops {
            let mut new_reqs: Vec<(u32, Completion)> = Vec::new();
            let pres = {
                let mut fresh = || {
                    // a real pending request: submitted like a session does, id allocated by the transport state
                    let c = state.submit(get_endpoints(1), deadline, true).ok().flatten().expect("submit");
                    let (_, id) = rt.block_on(state.wait_for_outgoing_message(&mut sb)).expect("outgoing");
                    new_reqs.push((id, c));
                    id
                };
                c12_presentation(op, &mut model, &mut rng, &body_of, &mut fresh)
            };
            for (id, c) in new_reqs {
                pending.insert(id, (c, Vec::new()));
            }
            let mut res_shape = String::new();
            for spec in &pres {
                out.chunks += 1;
                let chunk = wire_chunk(spec, &sender);
                let known = pending.contains_key(&spec.req);
                if let Some(e) = pending.get_mut(&spec.req) {
                    e.1.push(spec.clone());
                }
                let fed = state.handle_incoming_message(Message::Chunk(chunk));
                // which requests completed?
                let mut done: Vec<(u32, Result<SupportedMessage, StatusCode>)> = Vec::new();
                let mut dropped: Vec<u32> = Vec::new();
                for (id, (c, _)) in pending.iter_mut() {
                    match c.try_recv() {
                        Ok(r) => done.push((*id, r)),
                        Err(tokio::sync::oneshot::error::TryRecvError::Closed) => dropped.push(*id),
                        Err(tokio::sync::oneshot::error::TryRecvError::Empty) => {}
                    }
                }
                for (id, r) in done {
                    let (_, p) = pending.remove(&id).unwrap();
                    match r {
                        Ok(m) => {
                            let flaws = c12_acceptance_flaws(&p, &model);
                            if flaws.is_empty() {
                                out.accepted_ok += 1;
                                res_shape.push_str("acc");
                            } else {
                                res_shape.push_str("ACC!");
                                for f in &flaws {
                                    out.violations.push((
                                        format!("receiver-client|accepted|{}", f),
                                        format!(
                                            "the client completed request {} with {} from chunks presented as {}: {}; highest sequence number accepted before: {}, channel id {}",
                                            id, msg_name(&m), s(op, "op"), Value::Array(p.iter().map(|c| c.json()).collect()).to_string(), model.last_max, model.channel
                                        ),
                                    ));
                                }
                            }
                            let mx = p.iter().map(|c| c.seq).max().unwrap_or(0);
                            model.last_max = model.last_max.max(mx);
                            model.accepted.push(p);
                        }
                        Err(st) => res_shape.push_str(&format!("fail({})", status_name(st))),
                    }
                }
                for id in dropped {
                    pending.remove(&id);
                }
                match fed {
                    Err(e) => {
                        out.rejected += 1;
                        out.shape.push(format!("{}:{}rej({})", s(op, "op"), res_shape, status_name(e)));
                        break 'ops; // the client closes the transport
                    }
                    Ok(()) => {
                        if !known {
                            out.ignored += 1;
                        }
                    }
                }
            }
            out.shape.push(format!("{}:{}", s(op, "op"), res_shape));
        }
    });
    c12_recv_report("recv-client", &security, case, r, out, rep);
}

fn c12_recv_cases(args: &Args, part: &str, rng: &mut Rng) -> Vec<Value> {
    let mut cases = Vec::new();
    let mk = |security: &str, ops: Vec<Value>, rng: &mut Rng| json!({"part": part, "security": security, "ops": ops, "cseed": rng.next_u64() >> 12});
    let valid = |chunks: usize, gap: u32| json!({"op": "valid", "chunks": chunks, "gap": gap});
    for security in ["none", "sign"] {
        // on the Sign channel only single-chunk messages can be valid ones (see the note in the rule)
        let valid_counts: Vec<usize> = if security == "none" { vec![1, 2, 3, 5] } else { vec![1] };
        for &vc in &valid_counts {
            // a plain history, then the replay of each accepted message
            cases.push(mk(security, vec![valid(vc, 0), valid(1, 0), valid(vc, 1), json!({"op": "replay-exact", "which": 0})], rng));
            cases.push(mk(security, vec![valid(vc, 0), valid(vc, 0), json!({"op": "replay-exact", "which": 1})], rng));
            cases.push(mk(security, vec![valid(vc, 0), json!({"op": "restamp", "which": 0})], rng));
            cases.push(mk(security, vec![valid(vc, 0), valid(2.min(vc), 1000), json!({"op": "restamp", "which": 1})], rng));
            // boundaries of "greater than every previously accepted one", after a single-chunk message and
            // directly after a message of vc chunks (every overlap with its numbers)
            for n in [1usize, 2, 4] {
                for off in [-(n as i64) - 1, -(n as i64), -(n as i64) + 1, -1, 0, 1, 2] {
                    cases.push(mk(security, vec![valid(vc, 0), valid(1, 0), json!({"op": "seq-at", "chunks": n, "offset": off}), valid(1, 0)], rng));
                }
                for off in -(vc as i64) - 1..=0 {
                    cases.push(mk(security, vec![valid(1, 0), valid(vc, 0), json!({"op": "seq-at", "chunks": n, "offset": off}), valid(1, 0)], rng));
                }
            }
        }
        for n in [2usize, 3, 5] {
            for pos in 0..n {
                for kind in ["permute-order", "permute-numbers", "dup", "drop", "jump-inside", "mixed-request", "foreign-channel"] {
                    cases.push(mk(security, vec![valid(1, 0), json!({"op": kind, "chunks": n, "pos": pos, "jump": pos % 3, "delta": pos}), valid(1, 0)], rng));
                }
            }
            cases.push(mk(security, vec![valid(1, 0), json!({"op": "descending", "chunks": n}), valid(1, 0)], rng));
            cases.push(mk(security, vec![valid(1, 0), json!({"op": "interleave", "chunks": n}), valid(1, 0)], rng));
            cases.push(mk(security, vec![json!({"op": "foreign-channel", "chunks": n, "all": true, "delta": 0}), valid(1, 0)], rng));
        }
        cases.push(mk(security, vec![json!({"op": "foreign-channel", "chunks": 1, "all": true, "delta": 0})], rng));
        // numbering at the top of the u32 range
        for n in [1usize, 2, 3] {
            for back in [0u32, 1, 2, 3, 1024] {
                cases.push(mk(security, vec![valid(1, 0), json!({"op": "near-wrap", "chunks": n, "back": back}), valid(1, 0), json!({"op": "replay-exact", "which": 0})], rng));
            }
        }
    }
    // seeded random histories
    let extra = if args.thorough() { 6000 } else { 500 };
    for _ in 0..extra {
        let security = if rng.chance(2, 3) { "none" } else { "sign" };
        let len = 2 + rng.usize(10);
        let mut ops = Vec::new();
        for _ in 0..len {
            if rng.chance(3, 5) {
                let chunks = if security == "none" { 1 + rng.usize(5) } else { 1 };
                let gap = if rng.chance(1, 4) { 1 + rng.below(5000) as u32 } else { 0 };
                ops.push(valid(chunks, gap));
            } else {
                let kind = *rng.pick(&C12_HOSTILE);
                ops.push(json!({"op": kind, "chunks": 1 + rng.usize(5), "pos": rng.usize(6), "which": rng.usize(8), "jump": rng.usize(3),
                                "offset": rng.range(-7, 2), "delta": rng.usize(3), "all": rng.bool(), "back": rng.usize(6)}));
            }
        }
        cases.push(mk(security, ops, rng));
    }
    cases
}

fn c12_sender_cases(args: &Args, rng: &mut Rng) -> Vec<Value> {
    let mut cases = Vec::new();
    // Grid: histories that go on after a refused write. The refused request exceeds max_chunk_count while
    // fitting max_message_size, or exceeds max_message_size; it is followed (and preceded) by accepted
    // requests of one and of several chunks, and by a second refusal.
    for security in ["none", "sign"] {
        for sbs in [8196usize, 16384] {
            for (mms, mcc) in [(0usize, 2usize), (0, 1), (6 * sbs, 2), (3 * sbs, 0), (3 * sbs, 4)] {
                for script in ["all", "fixed"] {
                    let big = 4 * sbs + 500; // 5 chunks, over either limit of every limit set above
                    let two = if mcc == 1 { 200 } else { sbs + 2000 };
                    let msgs = vec![300, two, big, 100, two, big, big, 50];
                    cases.push(json!({"part": "send-client", "security": security, "send_buffer_size": sbs, "max_message_size": mms,
                                      "max_chunk_count": mcc, "msgs": msgs, "script": script, "after_refusal": "continue",
                                      "cseed": rng.next_u64() >> 12}));
                }
            }
        }
        for buf in [8196usize, 65536] {
            // the writer never splits a message (chunk size 0), so only max_message_size can refuse
            let mms = buf / 2;
            let big = mms + 3000;
            let big = if security == "sign" { big.min(buf - 700) } else { big };
            let msgs = vec![100, 2000, big, 300, mms / 2, big, big, 10];
            for mcc in [0usize, 1] {
                cases.push(json!({"part": "send-server", "security": security, "buffer_size": buf, "max_message_size": mms,
                                  "max_chunk_count": mcc, "msgs": msgs, "flush_every": 1 + rng.usize(3), "after_refusal": "continue",
                                  "cseed": rng.next_u64() >> 12}));
            }
            // third way a write is refused: no limits, but the response does not fit the writer's buffer
            // (unsecured channel only, see the note on secured histories below)
            if security == "none" {
                let msgs = vec![100, buf + 3000, 200, 3000, buf + 3000, buf + 3000, 50];
                cases.push(json!({"part": "send-server", "security": security, "buffer_size": buf, "max_message_size": 0,
                                  "max_chunk_count": 0, "msgs": msgs, "flush_every": 1 + rng.usize(3), "after_refusal": "continue",
                                  "cseed": rng.next_u64() >> 12}));
            }
        }
    }
    let n = if args.thorough() { 3000 } else { 300 };
    for i in 0..n {
        let security = if rng.bool() { "none" } else { "sign" };
        if i % 3 != 0 {
            let sbs = *rng.pick(&[8196usize, 8196, 9000, 16384, 65536]);
            let nm = 1 + rng.usize(12);
            let msgs: Vec<usize> = (0..nm)
                .map(|_| match rng.below(5) {
                    0 => rng.usize(300),
                    1 => sbs - 300 + rng.usize(600),
                    2 => rng.usize(6 * sbs),
                    3 => 3 * sbs - 300 + rng.usize(600),
                    _ => rng.usize(3000),
                })
                .collect();
            let (mms, mcc) = match rng.below(6) {
                0 => (3 * sbs, 0),
                1 => (0, 1 + rng.usize(4)),
                2 => (5 * sbs, 1 + rng.usize(3)),
                _ => (0, 0),
            };
            let script = *rng.pick(&["all", "all", "random", "fixed"]);
            // half of the histories end at the first refused write (the client's poll loop), half go on
            let after = if rng.bool() { "stop" } else { "continue" };
            cases.push(json!({"part": "send-client", "security": security, "send_buffer_size": sbs, "max_message_size": mms,
                              "max_chunk_count": mcc, "msgs": msgs, "script": script, "after_refusal": after, "cseed": rng.next_u64() >> 12}));
        } else {
            let buf = *rng.pick(&[8196usize, 65536, 65536, 100_000]);
            let nm = 1 + rng.usize(20);
            let msgs: Vec<usize> = (0..nm)
                .map(|_| match rng.below(5) {
                    0 => rng.usize(100),
                    1 => buf - 500 + rng.usize(1400),
                    2 => rng.usize(buf),
                    _ => rng.usize(4000),
                })
                .collect();
            let mms = if rng.chance(1, 4) { buf / 2 } else { 0 };
            // On a secured channel a response that does not fit the writer's buffer makes apply_security
            // panic (slice out of range) instead of returning an error. That is a send-path defect outside
            // this property (either way the connection ends there), so secured histories stay within the buffer.
            let msgs: Vec<usize> = if security == "sign" { msgs.into_iter().map(|m| m.min(buf - 700)).collect() } else { msgs };
            let after = if rng.bool() { "stop" } else { "continue" };
            let mcc = if rng.chance(1, 4) { 1 + rng.usize(2) } else { 0 };
            cases.push(json!({"part": "send-server", "security": security, "buffer_size": buf, "max_message_size": mms, "max_chunk_count": mcc,
                              "msgs": msgs, "flush_every": 1 + rng.usize(3), "after_refusal": after, "cseed": rng.next_u64() >> 12}));
        }
    }
    cases
}

fn c12_run_case(case: &Value, env: &mut Env, rt: &tokio::runtime::Runtime, rep: &mut Report) {
    match s(case, "part") {
        "send-client" => c12_send_client_case(case, env, rt, rep),
        "send-server" => c12_send_server_case(case, env, rep),
        "recv-server" => c12_recv_server_case(case, env, rep),
        "recv-client" => c12_recv_client_case(case, env, rt, rep),
        other => rep.inconclusive(format!("unknown C12 case part {:?}", other)),
    }
}

pub fn c12(args: &Args, rep: &mut Report) {
    let mut env = Env::new("c12");
    let rt = new_runtime();
    if let Some(path) = &args.replay {
        let Some(case) = read_replay(path) else {
            rep.inconclusive("cannot read replay file");
            return;
        };
        c12_run_case(&case, &mut env, &rt, rep);
        return;
    }
    let mut rng = Rng::new(args.seed ^ 0xC12);
    let mut cases = c12_sender_cases(args, &mut rng);
    cases.extend(c12_recv_cases(args, "recv-server", &mut rng));
    cases.extend(c12_recv_cases(args, "recv-client", &mut rng));
    for (i, case) in cases.iter().enumerate() {
        if i % args.shards != args.shard {
            continue;
        }
        c12_run_case(case, &mut env, &rt, rep);
    }
}
